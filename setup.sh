#!/bin/bash
# Run once after a fresh restore, offline: pre-builds every check binary so that the
# first quick run is not dominated by compilation. Everything comes from files on disk.
set -u
cd "$(dirname "$0")"
export GOFLAGS=-mod=mod GOPROXY=off GOSUMDB=off GOTOOLCHAIN=local
mkdir -p bin evidence replays
cp -f /repo/go.sum go.sum
rc=0
for d in checks/c*/; do
  n=$(basename "$d")
  go build -tags verif -o "bin/$n" "./$d" || rc=1
done
for n in c19 c04 c03; do GOARCH=386 go build -tags verif -o bin/$n.386 ./checks/$n || rc=1; done
if [ -x tools/prebuild_race.sh ]; then tools/prebuild_race.sh || true; fi
exit $rc
