#!/bin/bash
# Run once after a fresh restore, offline: pre-builds every check binary so that the
# first quick run is not dominated by compilation. Everything comes from files on disk.
set -u
cd "$(dirname "$0")"
export GOFLAGS=-mod=mod GOPROXY=off GOSUMDB=off GOTOOLCHAIN=local
mkdir -p bin evidence replays
cp -f /repo/go.sum go.sum
rc=0
for d in checks/c*/; do
  n=$(basename "$d")
  go build -tags verif -o "bin/$n" "./$d" || rc=1
done
GOARCH=386 go build -tags verif -o bin/c19.386 ./checks/c19 || rc=1
if [ -x tools/prebuild_race.sh ]; then tools/prebuild_race.sh || true; fi
exit $rc
