#!/usr/bin/env python3
"""Validate MANIFEST.json and evidence/*.json against the schemas in /root/.vp."""
import json, sys, glob, os
try:
    import jsonschema
except ImportError:
    sys.path.insert(0, '/opt/veriftools/pyvenv/lib/python3.11/site-packages')
    import jsonschema
root = os.path.dirname(os.path.dirname(os.path.abspath(__file__)))
ok = True
def val(path, schema):
    global ok
    try:
        jsonschema.validate(json.load(open(path)), json.load(open(schema)))
        print("valid  ", path)
    except Exception as e:
        ok = False
        print("INVALID", path, str(e)[:300])
val(os.path.join(root, 'MANIFEST.json'), '/root/.vp/MANIFEST.schema.json')
for f in sorted(glob.glob(os.path.join(root, 'evidence', '*.json'))):
    val(f, '/root/.vp/EVIDENCE.schema.json')
sys.exit(0 if ok else 1)
