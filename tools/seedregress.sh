#!/bin/bash
# tools/seedregress.sh [seed-id ...] — final regression: every seeded change against the check of
# its own property and against every check that reported it in an earlier run (detection.txt, meta.json).
# Writes seeded/<id>/final.txt. Never touches /repo.
cd "$(dirname "$0")/.."
seeds=("$@"); [ ${#seeds[@]} -eq 0 ] && seeds=($(ls seeded))
for sd in "${seeds[@]}"; do
  own="${sd%%-*}"
  others=$( (grep -h ' DETECTED' seeded/$sd/detection.txt 2>/dev/null; python3 -c "
import json,sys
try:
    m=json.load(open('seeded/$sd/meta.json'))
    for part in m['confirmation'].get('first_run_quick','').split(';'):
        if ' DETECTED' in part: print(part)
except Exception: pass
") | sed -n 's/.*check=\(C[0-9]*\).*/\1/p' | sort -u | tr '\n' ' ')
  extra=""
  case "$sd" in C10-B|C11-B|C14-D|C15-D|C05-F|C06-E|C08-H|C15-H|C07-A|C01-J|C13-I|C15-P|C08-Q) extra="C17";; esac
  case "$sd" in C16-L) extra="C05";; esac
  case "$sd" in C15-B|C17-I|C12-I) extra="C16";; C15-G) extra="C14";; C11-A) extra="C01 C02 C16";; C03-H) extra="C07";; esac
  list=""
  for c in $own $others $extra; do case " $list " in *" $c "*) ;; *) list="$list $c";; esac; done
  set -- $list
  first=$1; shift
  tools/seedcheck.sh seeded/$sd $first quick "$@" 2>&1 | grep -E "SEED-RESULT|^violation" | cut -c1-300 > seeded/$sd/final.txt
  echo "$sd: own=$(grep -q "check=$own .* DETECTED" seeded/$sd/final.txt && echo yes || echo NO) detect: $(grep ' DETECTED' seeded/$sd/final.txt | sed 's/.*check=\(C[0-9]*\).*/\1/' | tr '\n' ' ')"
done
