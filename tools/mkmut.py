#!/usr/bin/env python3
"""tools/mkmut.py <out.diff> <repo-relative-file> <old> <new> [<file2> <old2> <new2> ...]
Writes a -p1 unified diff that replaces the first occurrence of <old> by <new> in /repo/<file>
(without touching /repo). Strings may contain \\n and \\t escapes."""
import sys, difflib
out = sys.argv[1]; args = sys.argv[2:]
chunks = []
edited = {}
for i in range(0, len(args), 3):
    rel, old, new = args[i], args[i+1].encode().decode('unicode_escape'), args[i+2].encode().decode('unicode_escape')
    cur = edited.get(rel) or open('/repo/' + rel).read()
    if old not in cur:
        sys.exit("pattern not found in %s: %r" % (rel, old))
    edited[rel] = cur.replace(old, new, 1)
for rel, dst in edited.items():
    src = open('/repo/' + rel).read()
    chunks.append(''.join(difflib.unified_diff(src.splitlines(True), dst.splitlines(True), 'a/' + rel, 'b/' + rel)))
open(out, 'w').write(''.join(chunks))
print("wrote", out)
