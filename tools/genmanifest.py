#!/usr/bin/env python3
"""Regenerates /verif/MANIFEST.json from the table below (one row per claimed property)."""
import json, os

ROOT = os.path.dirname(os.path.dirname(os.path.abspath(__file__)))

BASELINE_OFF = ("cd /repo && GOFLAGS=-mod=mod GOPROXY=off GOSUMDB=off GOTOOLCHAIN=local "
                "go test -json -vet=off -count=1 -timeout 25m ./...")

# id: (engine, category, technique, text, note, design_ref)
CHECKS = {}

def add(pid, engine, category, technique, text, note, ref):
    CHECKS[pid] = dict(engine=engine, category=category, technique=technique, text=text, note=note, ref=ref)

add("C19", 'xenum', 'exploration',
    'bounded exhaustive enumeration of values, byte strings and declared lengths on the real quicwire package against an RFC 9000 arithmetic reference',
    'Every value below 2^22 (quick) / 2^30 plus the first 2^26 values of the 8-byte class (thorough), every 2^k-boundary value up to 2^62-1, every 8-byte form over a 5-byte alphabet, every byte string of length <= 3 and every first byte x length 0..9 as decoder input (with different bytes behind the slice), every length class x declared-length boundary (up to 2^62-1) x remaining length 0..70 for the byte-string consumers: encoder, size function and decoder must agree with the reference on all of them; destinations inside guarded buffers with spare capacity 0..300: only the appended bytes may change, also when the string to append lies inside that spare capacity; results handed out earlier are not served again after the caller changed them; the empty string also as nil. The whole check is also built for GOARCH=386 and run by the 64-bit program (declared lengths 2^32*m+k meet a 32-bit int); its findings are reported with the prefix [GOARCH=386].',
    'Trusted: the 40-line arithmetic reference in checks/c19; values in [2^30+2^26, 2^62) are covered only through the boundary alphabet.',
    'DESIGN.md 4 C19')

add("C01", 'xenum+seqx', 'exploration',
    'bounded exhaustive enumeration of honest issuance flows (type x key x challenge length x nonce x entropy x batch x origin x blind alphabets, keys with truncated id 00/ff found by search, special origin names, the empty challenge as nil and as empty slice, type-3 blinds that are not group scalars, type-2 blinds with leading zero bytes) on the real code with every message crossing the wire as bytes, plus all sequences (length 2..3/4) of issuances that share the issuer-side request object or are in flight together, plus the life of one type-3 client object across origins registered late and issuers with sibling token keys',
    "Every tuple of the per-type alphabets is run client -> bytes -> decoder -> issuer (-> attester for type 3) -> bytes -> client; the token must have the exact layout and verify under an independent verifier (crypto/rsa PSS; RFC 9497 evaluation recomposed from group primitives) and under the issuer's own Verify. Callers reuse their argument buffers after every call; issuers reuse their decoder object; several requests are evaluated before the first is finalized.",
    'Keys, nonces, challenges and blinds are fixed alphabets of representatives (boundary scalars 1, 2, N-1, leading-zero, DRBG); entropy is a SHA-256 counter DRBG installed in crypto/rand.Reader.',
    'DESIGN.md 4 C01, 9.2b')

add("C03", 'xenum+guard', 'exploration',
    'bounded exhaustive enumeration of byte strings (all strings over a 12-byte alphabet up to length 4/5; every truncation, extension, length-field value up to 2^62-1 in every encoding, byte substitution and bit flip of valid messages; boundary (r,s) pairs as raw, DER and inside requests; correctly encrypted and signed requests with malformed inner plaintexts and with unusual padded origin fields; well-formed SubjectPublicKeyInfo of foreign key types and of RSA keys with degenerate integers; separator characters of textual parts singly and doubled; length-prefixed parts resized consistently) against 44 byte-consuming entry points, each call guarded for panic, allocation and termination in single-threaded worker subprocesses under an address-space limit',
    'For every target and every generated input: no panic (recovered and reported), no fatal runtime error (a worker killed by the runtime is attributed to the journaled case), TotalAlloc delta within 1 MiB + 64*len (steps) / 64 KiB + 16*len (decoders), and return within the watchdog. About 0.8M calls quick, several million thorough.',
    'Arbitrary bytes are represented by the structured generators, not by all 256^n strings; allocation is measured per call with runtime.MemStats in a GOMAXPROCS=1 worker; non-termination means no progress of a worker for 60 s in the sweep and no return within 120 s in the isolated confirmation.',
    'DESIGN.md 4 C03, 9.2')
add("C10", "xenum", "exploration",
    "bounded exhaustive enumeration of tokens (every single-bit flip of honest tokens, full token x issuer-key matrix incl. cross-type, hand-built Token structs with moved field boundaries; decoded tokens whose fields are assigned before Verify; every sequence up to depth 3/4 over an 11-letter menu of presentations (incl. the bytes of an accepted token cut at other field boundaries) on ONE issuer object) against type-1/type-5 issuer Verify with the RFC 9497 evaluation recomposed from group primitives as accept/reject oracle",
    "Verify's verdict must equal 'authenticator == VOPRF(key, type||nonce||context||keyid as carried)' on every case; the verdict on a token does not depend on what the issuer object was shown before; both verdict classes are populated (recomputed authenticators for foreign keys/types form the accept class).",
    "Reference VOPRF shares circl's group arithmetic with the implementation; keys and inputs are fixed alphabets.",
    "DESIGN.md 4 C10")
add("C11", "xenum", "exploration",
    "bounded exhaustive enumeration of (type x key x input x salt x batch size x ordered pairs of blinds) with caller-supplied blinds plus all shipped interop vectors, comparing request and token bytes across repetitions, interleaved unrelated calls and blinds",
    "Request creation must be a pure function of its arguments and the finalized token identical under every blind and on every run; the 3 Rust vectors and the 20 Go vectors must reproduce byte for byte (request, decoded response finalization, token).",
    "Blind alphabets are boundary scalars plus DRBG values, for RSA also N-1 and respellings of one integer with leading zero bytes (same request required); a blind repeated within a batch; one challenge buffer refilled for every request with an unrelated request first; token context = SHA-256(challenge); degenerate salts; degenerate blinds (nil, empty, zero, order/modulus, wrong lengths and counts) must give the same outcome on every call; 'every run' is observed as repeated in-process issuance under different issuer randomness.",
    "DESIGN.md 4 C11")
add("C18", "xenum", "exploration",
    "bounded exhaustive enumeration of RSA public keys (every modulus bit length 16..2100/4104 x 4 value patterns x 9 exponents (incl. 0, 1, 2), moduli up to 20000 bits, OPRF keys found by search whose serialised public key starts or ends with a zero byte, a key object refilled in place (keys decoded earlier stay intact), moduli containing PEM text, plus 10 exponents whose DER ends in bytes that text handling trims), VOPRF keys and name keys against a hand-written DER/TLV reference and independent key-id computation",
    "Both SPKI forms round-trip; the RSASSA-PSS form is byte-identical to hand-assembled DER with the literal RFC 9578 AlgorithmIdentifier; each issuer TokenKeyID equals SHA-256 of the independently serialised public key; requests of types 1/2/5 carry its last byte; type-3 requests carry SHA-256 of the name key bytes the issuer published (hand-built for every key id x KEM x KDF x AEAD), also when one client object uses several name keys in turn, and a decoded name key serialises back to those bytes.",
    "Trusted: the hand DER encoder and the 63-byte AlgorithmIdentifier literal in checks/c18; crypto/elliptic for the P-384 public key reference.",
    "DESIGN.md 4 C18")
add("C20", 'xenum', 'exploration',
    'exhaustive enumeration of origin-name lengths 0..65535 x 4 content patterns through the padding functions (hook) and lengths 0..130 (plus ten lengths up to 65000) / 0..4128 x 3 content patterns (letters, interior zero bytes, leading zero bytes) end to end through the real client and issuer with up to thirteen neighbour names per name (one client object per case, issuers already in service when the origin is added), plus registered names that look like patterns or lists with look-alike neighbours',
    'unpad(pad(name)) == name and |pad(name)| == 32*max(1,ceil(n/32)) for every length; the registered name is served and every neighbour (last byte changed, shortened, extended, padding-like suffixes, leading zero bytes added or removed) is refused; the wire length equals base + 32*blocks for every request.',
    'Names are drawn from content patterns per length; names that cannot be marshalled (> ~65200 bytes) are outside the end-to-end part.',
    'DESIGN.md 4 C20, 9.2b')

add("C04", "xenum+seqx", "model_checking",
    "bounded exhaustive enumeration of accepted byte strings and well-formed values per codec plus explicit-state enumeration of Marshal/Unmarshal operation sequences on live objects, against hand-written wire encoders",
    "13 codecs: every well-formed value from field alphabets (incl. hand-assembled name keys of other KEMs) round-trips and equals the hand encoding; every generated byte string a decoder accepts re-encodes to something no longer (and, where the length is the same, to the identical bytes: the decoder returns the value that was encoded), which decodes to the same value and is what Marshal returns on fresh and on reused objects; every operation sequence (Marshal, Unmarshal of 4 valid and 3 invalid encodings) up to depth 3/4 on one object; 4 request decoders x 4 bodies x all 65536 tags; batch lists over 7 element types up to length 3/4; Rust vectors decode and re-encode byte for byte.",
    "Arbitrary accepted strings are represented by the structured generators; contents of an object after a rejected Unmarshal are treated as unspecified; hand encoders are the trusted reference of the wire format.",
    "DESIGN.md 4 C04")
add("C08", 'seqx', 'model_checking',
    'depth-bounded explicit-state enumeration of request histories (origin x blind x anonymous-id choice per step, re-registration of an origin with another index key) of one client on ONE live issuer and attester (successors by history replay), every step the full client/attester/issuer flow, against an independent HKDF / hash_to_field / crypto/elliptic reference; blinds include 2^384-1, a 64-byte blind and zero; per origin a request with a second request of the same client in flight at the attester; plus five spellings of the client key and clients found by search whose (blinded) public key has a leading zero byte',
    "Every history of <= 2 (quick) / <= 3 (thorough) steps for 5 clients x 2 index-key sets: the returned ID equals the reference at every step (hence is stable across blinds, nonces, challenges, anonymous ids and history position and follows the registered index key), Evaluate's blinded request key equals f*requestKey, IDs returned earlier keep their bytes, whatever key spelling the attester accepts yields the client's ID, and the (client, index key) IDs are pairwise distinct.",
    'Client secrets, index keys and blinds are boundary-scalar alphabets; the reference (RFC 9380 XMD, HKDF-SHA-384) is in checks/c08/ref.go.',
    'DESIGN.md 4 C08, 9.2b')
add("C09", 'seqx', 'model_checking',
    'three searches over the real RateLimitedAttester stepped in lock-step with a two-map reference model: breadth-first to a fix-point with the cache cloned through the verif hook (one client + unverified U with anonymous ids {x,y,empty}; two clients + U), every full-length event sequence (depth 4/5) on one persistent attester object without state merging, and one long history per client with 2..130 (600) origins (bind all, repeat, foreign anonymous ids, repeat); the never-verified client is -A',
    'In every reachable state every enabled event (verify, verify with bad signature / wrong blind, finalize for each client x origin x anonymous id) is applied; verdict, returned ID and the accepted-bindings map must equal the model; rejected calls leave bindings in force; unverified clients are always refused; whatever the attester object remembers outside the cache cannot change a verdict.',
    'State merging assumes decisions depend on the dumped maps and the arguments only (the third search does not); event arguments are precomputed honest byte strings.',
    'DESIGN.md 4 C09, 9.2b')
add("C14", "xenum+envx", "exploration",
    "bounded exhaustive differential enumeration against crypto/ed25519 and math/big references: seeds x message lengths for derive/sign (also through crypto.Signer with entropy readers), every entropy-fault script with <= 1/2 deviations for GenerateKey (returned public key and Public() overwritten by the caller before signing), 54 A x 54 R x 17 S x 3 messages plus valid signatures for low-order keys over the whole S alphabet (R = [S]B + torsion) plus all bit flips for Verify (an honest signature is verified right after every case; foreign-owner signatures over every key string verified twice), all triples/pairs of a 309/786-scalar limb-boundary alphabet for the scalar arithmetic (alphabet closed under inversion), alphabet scalars x 14 points for the point operations",
    "Byte equality with the standard library for key derivation and signatures, identical read sequence and results under every enumerated entropy script, identical Verify verdicts on torsion/non-canonical/boundary inputs, and agreement of the internal scalar/point arithmetic with math/big and an affine Edwards reference (through the verif hook).",
    "Arithmetic equivalence is reached only through the boundary alphabets (limb patterns, q*L+r bands): a wrong carry needing an operand outside them is invisible. This is the thinnest claim of the set.",
    "DESIGN.md 4 C14")
add("C15", 'xenum+seqx', 'exploration',
    'bounded exhaustive enumeration of seeds x blinds (incl. two found by search whose scalar / inverse scalar is below 2^240) x contexts (incl. lengths at SHA-512 block and padding boundaries in two variants) x messages, all ordered pairs of (blind, context), and every call-order sequence of length 2..3 over four contexts on ONE key object, blind and message buffer (arguments must stay unchanged, same context twice gives the same signature, plain Sign afterwards equals crypto/ed25519; then blind / context / key buffers changed in place with a failing call in between; six fixed inputs signed again in a second process), against a math/big Edwards reference and three independent verifiers',
    'Blinded key == compress(r*A) with r = SHA-512(blind||00||ctx)[:32] mod L; signatures deterministic and independent of what was signed before, valid under the blinded key for crypto/ed25519, this package and a math/big RFC 8032 verifier, invalid under A; unblind inverts blind; blinding commutes; different blind or context gives a different key.',
    "Seeds, blinds, contexts are fixed alphabets; blinds are passed as exact-capacity slices (aliasing is C16's subject).",
    'DESIGN.md 4 C15, 9.2b')

add("C06", 'xenum', 'exploration',
    "bounded exhaustive enumeration of (request, blind, client key) inputs to the real attester: every single-bit flip of each of the six inputs of 2/4 honest triples (also with the request object's encoding cached, also with the client already registered), every signature length 0..97, 9x9 boundary (r,s) pairs, foreign signatures / blinds / keys, malformed key encodings, blinds that are not scalars (2^384-1, 64 bytes, 49 bytes), fields of non-wire lengths, a foreign request key with contents signed by the client's blinded key, the unblinded client key with degenerate blinds, anonymous origin ids of other lengths, key and blind bytes cut at another place after acceptance, the next request written over the accepted one in the caller's buffers, ciphertexts of 65535/65536/65537 bytes; reference verdict from crypto/ecdsa and an independent key-blinding reference; cache watched for writes",
    'VerifyRequest returns nil exactly when the signature verifies under the request key over the hand-rebuilt message and the request key equals the client key multiplied by the reference blinding factor; every rejected request leaves the cache dump and Put count unchanged.',
    'Honest triples use boundary-scalar secrets and blinds; requests are handed over as structs as the API takes them.',
    'DESIGN.md 4 C06, 9.2b')
add("C12", "xenum", "exploration",
    "bounded exhaustive enumeration of curves x signing scalars x blind encodings x contexts x digest lengths and all pairs of blinds/contexts, against an RFC 9380 expand_message_xmd / hash_to_field reference and crypto/elliptic / crypto/ecdsa",
    "Blinded public key == factor*pk with the independently recomputed factor on all four curves; blinded signatures verify under the blinded key (this package and crypto/ecdsa) and not under the unblinded key; unblind inverts blind; two blinds commute; changing exactly the blind or exactly the context changes the key; encodings of the same blind scalar give the same key.",
    "Scalars, blinds (incl. zero, leading-zero, >= N and over-long encodings; one signature object is shown to all verifiers in turn; blinding key objects of another curve or without one), contexts and digests come from boundary alphabets; P-224 is pinned to (SHA-256, L=32) as in the code, no RFC suite fixes it.",
    "DESIGN.md 4 C12")
add("C13", "xenum+envx", "exploration",
    "bounded exhaustive differential enumeration against crypto/ecdsa: 18x18 boundary (r,s) pairs around honest signatures x digest variants, signatures constructed around nonce points with affine x in [N,P) or a tiny x (shortest DER) under the public key recovered from them, signatures made backwards for public keys with x = 0..5, key generation on boundary entropy blocks, ~1000-1700 DER mutations per honest ASN.1 signature, cross acceptance of every producer, and every entropy-fault script with <= 1/2 deviations for key generation and the signing entry points",
    "Verify/VerifyASN1 verdicts equal the standard library's on every case; every signature produced here verifies there and vice versa; an entropy reader error at any enumerated read position yields an error and no key/signature, and short reads without error yield the same result as the default script (both MaybeReadByte coin outcomes observed per script).",
    "Valid public keys only (an off-curve key panics inside crypto/elliptic by design); values outside the boundary sets are not covered.",
    "DESIGN.md 4 C13")

add("C05", 'xenum', 'exploration',
    "bounded exhaustive enumeration of batch compositions (every sequence of length 1..3/4 over a 9-letter request alphabet incl. a type-1 key whose truncated id collides with the type-2 key's, x 10 issuer configurations; a probe batch against every ordered arrangement of every subset of five issuers (326 configurations); issuer objects whose key is rotated between two batches; one client object building two batches; the same request twice in a batch; two type-2 issuers whose truncated key ids coincide (requests only the second can sign); response lists of exactly 63..65, 16383..16385 (65535..65537) bytes; plus large homogeneous batches crossing the 2^14 and 2^16 byte boundaries of the response list) through the real client, wire codecs, EvaluateBatch, response decoder and per-request finalization, against a per-request reference model",
    'The decoded response has exactly one entry per request in order; entry i is present exactly when a configured issuer of its type and truncated key id evaluates request i alone; every present entry finalizes under its own request state to a token that verifies independently; type-2 entries are byte-identical to the stand-alone evaluation, so failing neighbours change nothing.',
    "Two issuers of one type sharing a truncated key id: present iff one of them can sign, entry = stand-alone evaluation by the first that can, token judged only when that is the request's own key; the unknown-key-id letter uses the first byte of issuer A's id where that is free.",
    'DESIGN.md 4 C05, 9.2b')
add("C07", "xenum", "exploration",
    "bounded exhaustive enumeration of encoded requests to the real rate-limited issuer: every single-bit change, every truncation and 5 extensions of honest and of hand-crafted consistent requests, plus hand-crafted requests (go-hpke + crypto/ecdsa, independent of the client) for each rejecting class, incl. correctly framed and signed encrypted parts of 0..49 bytes, each also offered to an issuer that has just served an honest request (from the same caller buffer), plus accepted requests replayed under another request key or at another issuer, associated data of other shapes, and unregistered names whose index key was looked up first",
    "Honest and consistent requests are accepted and finalize to valid tokens; each of ~4160 single-bit variants, 520 truncations, extensions, unregistered/similar origins, encryption to another name key (with and without the victim's id), associated data bound to another request key, signatures by another key / over other contents / missing / short are answered with an error and nil outputs.",
    "Expected verdicts of crafted requests follow from their construction; origin-name neighbours are a small list here (C20 enumerates them).",
    "DESIGN.md 4 C07")

add("C02", 'xenum', 'exploration',
    'bounded exhaustive enumeration of responses handed to the real client finalization of all four token types: every single-bit flip, truncation and 3 extensions of honest responses, the full (issuer key) x (state of request i) x (response for request j) matrices, caller-supplied salts of six boundary lengths for type 2, the honest response after a refused one on the same state, an issuer key of 3072 bits, one more request of the same client object while the judged ones are outstanding, a second finalization on the same state after the caller scrubbed the tokens of the first and wrote the next response over the first in the same buffer (honest and corrupted responses), and for type 5 every sequence of element indices up to length n+1 both spliced into the honest response and evaluated afresh by the real key',
    "Finalization returns an error, or every returned token verifies under the pinned key with an independent verifier and carries the request's nonce, challenge digest and key id (the caller's argument buffers are overwritten after request creation); additionally the classes the statement lists (single-bit corruption, other issuer key, other request, dropped/duplicated/reordered elements) must be rejected outright.",
    'Requests, keys, nonces are fixed alphabets (2/4 requests x 2/3 keys per type); truncations and extensions are judged semantically only.',
    'DESIGN.md 4 C02, 9.2')

add("C16", 'xenum+seqx', 'model_checking',
    'exhaustive enumeration of argument placements (every byte-slice argument of 51 exported operations x spare capacity {0,1,16,64,512} x fill {00,AA,FF} in guarded buffers; every truncation of every peer message with its genuine tail lying behind it in the same buffer); the request, nonce and blind lists of the caller after later calls and the response of an earlier EvaluateBatch across later batches; every ecdsa operation taking *big.Int values or key objects (incl. blinding keys above the group order) on four curves with all reachable big integers compared before/after and the call repeated on the same objects; plus explicit-state enumeration of call histories (depth 3/4 over 10 operations) on one request state / issuer per token type with every hand-out captured and re-compared after every step',
    'No operation changes its argument, the spare capacity behind it or the guard bytes, and its result is independent of capacity, fill and of what lies behind a truncated message; request fields, encodings, issuer responses and tokens handed out earlier keep their bytes across finalize (valid and invalid), evaluate, verify, marshal and re-use of the request object as a decoder; overwriting returned tokens does not disturb later calls.',
    'Operations are exercised with honest argument values; memory reachable only through unexported fields is observed indirectly (through later results).',
    'DESIGN.md 4 C16, 9.2b')

add("C17", 'vsched', 'model_checking',
    'stateless schedule exploration with a pre-emption bound (quick: bound 1, coarse granularity; thorough: fine granularity bound 1, then coarse granularity bound 2) of 37 scenarios (2-3 goroutines, one call each - in one scenario one, four and four calls - on one shared issuer, attester or key: freshly constructed, with a sequential history of rejected and served requests, built over a key object its owner has already used or assembled from raw numbers; one blinding key shared by all calls) over pat-go sources instrumented with scheduling points, every execution in a harness process of its own, under a cooperative scheduler that is invisible to the Go race detector, so that every explored schedule is also checked for data races by happens-before analysis',
    "For each of >10^4 distinct schedules per run: no race report on any memory (pat-go, circl, math/big, standard library), every call's result is one a sequential call could have produced (responses finalize to valid tokens, key ids / blinded keys / signatures equal the sequential ones, forged tokens rejected), no deadlock, no panic. Finds data races (lazy initialisation, in-place normalisation, memoisation, shared scratch buffers, counters, self-reordering lists) and race-free atomicity bugs (correctly locked check-then-act, CAS flag instead of sync.Once).",
    "Dependencies are atomic steps of a schedule (their races are still detected); coarse granularity = statements in tokens/ and in every function that mentions a package-level variable, function entries elsewhere; the race detector's bounded shadow history means a given race is reported in some schedules only; a scenario whose default schedule gives two different traces is explored without a coverage claim.",
    'DESIGN.md 3.4, 4 C17, 9.2')

NOT_APPLICABLE = {}

ALL = ["C%02d" % i for i in range(1, 21)]

def main():
    checks = []
    for pid in ALL:
        if pid not in CHECKS:
            continue
        c = CHECKS[pid]
        checks.append({
            "property_id": pid,
            "quick_cmd": "./check %s quick" % pid,
            "thorough_cmd": "./check %s thorough" % pid,
            "evidence_file": "/verif/evidence/%s.json" % pid,
            "replay_cmd_template": "./check %s --replay {path}" % pid,
            "engine": c["engine"],
            "level_claimed": {"category": c["category"], "text": c["text"], "design_ref": c["ref"]},
            "level_note": c["note"],
            "technique": c["technique"],
        })
    na = []
    for pid in ALL:
        if pid not in CHECKS:
            na.append({"property_id": pid, "reason": NOT_APPLICABLE.get(pid, "check not built yet in this round (planned, see DESIGN.md section 4)")})
    m = {
        "version": 1,
        "setup_cmd": "./setup.sh",
        "hooks": {
            "guard": "verif",
            "enable": "go build -tags verif (the ./check driver always passes it); hook files start with //go:build verif",
            "baseline_off_cmd": BASELINE_OFF,
            "source_commits": json.load(open(os.path.join(ROOT, "tools", "hook_commits.json"))) if os.path.exists(os.path.join(ROOT, "tools", "hook_commits.json")) else [],
            "add_only": True,
        },
        "engines": [
            {"name": "xenum", "path": "mc/", "serves_properties": [p for p in ALL if p in CHECKS and "xenum" in CHECKS[p]["engine"]],
             "kind_free_text": "bounded exhaustive enumeration of input shapes over fixed alphabets, executed on the real code against reference models"},
            {"name": "seqx", "path": "mc/", "serves_properties": [p for p in ALL if p in CHECKS and "seqx" in CHECKS[p]["engine"]],
             "kind_free_text": "explicit-state search over operation sequences on live objects (BFS with canonical state hashing, or depth-bounded replay)"},
            {"name": "envx", "path": "mc/", "serves_properties": [p for p in ALL if p in CHECKS and "envx" in CHECKS[p]["engine"]],
             "kind_free_text": "environment-answer enumeration (entropy reader faults) with iterative deviation bounding"},
            {"name": "vsched", "path": "vsched/", "serves_properties": [p for p in ALL if p in CHECKS and "vsched" in CHECKS[p]["engine"]],
             "kind_free_text": "stateless preemption-bounded schedule exploration of instrumented pat-go sources under the Go race detector"},
        ],
        "checks": checks,
        "not_applicable": na,
        "notes": "All checks rebuild from /repo's working tree via ./check (go build -tags verif). See DESIGN.md.",
    }
    json.dump(m, open(os.path.join(ROOT, "MANIFEST.json"), "w"), indent=1)
    print("wrote MANIFEST.json with", len(checks), "checks,", len(na), "not_applicable")

if __name__ == "__main__":
    main()
