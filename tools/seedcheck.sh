#!/bin/bash
# tools/seedcheck.sh <dir with patch.diff and demo_test.go> <Cxx> [quick|thorough] [more check ids...]
# Confirms a seeded regression the way DESIGN.md requires, without touching /repo:
#   1. the patch applies to a scratch copy of /repo and the patched tree builds,
#   2. the repository's own test suite still passes on the patched tree,
#   3. the demonstration test FAILS with the patch and PASSES without it,
#   4. runs the given checks against the patched tree (through a go build overlay).
# Prints SEED-RESULT lines; the scratch copy is removed.
set -u
dir="$(readlink -f "$1")"; id="$2"; tier="${3:-quick}"; shift; shift; shift || true
extra=("$@")
cd "$(dirname "$0")/.."
export GOFLAGS=-mod=mod GOPROXY=off GOSUMDB=off GOTOOLCHAIN=local
tmp=$(mktemp -d /tmp/patgo-seed.XXXXXX)
trap 'rm -rf "$tmp"' EXIT
mkdir -p "$tmp/tree" "$tmp/out" "$tmp/demo"
(cd /repo && git ls-files -z --cached | xargs -0 -I{} cp --parents {} "$tmp/tree/")
if ! (cd "$tmp/tree" && patch -p1 -s < "$dir/patch.diff"); then echo "SEED-RESULT patch=does-not-apply"; exit 3; fi
mkoverlay() { # $1 = tree dir, $2 = output json, $3 = optional extra "orig=repl"
python3 - "$1" "$2" "${3:-}" <<'PY'
import os, sys, json, filecmp
tree, out, extra = sys.argv[1], sys.argv[2], sys.argv[3]
rep = {}
for d, _, fs in os.walk(tree):
    for f in fs:
        if f.endswith('.orig') or f.endswith('.rej'): continue
        p = os.path.join(d, f); rel = os.path.relpath(p, tree); orig = os.path.join('/repo', rel)
        if not os.path.exists(orig) or not filecmp.cmp(p, orig, shallow=False):
            rep[orig] = p
if extra:
    o, r = extra.split('=', 1); rep[o] = r
json.dump({"Replace": rep}, open(out, 'w'))
PY
}
mkoverlay "$tmp/tree" "$tmp/overlay.json"
if (cd /repo && go build -overlay "$tmp/overlay.json" ./... >"$tmp/build.log" 2>&1 && go build -tags verif -overlay "$tmp/overlay.json" ./... >>"$tmp/build.log" 2>&1); then echo "SEED-RESULT build=ok"; else echo "SEED-RESULT build=FAIL"; head -5 "$tmp/build.log"; exit 3; fi
if (cd /repo && go test -overlay "$tmp/overlay.json" -vet=off -count=1 ./... > "$tmp/base.log" 2>&1); then
  echo "SEED-RESULT baseline=pass"
else
  echo "SEED-RESULT baseline=FAIL (the repository's own tests notice this change)"; grep -E "^(--- FAIL|FAIL)" "$tmp/base.log" | head -10
fi
# demonstration
if [ -f "$dir/demo_test.go" ]; then
  place=$(head -5 "$dir/demo_test.go" | sed -n 's#^// *place in: *\(.*\)$#\1#p' | head -1 | tr -d ' \r')
  place="${place%/}"; [ "$place" = "." ] && place=""
  cp "$dir/demo_test.go" "$tmp/demo/zz_seed_demo_test.go"
  pkgdir="/repo${place:+/$place}"
  mkoverlay "$tmp/tree" "$tmp/ov_with.json" "$pkgdir/zz_seed_demo_test.go=$tmp/demo/zz_seed_demo_test.go"
  echo "{\"Replace\": {\"$pkgdir/zz_seed_demo_test.go\": \"$tmp/demo/zz_seed_demo_test.go\"}}" > "$tmp/ov_without.json"
  race=""; grep -q "go test -race\|needs -race\|requires -race\|with -race" "$dir/demo_test.go" "$dir/notes.md" 2>/dev/null && race="-race"
  names=$(grep -o '^func Test[A-Za-z0-9_]*' "$dir/demo_test.go" | sed 's/func //' | paste -sd'|')
  (cd "$pkgdir" && go test $race -overlay "$tmp/ov_with.json" -vet=off -count=1 -run "^($names)\$" . > "$tmp/demo_with.log" 2>&1); rcw=$?
  (cd "$pkgdir" && go test $race -overlay "$tmp/ov_without.json" -vet=off -count=1 -run "^($names)\$" . > "$tmp/demo_without.log" 2>&1); rco=$?
  echo "SEED-RESULT demo(place=$place race=${race:-no} tests=$names) with-change=$([ $rcw -ne 0 ] && echo FAIL || echo pass) without-change=$([ $rco -eq 0 ] && echo PASS || echo fail)"
  [ $rcw -eq 0 ] && tail -3 "$tmp/demo_with.log"
  [ $rco -ne 0 ] && tail -8 "$tmp/demo_without.log"
else
  echo "SEED-RESULT demo=missing"
fi
for c in "$id" "${extra[@]}"; do
  VERIF_OVERLAY="$tmp/overlay.json" VERIF_OUT="$tmp/out" ./check "$c" "$tier" > "$tmp/check.log" 2>&1; rc=$?
  grep -E "^(violation:|KNOWN-FINDING|C[0-9]+ (quick|thorough):|BUILD-FAILED)" "$tmp/check.log" | cut -c1-300 | head -8
  echo "SEED-RESULT check=$c tier=$tier exit=$rc $([ $rc -eq 1 ] && echo DETECTED || echo NOT-DETECTED)"
done
exit 0
