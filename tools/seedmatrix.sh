#!/bin/bash
# tools/seedmatrix.sh [seed-id ...]  — runs every seeded change against a set of checks and
# writes seeded/<id>/detection.txt (SEED-RESULT lines). Never touches /repo.
cd "$(dirname "$0")/.."
cheap="${SEEDMATRIX_CHECKS:-C01 C02 C04 C05 C06 C07 C08 C09 C10 C11 C12 C13 C14 C15 C18 C19 C20 C16}"
seeds=("$@"); [ ${#seeds[@]} -eq 0 ] && seeds=($(ls seeded))
for sd in "${seeds[@]}"; do
  own="${sd%%-*}"
  extra=""
  case "$sd" in C10-B|C11-B|C17-*|C07-A|C14-D|C15-D|C05-F|C06-E) extra="$extra C17";; esac
  case "$own" in C01|C03|C04|C13|C07) extra="$extra C03";; esac
  list=""
  for c in $own $cheap $extra; do case " $list " in *" $c "*) ;; *) list="$list $c";; esac; done
  set -- $list
  first=$1; shift
  tools/seedcheck.sh seeded/$sd $first quick "$@" 2>&1 | grep -E "SEED-RESULT|^violation" | cut -c1-300 > seeded/$sd/detection.txt
  echo "$sd: $(grep -c ' DETECTED' seeded/$sd/detection.txt) checks detect: $(grep ' DETECTED' seeded/$sd/detection.txt | sed 's/.*check=\(C[0-9]*\).*/\1/' | tr '\n' ' ')"
done
