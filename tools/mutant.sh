#!/bin/bash
# tools/mutant.sh <patch.diff> <Cxx> [quick|thorough] [--no-baseline]
# Applies a patch to a scratch copy of /repo (never to /repo itself), runs the
# repository's own tests on the patched tree, then runs the check against it through
# a go build overlay. Prints MUTANT-RESULT lines. The scratch copy is removed.
set -u
patch="$(readlink -f "$1")"; id="$2"; tier="${3:-quick}"; nob="${4:-}"
cd "$(dirname "$0")/.."
export GOFLAGS=-mod=mod GOPROXY=off GOSUMDB=off GOTOOLCHAIN=local
tmp=$(mktemp -d /tmp/patgo-mut.XXXXXX)
trap 'rm -rf "$tmp"' EXIT
mkdir -p "$tmp/tree" "$tmp/out"
(cd /repo && git ls-files -z --cached --others --exclude-standard | xargs -0 -I{} cp --parents {} "$tmp/tree/")
if ! (cd "$tmp/tree" && patch -p1 -s < "$patch"); then echo "MUTANT-RESULT patch-does-not-apply"; exit 3; fi
python3 - "$tmp" <<'PY'
import os, sys, json, filecmp
tmp = sys.argv[1]; tree = os.path.join(tmp, 'tree'); rep = {}
for d, _, fs in os.walk(tree):
    for f in fs:
        if f.endswith('.orig') or f.endswith('.rej'): continue
        p = os.path.join(d, f); rel = os.path.relpath(p, tree); orig = os.path.join('/repo', rel)
        if not os.path.exists(orig) or not filecmp.cmp(p, orig, shallow=False):
            rep[orig] = p
json.dump({"Replace": rep}, open(os.path.join(tmp, 'overlay.json'), 'w'))
print("overlay:", sorted(rep))
PY
if [ "$nob" != "--no-baseline" ]; then
  if (cd /repo && go test -overlay "$tmp/overlay.json" -vet=off -count=1 ./... > "$tmp/base.log" 2>&1); then
    echo "MUTANT-RESULT baseline=pass"
  else
    echo "MUTANT-RESULT baseline=FAIL (the repository's own tests notice this change)"; grep -E "^(--- FAIL|FAIL|ok)" "$tmp/base.log" | head -20
  fi
fi
VERIF_OVERLAY="$tmp/overlay.json" VERIF_OUT="$tmp/out" ./check "$id" "$tier" > "$tmp/check.log" 2>&1; rc=$?
grep -E "^(violation:|VIOLATION|KNOWN-FINDING|C[0-9]+ (quick|thorough):|BUILD-FAILED)" "$tmp/check.log" | cut -c1-400 | head -20
echo "MUTANT-RESULT check=$id tier=$tier exit=$rc $([ $rc -eq 1 ] && echo DETECTED || echo NOT-DETECTED)"
exit 0
