#!/bin/bash
# Warm the build cache with the race-instrumented dependencies of the C17 harness.
cd "$(dirname "$0")/.."
export GOFLAGS=-mod=mod GOPROXY=off GOSUMDB=off GOTOOLCHAIN=local
go build -race -tags verif -o /dev/null ./checks/c17/harness
