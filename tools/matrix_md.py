#!/usr/bin/env python3
"""Prints the detection matrix of /verif/seeded as markdown.

Sources per seeded change: final.txt (last regression run: own check + every check that had
reported the change before), detection.txt (matrix run against many checks; may predate later
strengthening) and meta.json (status of the own check at the first run after the change arrived).
A check counts as reporting the change if it did so in final.txt, or in detection.txt and was not
re-run in final.txt."""
import os, re, json
root = os.path.join(os.path.dirname(os.path.dirname(os.path.abspath(__file__))), 'seeded')
rows = []
pat = re.compile(r'SEED-RESULT check=(C\d+) tier=\w+ exit=(\d+)')
for sd in sorted(os.listdir(root)):
    d = os.path.join(root, sd)
    res = {}
    txts = []
    for fn in ('detection.txt', 'final.txt'):
        p = os.path.join(d, fn)
        if os.path.exists(p):
            t = open(p, errors='replace').read()
            txts.append(t)
            for c, rc in pat.findall(t):
                res[c] = rc  # final.txt overrides
    if not res:
        continue
    alltxt = '\n'.join(txts)
    caught = sorted(c for c, rc in res.items() if rc == '1')
    own = sd.split('-')[0]
    base = 'pass' if 'baseline=pass' in alltxt else 'FAIL'
    demo = 'fails/passes' if 'with-change=FAIL without-change=PASS' in alltxt else ('not runnable here' if sd == 'C19-E' else '?')
    first, rnd = '', ''
    mp = os.path.join(d, 'meta.json')
    if os.path.exists(mp):
        m = json.load(open(mp))
        first, rnd = m.get('status_at_first_run', ''), str(m.get('round', 1))
    notes = open(os.path.join(d, 'notes.md'), errors='replace').read().strip().split('\n')
    title = next((l.strip('# ').strip() for l in notes if l.strip()), '')
    title = re.sub(r'^(C\d\d[ /-]*)?(change )?[AB][ :—–-]*', '', title, flags=re.I)[:105].replace('|', '/')
    rows.append((sd, rnd, title, base, demo, first, 'yes' if own in caught else 'no', ' '.join(caught) or '-', len(res)))
print('| change | round | what it is | repo tests | demo with / without the change | own check at first run | own check now | checks that report it (of those run) |')
print('|---|---|---|---|---|---|---|---|')
for r in rows:
    print('| %s | %s | %s | %s | %s | %s | %s | %s (%d) |' % r)
missed = [r[0] for r in rows if r[7] == '-']
print()
print('%d seeded changes, %d reported by at least one check, %d by the check of their own property; unreported: %s' % (
    len(rows), len(rows) - len(missed), sum(1 for r in rows if r[6] == 'yes'), ', '.join(missed) or 'none'))
