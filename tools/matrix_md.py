#!/usr/bin/env python3
"""Prints the detection matrix of /verif/seeded as markdown (from seeded/*/detection.txt and meta.json)."""
import os, re, json
root = os.path.join(os.path.dirname(os.path.dirname(os.path.abspath(__file__))), 'seeded')
rows = []
for sd in sorted(os.listdir(root)):
    d = os.path.join(root, sd)
    det = os.path.join(d, 'detection.txt')
    if not os.path.exists(det):
        continue
    txt = open(det).read()
    checks = re.findall(r'SEED-RESULT check=(C\d+) tier=\w+ exit=(\d+)', txt)
    caught = [c for c, rc in checks if rc == '1']
    base = 'pass' if 'baseline=pass' in txt else 'FAIL'
    demo = 'fail/pass' if 'with-change=FAIL without-change=PASS' in txt else '?'
    first = ''
    mp = os.path.join(d, 'meta.json')
    if os.path.exists(mp):
        first = json.load(open(mp)).get('status_at_first_run', '')
    notes = open(os.path.join(d, 'notes.md')).read().strip().split('\n')
    title = next((l.strip('# ').strip() for l in notes if l.strip()), '')[:110]
    rows.append((sd, title, base, demo, first, ' '.join(caught) or '-', len(checks)))
print('| seeded change | what it is | repo tests | demo with/without | own check at first run | checks that report it now (of those run) |')
print('|---|---|---|---|---|---|')
for r in rows:
    print('| %s | %s | %s | %s | %s | %s (%d run) |' % r)
