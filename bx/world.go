package bx

import (
	stdecdsa "crypto/ecdsa"
	"crypto/elliptic"
	"crypto/sha256"
	"crypto/sha512"
	"fmt"
	"math/big"

	hpke "github.com/cisco/go-hpke"

	"github.com/cloudflare/pat-go/ecdsa"
	"github.com/cloudflare/pat-go/ed25519"
	"github.com/cloudflare/pat-go/tokens"
	"github.com/cloudflare/pat-go/tokens/batched"
	"github.com/cloudflare/pat-go/tokens/type1"
	"github.com/cloudflare/pat-go/tokens/type2"
	"github.com/cloudflare/pat-go/tokens/type3"
	"github.com/cloudflare/pat-go/tokens/type5"

	"verif/mc"
	"verif/px"
)

// basicIssuer adapts the typed issuers to the generic batch issuer interface,
// exactly as the repository's own tests do.
type Issuer1 struct{ I *type1.BasicPrivateIssuer }

func (w Issuer1) Evaluate(req tokens.TokenRequest) ([]byte, error) {
	r, ok := req.(*type1.BasicPrivateTokenRequest)
	if !ok {
		return nil, fmt.Errorf("wrong request type")
	}
	return w.I.Evaluate(r)
}
func (w Issuer1) TokenKeyID() []byte { return w.I.TokenKeyID() }
func (w Issuer1) Type() uint16       { return w.I.Type() }

type Issuer2 struct{ I *type2.BasicPublicIssuer }

func (w Issuer2) Evaluate(req tokens.TokenRequest) ([]byte, error) {
	r, ok := req.(*type2.BasicPublicTokenRequest)
	if !ok {
		return nil, fmt.Errorf("wrong request type")
	}
	return w.I.Evaluate(r)
}
func (w Issuer2) TokenKeyID() []byte { return w.I.TokenKeyID() }
func (w Issuer2) Type() uint16       { return w.I.Type() }

type World struct {
	W1  *px.W1
	W2  *px.W2
	W3  *px.W3
	W5  *px.W5
	Att *type3.RateLimitedAttester

	St1 type1.BasicPrivateTokenRequestState
	St2 type2.BasicPublicTokenRequestState
	St3 type3.RateLimitedTokenRequestState
	St5 type5.BatchedPrivateTokenRequestState

	O1, O2, O3, O5 *px.Out
	A3             px.T3Args
	Req3           type3.RateLimitedTokenRequest
	BatchReq       []byte
	BatchResp      []byte
	BIssuer        *batched.BasicBatchedIssuer
	Challenge      []byte
	SPKI           []byte
	EcKey          *ecdsa.PrivateKey
	EcSig          []byte
	EcDigest       []byte
	EdPub          ed25519.PublicKey
	EdSig          []byte
	EdMsg          []byte
	Inner          []byte
}

func must(err error) {
	if err != nil {
		panic(err)
	}
}

func BuildWorld(seedv int64) *World {
	mc.Entropy("c03-World")
	w := &World{}
	chal := tokens.TokenChallenge{TokenType: 2, IssuerName: "issuer.example", RedemptionNonce: mc.Fill(seedv, "rn", 32), OriginInfo: []string{"a.example", "b.example"}}
	w.Challenge = chal.Marshal()
	nonce := mc.Fill(seedv, "nonce", 32)

	w.W1 = px.NewW1(0)
	w.W2 = px.NewW2(0)
	w.W5 = px.NewW5(0)
	w.W3 = px.NewW3(1)
	must(w.W3.Issuer.AddOrigin("origin.example"))
	w.Att = type3.NewRateLimitedAttester(px.NewMemCache())

	var se *px.StageErr
	if w.O1, se = w.W1.Flow(w.Challenge, nonce, nil); se != nil {
		panic(se)
	}
	if w.O2, se = w.W2.Flow(w.Challenge, nonce, nil, nil); se != nil {
		panic(se)
	}
	nonces := [][]byte{nonce, mc.Fill(seedv, "nonce2", 32), mc.Fill(seedv, "nonce3", 32)}
	if w.O5, se = w.W5.Flow(w.Challenge, nonces, nil); se != nil {
		panic(se)
	}
	w.A3 = px.T3Args{Secret: mc.Fill(seedv, "secret", 48), Blind: mc.Fill(seedv, "blind", 48), Challenge: w.Challenge, Nonce: nonce, Origin: "origin.example", AnonOrigin: mc.Fill(seedv, "anon", 32)}
	if w.O3, se = w.W3.Flow(w.Att, w.A3); se != nil {
		panic(se)
	}
	if !w.Req3.Unmarshal(w.O3.Request) {
		panic("type3 request does not decode")
	}
	// live request states for the finalize targets
	var err error
	w.St1, err = w.W1.Create(w.Challenge, nonce, nil)
	must(err)
	w.St2, err = w.W2.Create(w.Challenge, nonce, nil, nil)
	must(err)
	w.St5, err = w.W5.Create(w.Challenge, nonces, nil)
	must(err)
	w.St3, err = w.W3.Create(w.A3)
	must(err)

	// generic batch: one type-1 and one type-2 request
	bc := batched.NewBasicClient()
	br, err := bc.CreateTokenRequest([]tokens.TokenRequestWithDetails{w.St1.Request(), w.St2.Request()})
	must(err)
	w.BatchReq = append([]byte{}, br.Marshal()...)
	w.BIssuer = batched.NewBasicBatchedIssuer(Issuer1{I: w.W1.Issuer}, Issuer2{I: w.W2.Issuer})
	resp, err := w.BIssuer.EvaluateBatch(br)
	must(err)
	w.BatchResp = resp

	w.SPKI = w.W2.PubBytes

	w.EcKey, err = ecdsa.CreateKey(elliptic.P384(), mc.Fill(seedv, "eckey", 48))
	must(err)
	d := sha512.Sum384([]byte("c03 message"))
	w.EcDigest = d[:]
	w.EcSig, err = ecdsa.SignASN1(mc.NewStream(seedv, "ecsign"), w.EcKey, w.EcDigest)
	must(err)

	edPriv := ed25519.NewKeyFromSeed(mc.Fill(seedv, "edseed", 32))
	w.EdPub = edPriv.Public().(ed25519.PublicKey)
	w.EdMsg = []byte("c03 ed25519 message")
	w.EdSig = ed25519.Sign(edPriv, w.EdMsg)

	in := type3.VerifNewInner(w.W3.KeyID[0], mc.Fill(seedv, "innermsg", 256), type3.VerifPad("origin.example"))
	w.Inner = append([]byte{}, in.Marshal()...)
	return w
}

// CraftT3 assembles a type-3 request for issuer w with go-hpke and crypto/ecdsa directly:
// the inner plaintext is whatever the caller passes (possibly malformed), correctly encrypted
// to the issuer's name key with the right associated data and correctly signed.
func CraftT3(seedv int64, w *px.W3, label string, innerPlain []byte) []byte {
	nk, err := w.ClientNameKey()
	if err != nil {
		panic(err)
	}
	id, suite, pk := nk.VerifParts()
	c := elliptic.P384()
	d := new(big.Int).SetBytes(mc.Fill(seedv, "craft-key-"+label, 56))
	d.Mod(d, new(big.Int).Sub(c.Params().N, big.NewInt(1)))
	d.Add(d, big.NewInt(1))
	x, y := c.ScalarBaseMult(d.Bytes())
	rk := elliptic.MarshalCompressed(c, x, y)
	enc, ctx, err := hpke.SetupBaseS(suite, mc.NewStream(seedv, "craft-hpke-"+label), pk, []byte("TokenRequest"))
	if err != nil {
		panic(err)
	}
	kid := sha256.Sum256(nk.Marshal())
	aad := []byte{id, byte(suite.KEM.ID() >> 8), byte(suite.KEM.ID()), byte(suite.KDF.ID() >> 8), byte(suite.KDF.ID()), byte(suite.AEAD.ID() >> 8), byte(suite.AEAD.ID()), 0x00, 0x03}
	aad = append(aad, rk...)
	aad = append(aad, kid[:]...)
	encrypted := append(append([]byte{}, enc...), ctx.Seal(aad, innerPlain)...)
	msg := append([]byte{0x00, 0x03}, rk...)
	msg = append(msg, kid[:]...)
	msg = append(msg, byte(len(encrypted)>>8), byte(len(encrypted)))
	msg = append(msg, encrypted...)
	dg := sha512.Sum384(msg)
	r, s, err := stdecdsa.Sign(mc.NewStream(seedv, "craft-sign-"+label), &stdecdsa.PrivateKey{PublicKey: stdecdsa.PublicKey{Curve: c, X: x, Y: y}, D: d}, dg[:])
	if err != nil {
		panic(err)
	}
	sig := make([]byte, 96)
	r.FillBytes(sig[:48])
	s.FillBytes(sig[48:])
	return append(msg, sig...)
}

func VarintWidth(b []byte) int { return 1 << (b[0] >> 6) }
