// Package bx holds the byte-string generators and the world of valid messages
// shared by the decoder-facing checks (C03, C04, C16).
package bx

import "bytes"

// Field is a length / count / tag field inside a seed message.
type Field struct {
	Off, Width int
}

// Seed is a valid message of some decoder together with its interesting fields.
type Seed struct {
	Name   string
	Msg    []byte
	Fields []Field
	Plain  bool // emit the message itself only (boundary-value seeds), no derived mutations
	Delims []byte // separator characters of a textual part: added to the substitution alphabet, singly and doubled
}

var Sigma = []byte{0x00, 0x01, 0x02, 0x03, 0x05, 0x3f, 0x40, 0x7f, 0x80, 0xbf, 0xc0, 0xff}

var Boundary = []uint64{0, 1, 2, 3, 31, 32, 33, 48, 49, 63, 64, 65, 96, 255, 256, 257, 16383, 16384, 65535, 65536,
	1<<30 - 1, 1 << 30, 1 << 31, 1<<32 - 1, 1 << 32, 1 << 33, 1 << 36, 1 << 40, 1 << 47, 1 << 61, 1<<62 - 1}

func EncVar(v uint64, class int) []byte {
	out := make([]byte, class)
	x := v
	for i := class - 1; i >= 0; i-- {
		out[i] = byte(x)
		x >>= 8
	}
	out[0] = out[0]&0x3f | map[int]byte{1: 0x00, 2: 0x40, 4: 0x80, 8: 0xc0}[class]
	return out
}

// numericForms returns the encodings tried for value v in a length field.
func NumericForms(v uint64) [][]byte {
	var out [][]byte
	if v < 1<<8 {
		out = append(out, []byte{byte(v)})
	}
	if v < 1<<16 {
		out = append(out, []byte{byte(v >> 8), byte(v)})
	}
	for _, c := range []int{1, 2, 4, 8} {
		lim := map[int]uint64{1: 1 << 6, 2: 1 << 14, 4: 1 << 30, 8: 1 << 62}[c]
		if v < lim {
			out = append(out, EncVar(v, c))
		}
	}
	return out
}

func fieldValue(msg []byte, f Field) uint64 {
	var v uint64
	for i := 0; i < f.Width && f.Off+i < len(msg); i++ {
		v = v<<8 | uint64(msg[f.Off+i])
	}
	if f.Width == 2 || f.Width == 4 || f.Width == 8 {
		// may be a varint: also strip the class bits for the "true value" neighbours
	}
	return v
}

// Gen enumerates, in a fixed order, the inputs derived from a set of valid
// messages: all strings over Sigma up to length L; per seed every truncation, six
// extensions, every field value x encoding (with and without tail), every byte
// substitution (first 600 bytes) and, if bitflips is set, every single-bit flip.
func Gen(seeds []Seed, L int, bitflips, thorough bool, emit func(g string, in []byte)) {
	// all strings over sigma up to length L
	var rec func(prefix []byte)
	rec = func(prefix []byte) {
		emit("strings", prefix)
		if len(prefix) == L {
			return
		}
		for _, c := range Sigma {
			rec(append(append(make([]byte, 0, len(prefix)+1), prefix...), c))
		}
	}
	rec(nil)
	for _, s := range seeds {
		m := s.Msg
		if s.Plain {
			emit("boundary", append([]byte{}, m...))
			continue
		}
		emit("valid", append([]byte{}, m...))
		for i := 0; i < len(m); i++ {
			emit("prefix", append([]byte{}, m[:i]...))
		}
		for _, ext := range []int{1, 2, 32} {
			emit("extension", append(append([]byte{}, m...), bytes.Repeat([]byte{0x41}, ext)...))
			emit("extension", append(append([]byte{}, m...), make([]byte, ext)...))
		}
		for _, f := range s.Fields {
			if f.Off+f.Width > len(m) {
				continue
			}
			tv := fieldValue(m, f)
			vals := append([]uint64{}, Boundary...)
			for _, d := range []uint64{tv - 1, tv, tv + 1, tv & 0x3fff, tv&0x3fff - 1, tv&0x3fff + 1, tv & 0x3f, uint64(len(m)), uint64(len(m) - f.Off - f.Width), uint64(len(m)-f.Off-f.Width) + 1} {
				vals = append(vals, d)
			}
			seen := map[string]bool{}
			for _, v := range vals {
				for _, form := range NumericForms(v) {
					k := string(form)
					if seen[k] {
						continue
					}
					seen[k] = true
					out := append(append(append([]byte{}, m[:f.Off]...), form...), m[f.Off+f.Width:]...)
					emit("field", out)
					// same field value with the rest of the message cut right after the field
					emit("field-cut", append(append([]byte{}, m[:f.Off]...), form...))
				}
			}
		}
		// a length-prefixed part resized CONSISTENTLY: the prefix says n and exactly n bytes of the
		// part follow (cut, or padded with zero bytes), then the rest of the message: the message still
		// parses as a whole and the short / long part reaches the code behind the parser
		for _, f := range s.Fields {
			if f.Off+f.Width > len(m) {
				continue
			}
			tv := fieldValue(m, f)
			if f.Width > 2 {
				continue
			}
			start := f.Off + f.Width
			if tv == 0 || uint64(start)+tv > uint64(len(m)) {
				continue
			}
			content, rest := m[start:start+int(tv)], m[start+int(tv):]
			for _, n := range []uint64{0, 1, 2, 15, 16, 17, 31, 32, 33, 47, 48, 49, 63, 64, 65, tv - 1, tv + 1, tv + 16} {
				if n == tv || (f.Width == 1 && n > 255) || n > 65535 {
					continue
				}
				part := make([]byte, n)
				copy(part, content)
				pre := []byte{byte(n)}
				if f.Width == 2 {
					pre = []byte{byte(n >> 8), byte(n)}
				}
				out := append(append(append(append([]byte{}, m[:f.Off]...), pre...), part...), rest...)
				emit("resized-part", out)
			}
		}
		npos := len(m)
		if npos > 600 {
			npos = 600
		}
		for i := 0; i < npos; i++ {
			for _, c := range Sigma {
				if m[i] == c {
					continue
				}
				out := append([]byte{}, m...)
				out[i] = c
				emit("bytesubst", out)
			}
		}
		for _, d := range s.Delims {
			for i := 0; i < npos; i++ {
				if m[i] != d {
					out := append([]byte{}, m...)
					out[i] = d
					emit("delimiter", out)
				}
				if i+1 < npos && !(m[i] == d && m[i+1] == d) {
					out := append([]byte{}, m...)
					out[i], out[i+1] = d, d
					emit("delimiter", out)
				}
			}
		}
		if bitflips {
			nb := len(m)
			if !thorough && nb > 300 {
				nb = 300
			}
			if nb > 1200 {
				nb = 1200
			}
			for i := 0; i < nb*8; i++ {
				out := append([]byte{}, m...)
				out[i/8] ^= 1 << (i % 8)
				emit("bitflip", out)
			}
		}
	}
}
