// Package px holds the fixed value alphabets (keys, challenges, nonces) and the
// independent reference verifiers shared by the protocol-level checks.
package px

import (
	"bytes"
	"crypto"
	"crypto/rsa"
	"crypto/sha256"
	"crypto/sha512"
	"crypto/x509"
	"embed"
	"encoding/binary"
	"encoding/pem"
	"errors"
	"fmt"
	"math/big"
	"sync"

	"github.com/cloudflare/circl/group"
	"github.com/cloudflare/circl/oprf"
)

//go:embed testdata/*.pem
var keyFS embed.FS

var (
	rsaOnce sync.Once
	rsaKeys []*rsa.PrivateKey
)

// RSAKeys returns the four fixed 2048-bit keys (R1 is the repository's test key).
// Each call returns the same pointers; callers must not mutate them.
func RSAKeys() []*rsa.PrivateKey {
	rsaOnce.Do(func() {
		for i := 1; i <= 4; i++ {
			b, err := keyFS.ReadFile(fmt.Sprintf("testdata/rsa%d.pem", i))
			if err != nil {
				panic(err)
			}
			blk, _ := pem.Decode(b)
			k, err := x509.ParsePKCS1PrivateKey(blk.Bytes)
			if err != nil {
				panic(err)
			}
			k.Precompute()
			rsaKeys = append(rsaKeys, k)
		}
	})
	return rsaKeys
}

var (
	collOnce sync.Once
	collKeys []*rsa.PrivateKey
)

// CollidingRSAKeys returns two fixed 2048-bit keys D, E (N_D < N_E, about a quarter of the values
// below N_E are not below N_D) whose token key ids end in the same byte.
func CollidingRSAKeys() []*rsa.PrivateKey {
	collOnce.Do(func() {
		for i := 5; i <= 6; i++ {
			b, err := keyFS.ReadFile(fmt.Sprintf("testdata/rsa%d.pem", i))
			if err != nil {
				panic(err)
			}
			blk, _ := pem.Decode(b)
			k, err := x509.ParsePKCS1PrivateKey(blk.Bytes)
			if err != nil {
				panic(err)
			}
			k.Precompute()
			collKeys = append(collKeys, k)
		}
	})
	return collKeys
}

// SiblingRSAKey returns a key over the same modulus and primes as k with another public exponent,
// chosen by search so that byte pos of its token key id (SHA-256 of the RSASSA-PSS
// SubjectPublicKeyInfo computed by spki) equals that byte of k's id; pos < 0: any exponent.
func SiblingRSAKey(k *rsa.PrivateKey, pos int, spki func(*rsa.PublicKey) []byte) *rsa.PrivateKey {
	one := big.NewInt(1)
	phi := new(big.Int).Mul(new(big.Int).Sub(k.Primes[0], one), new(big.Int).Sub(k.Primes[1], one))
	want := sha256.Sum256(spki(&k.PublicKey))
	for e := 65539; e < 1<<30; e += 2 {
		eb := big.NewInt(int64(e))
		if new(big.Int).GCD(nil, nil, eb, phi).Cmp(one) != 0 {
			continue
		}
		pub := &rsa.PublicKey{N: k.N, E: e}
		if pos >= 0 {
			id := sha256.Sum256(spki(pub))
			if id[pos] != want[pos] {
				continue
			}
		}
		d := new(big.Int).ModInverse(eb, phi)
		nk := &rsa.PrivateKey{PublicKey: rsa.PublicKey{N: new(big.Int).Set(k.N), E: e}, D: d, Primes: []*big.Int{new(big.Int).Set(k.Primes[0]), new(big.Int).Set(k.Primes[1])}}
		nk.Precompute()
		if err := nk.Validate(); err != nil {
			continue
		}
		return nk
	}
	panic("no sibling key found")
}

var (
	longOnce sync.Once
	longKey  *rsa.PrivateKey
)

// LongRSAKey returns a fixed 3072-bit key: longer than token types 2 and 3 allow (their
// authenticator field has 256 bytes).
func LongRSAKey() *rsa.PrivateKey {
	longOnce.Do(func() {
		b, err := keyFS.ReadFile("testdata/rsa7.pem")
		if err != nil {
			panic(err)
		}
		blk, _ := pem.Decode(b)
		k, err := x509.ParsePKCS1PrivateKey(blk.Bytes)
		if err != nil {
			panic(err)
		}
		k.Precompute()
		longKey = k
	})
	return longKey
}

// FreshRSA returns a private copy of fixed key i (safe to hand to code under test
// that might mutate it).
func FreshRSA(i int) *rsa.PrivateKey {
	b, _ := keyFS.ReadFile(fmt.Sprintf("testdata/rsa%d.pem", i+1))
	blk, _ := pem.Decode(b)
	k, err := x509.ParsePKCS1PrivateKey(blk.Bytes)
	if err != nil {
		panic(err)
	}
	return k
}

// OPRFKeyBytes returns the scalar bytes of key number i of the alphabet for a
// suite: 0..2 are DeriveKey(seed_i); 3,4,5 are the scalars 1, 2 and N-1.
func OPRFKeyBytes(s oprf.Suite, i int) []byte {
	g := s.Group()
	switch {
	case i < 3 || i >= 6:
		k, err := oprf.DeriveKey(s, oprf.VerifiableMode, []byte(fmt.Sprintf("verif seed %d", i)), []byte("verif info"))
		if err != nil {
			panic(err)
		}
		b, _ := k.MarshalBinary()
		return b
	case i == 3:
		b, _ := g.NewScalar().SetUint64(1).MarshalBinary()
		return b
	case i == 4:
		b, _ := g.NewScalar().SetUint64(2).MarshalBinary()
		return b
	default:
		one := g.NewScalar().SetUint64(1)
		z := g.NewScalar()
		z.Sub(z, one) // 0 - 1 = N-1
		b, _ := z.MarshalBinary()
		return b
	}
}

var (
	findMu    sync.Mutex
	findCache = map[string]int{}
)

// FindOPRFKey returns the index (>= 6) of the first derived alphabet key of the suite
// whose key id (SHA-256 of the compressed public key) ends in the byte want. Requests carry
// only that byte, so the key alphabets are extended by search to ids 00 and ff.
func FindOPRFKey(s oprf.Suite, want byte) int {
	k := fmt.Sprintf("%s/%02x", s.Identifier(), want)
	findMu.Lock()
	defer findMu.Unlock()
	if i, ok := findCache[k]; ok {
		return i
	}
	for i := 6; i < 6+8192; i++ {
		id := sha256.Sum256(PubKeyBytes(s, OPRFKeyBytes(s, i)))
		if id[31] == want {
			findCache[k] = i
			return i
		}
	}
	panic("no key found")
}

// FindOPRFKeyPubZero returns the index (>= 6) of the first derived alphabet key of the suite whose
// serialised public key has a zero byte at position pos (negative: counted from the end). For
// P-384, pos 1 is the leading byte of the x coordinate.
func FindOPRFKeyPubZero(s oprf.Suite, pos int) int {
	k := fmt.Sprintf("%s/pubzero/%d", s.Identifier(), pos)
	findMu.Lock()
	defer findMu.Unlock()
	if i, ok := findCache[k]; ok {
		return i
	}
	for i := 6; i < 6+8192; i++ {
		pb := PubKeyBytes(s, OPRFKeyBytes(s, i))
		p := pos
		if p < 0 {
			p += len(pb)
		}
		if pb[p] == 0 {
			findCache[k] = i
			return i
		}
	}
	panic("no key found")
}

// OPRFKey builds a fresh private key object from alphabet member i.
func OPRFKey(s oprf.Suite, i int) *oprf.PrivateKey {
	return OPRFKeyFromBytes(s, OPRFKeyBytes(s, i))
}

func OPRFKeyFromBytes(s oprf.Suite, b []byte) *oprf.PrivateKey {
	k := new(oprf.PrivateKey)
	if err := k.UnmarshalBinary(s, b); err != nil {
		panic(err)
	}
	return k
}

// ChallengeLens is the challenge length alphabet (SHA-256 block boundaries, varint
// class boundaries, empty, large).
var ChallengeLens = []int{0, 1, 31, 32, 33, 55, 56, 63, 64, 65, 127, 128, 255, 256, 1000, 65535}

// Token is a parsed token, by hand from the byte layout.
type Token struct {
	Type    uint16
	Nonce   []byte
	Context []byte
	KeyID   []byte
	Auth    []byte
}

// AuthLen returns the authenticator length of a token type.
func AuthLen(t uint16) int {
	switch t {
	case 1:
		return 48
	case 2, 3:
		return 256
	case 5:
		return 64
	}
	return -1
}

// ParseToken splits token bytes by the fixed layout of the given type.
func ParseToken(b []byte, typ uint16) (Token, error) {
	n := AuthLen(typ)
	if n < 0 {
		return Token{}, errors.New("unknown type")
	}
	if len(b) != 2+32+32+32+n {
		return Token{}, fmt.Errorf("token length %d, want %d", len(b), 98+n)
	}
	return Token{Type: binary.BigEndian.Uint16(b), Nonce: b[2:34], Context: b[34:66], KeyID: b[66:98], Auth: b[98:]}, nil
}

// CheckLayout demands token == type || nonce || SHA-256(challenge) || keyID || auth(len of type).
func CheckLayout(tok []byte, typ uint16, nonce, challenge, keyID []byte) error {
	t, err := ParseToken(tok, typ)
	if err != nil {
		return err
	}
	if t.Type != typ {
		return fmt.Errorf("token type %d want %d", t.Type, typ)
	}
	if !bytes.Equal(t.Nonce, nonce) {
		return errors.New("token nonce differs from request nonce")
	}
	d := sha256.Sum256(challenge)
	if !bytes.Equal(t.Context, d[:]) {
		return errors.New("token context is not SHA-256(challenge)")
	}
	if !bytes.Equal(t.KeyID, keyID) {
		return errors.New("token key id differs from issuer key id")
	}
	return nil
}

// VerifyRSAToken verifies the RSASSA-PSS(SHA-384, salt 48) authenticator of a
// type-2/3 token with the standard library only.
func VerifyRSAToken(pub *rsa.PublicKey, tok []byte) error {
	if len(tok) != 98+256 {
		return fmt.Errorf("token length %d", len(tok))
	}
	h := sha512.Sum384(tok[:98])
	return rsa.VerifyPSS(pub, crypto.SHA384, h[:], tok[98:], &rsa.PSSOptions{Hash: crypto.SHA384, SaltLength: 48})
}

// RefOPRF is RFC 9497 Evaluate for the VOPRF mode composed from group
// primitives: Hash(len(in)||in||len(E)||E||"Finalize"), E = k*HashToGroup(in).
func RefOPRF(s oprf.Suite, keyScalar []byte, input []byte) []byte {
	g := s.Group()
	k := g.NewScalar()
	if err := k.UnmarshalBinary(keyScalar); err != nil {
		panic(err)
	}
	dst := append([]byte("HashToGroup-OPRFV1-\x01-"), []byte(s.Identifier())...)
	e := g.HashToElement(input, dst)
	ev := g.NewElement().Mul(e, k)
	enc, err := ev.MarshalBinaryCompress()
	if err != nil {
		panic(err)
	}
	h := s.Hash().New()
	var l [2]byte
	binary.BigEndian.PutUint16(l[:], uint16(len(input)))
	h.Write(l[:])
	h.Write(input)
	binary.BigEndian.PutUint16(l[:], uint16(len(enc)))
	h.Write(l[:])
	h.Write(enc)
	h.Write([]byte("Finalize"))
	return h.Sum(nil)
}

// VerifyOPRFToken checks the authenticator of a type-1/5 token against RefOPRF.
func VerifyOPRFToken(s oprf.Suite, keyScalar []byte, tok []byte) error {
	n := 48
	if s == oprf.SuiteRistretto255 {
		n = 64
	}
	if len(tok) != 98+n {
		return fmt.Errorf("token length %d", len(tok))
	}
	want := RefOPRF(s, keyScalar, tok[:98])
	if !bytes.Equal(want, tok[98:]) {
		return errors.New("authenticator is not the VOPRF evaluation of the token input")
	}
	return nil
}

// PubKeyBytes serialises the public key of an OPRF scalar independently:
// compressed(k*G).
func PubKeyBytes(s oprf.Suite, keyScalar []byte) []byte {
	g := s.Group()
	k := g.NewScalar()
	if err := k.UnmarshalBinary(keyScalar); err != nil {
		panic(err)
	}
	e := g.NewElement().MulGen(k)
	b, err := e.MarshalBinaryCompress()
	if err != nil {
		panic(err)
	}
	return b
}

var _ = group.P384
