package px

import (
	"crypto/elliptic"
	"crypto/rsa"
	"fmt"

	"github.com/cloudflare/circl/oprf"
	"github.com/cloudflare/pat-go/tokens"
	"github.com/cloudflare/pat-go/tokens/type1"
	"github.com/cloudflare/pat-go/tokens/type2"
	"github.com/cloudflare/pat-go/tokens/type3"
	"github.com/cloudflare/pat-go/tokens/type5"
	"github.com/cloudflare/pat-go/util"
)

// Scribble makes every Create wrapper behave like a caller that reuses its buffers: the
// byte-slice arguments are private copies, and after the library call has returned they are
// overwritten. A library that keeps a reference to caller memory instead of copying what it
// needs then produces results that depend on what the caller does later.
var Scribble = true

type argCopies struct{ bufs [][]byte }

func (a *argCopies) c(b []byte) []byte {
	if b == nil {
		return nil
	}
	o := append(make([]byte, 0, len(b)+8), b...) // spare capacity: appends by the callee land in our buffer
	a.bufs = append(a.bufs, o[:len(b)+8])
	return o
}

func (a *argCopies) done() {
	if !Scribble {
		return
	}
	for _, b := range a.bufs {
		for i := range b {
			b[i] = 0xEE
		}
	}
}

// StageErr names the protocol step at which an honest flow failed.
type StageErr struct {
	Stage string
	Err   string
}

func (e *StageErr) Error() string { return e.Stage + ": " + e.Err }

func stage(s string, err error) *StageErr { return &StageErr{Stage: s, Err: err.Error()} }
func stagef(s, f string, a ...any) *StageErr {
	return &StageErr{Stage: s, Err: fmt.Sprintf(f, a...)}
}

// Out is everything an honest flow produced on the wire.
type Out struct {
	KeyID    []byte
	KeyBytes []byte // OPRF scalar (types 1,5)
	Pub      *rsa.PublicKey
	Request  []byte
	Response []byte
	Tokens   [][]byte
	// type 3
	IndexID       []byte
	BlindedReqKey []byte
	ClientKey     []byte
}

// ---- type 1 ----

type W1 struct {
	KeyBytes []byte
	Issuer   *type1.BasicPrivateIssuer
	KeyID    []byte
	PubBytes []byte
	// Client is ONE constructed client object used for every request this world creates (several
	// requests of one client may be outstanding at a time)
	Client type1.BasicPrivateClient
}

func NewW1(keyIdx int) *W1 {
	kb := OPRFKeyBytes(oprf.SuiteP384, keyIdx)
	return NewW1FromBytes(kb)
}

func NewW1FromBytes(kb []byte) *W1 {
	is := type1.NewBasicPrivateIssuer(OPRFKeyFromBytes(oprf.SuiteP384, kb))
	pb, err := is.TokenKey().MarshalBinary()
	if err != nil {
		panic(err)
	}
	return &W1{KeyBytes: kb, Issuer: is, KeyID: is.TokenKeyID(), PubBytes: pb, Client: type1.NewBasicPrivateClient()}
}

// ClientPub decodes the public key the way a client receiving bytes would.
func (w *W1) ClientPub() *oprf.PublicKey {
	pk := new(oprf.PublicKey)
	if err := pk.UnmarshalBinary(oprf.SuiteP384, w.PubBytes); err != nil {
		panic(err)
	}
	return pk
}

// Create makes a request state; blind nil = client randomness.
func (w *W1) Create(challenge, nonce, blind []byte) (type1.BasicPrivateTokenRequestState, error) {
	c := w.Client
	var a argCopies
	defer a.done()
	if blind != nil {
		return c.CreateTokenRequestWithBlind(a.c(challenge), a.c(nonce), a.c(w.KeyID), w.ClientPub(), a.c(blind))
	}
	return c.CreateTokenRequest(a.c(challenge), a.c(nonce), a.c(w.KeyID), w.ClientPub())
}

// EvaluateWire decodes request bytes into a fresh object and evaluates it.
func (w *W1) EvaluateWire(reqBytes []byte) ([]byte, *StageErr) {
	req := new(type1.BasicPrivateTokenRequest)
	if !req.Unmarshal(reqBytes) {
		return nil, stagef("issuer-decode", "request of %d bytes rejected", len(reqBytes))
	}
	resp, err := w.Issuer.Evaluate(req)
	if err != nil {
		return nil, stage("issuer-evaluate", err)
	}
	return resp, nil
}

func (w *W1) Flow(challenge, nonce, blind []byte) (*Out, *StageErr) {
	st, err := w.Create(challenge, nonce, blind)
	if err != nil {
		return nil, stage("client-create", err)
	}
	o := &Out{KeyID: w.KeyID, KeyBytes: w.KeyBytes}
	o.Request = append([]byte{}, st.Request().Marshal()...)
	resp, se := w.EvaluateWire(o.Request)
	if se != nil {
		return o, se
	}
	o.Response = append([]byte{}, resp...)
	tok, err := st.FinalizeToken(append([]byte{}, resp...))
	if err != nil {
		return o, stage("client-finalize", err)
	}
	o.Tokens = [][]byte{tok.Marshal()}
	return o, nil
}

// ---- type 2 ----

type W2 struct {
	Key      *rsa.PrivateKey
	Issuer   *type2.BasicPublicIssuer
	KeyID    []byte
	PubBytes []byte
	Client   type2.BasicPublicClient // one constructed client object for all requests of this world
}

func NewW2(keyIdx int) *W2 { return NewW2Key(RSAKeys()[keyIdx]) }

// NewW2Key builds the type-2 world of a given key.
func NewW2Key(k *rsa.PrivateKey) *W2 {
	is := type2.NewBasicPublicIssuer(k)
	pb, err := util.MarshalTokenKeyPSSOID(is.TokenKey())
	if err != nil {
		panic(err)
	}
	return &W2{Key: k, Issuer: is, KeyID: is.TokenKeyID(), PubBytes: pb, Client: type2.NewBasicPublicClient()}
}

func (w *W2) ClientPub() *rsa.PublicKey {
	pk, err := util.UnmarshalTokenKey(w.PubBytes)
	if err != nil {
		panic(err)
	}
	return pk
}

func (w *W2) Create(challenge, nonce, blind, salt []byte) (type2.BasicPublicTokenRequestState, error) {
	c := w.Client
	var a argCopies
	defer a.done()
	if blind != nil {
		return c.CreateTokenRequestWithBlind(a.c(challenge), a.c(nonce), a.c(w.KeyID), w.ClientPub(), a.c(blind), a.c(salt))
	}
	return c.CreateTokenRequest(a.c(challenge), a.c(nonce), a.c(w.KeyID), w.ClientPub())
}

func (w *W2) EvaluateWire(reqBytes []byte) ([]byte, *StageErr) {
	req := new(type2.BasicPublicTokenRequest)
	if !req.Unmarshal(reqBytes) {
		return nil, stagef("issuer-decode", "request of %d bytes rejected", len(reqBytes))
	}
	resp, err := w.Issuer.Evaluate(req)
	if err != nil {
		return nil, stage("issuer-evaluate", err)
	}
	return resp, nil
}

func (w *W2) Flow(challenge, nonce, blind, salt []byte) (*Out, *StageErr) {
	st, err := w.Create(challenge, nonce, blind, salt)
	if err != nil {
		return nil, stage("client-create", err)
	}
	o := &Out{KeyID: w.KeyID, Pub: &w.Key.PublicKey}
	o.Request = append([]byte{}, st.Request().Marshal()...)
	resp, se := w.EvaluateWire(o.Request)
	if se != nil {
		return o, se
	}
	o.Response = append([]byte{}, resp...)
	tok, err := st.FinalizeToken(append([]byte{}, resp...))
	if err != nil {
		return o, stage("client-finalize", err)
	}
	o.Tokens = [][]byte{tok.Marshal()}
	return o, nil
}

// ---- type 5 ----

type W5 struct {
	KeyBytes []byte
	Issuer   *type5.BatchedPrivateIssuer
	KeyID    []byte
	PubBytes []byte
	Client   type5.BatchedPrivateClient // one constructed client object for all requests of this world
}

func NewW5(keyIdx int) *W5 { return NewW5FromBytes(OPRFKeyBytes(oprf.SuiteRistretto255, keyIdx)) }

func NewW5FromBytes(kb []byte) *W5 {
	is := type5.NewBatchedPrivateIssuer(OPRFKeyFromBytes(oprf.SuiteRistretto255, kb))
	pb, err := is.TokenKey().MarshalBinary()
	if err != nil {
		panic(err)
	}
	return &W5{KeyBytes: kb, Issuer: is, KeyID: is.TokenKeyID(), PubBytes: pb, Client: type5.NewBatchedPrivateClient()}
}

func (w *W5) ClientPub() *oprf.PublicKey {
	pk := new(oprf.PublicKey)
	if err := pk.UnmarshalBinary(oprf.SuiteRistretto255, w.PubBytes); err != nil {
		panic(err)
	}
	return pk
}

func (w *W5) Create(challenge []byte, nonces [][]byte, blinds [][]byte) (type5.BatchedPrivateTokenRequestState, error) {
	c := w.Client
	var a argCopies
	defer a.done()
	cl := func(l [][]byte) [][]byte {
		if l == nil {
			return nil
		}
		o := make([][]byte, len(l))
		for i := range l {
			o[i] = a.c(l[i])
		}
		return o
	}
	if blinds != nil {
		return c.CreateTokenRequestWithBlinds(a.c(challenge), cl(nonces), a.c(w.KeyID), w.ClientPub(), cl(blinds))
	}
	return c.CreateTokenRequest(a.c(challenge), cl(nonces), a.c(w.KeyID), w.ClientPub())
}

func (w *W5) EvaluateWire(reqBytes []byte) ([]byte, *StageErr) {
	req := new(type5.BatchedPrivateTokenRequest)
	if !req.Unmarshal(reqBytes) {
		return nil, stagef("issuer-decode", "request of %d bytes rejected", len(reqBytes))
	}
	resp, err := w.Issuer.Evaluate(req)
	if err != nil {
		return nil, stage("issuer-evaluate", err)
	}
	return resp, nil
}

func (w *W5) Flow(challenge []byte, nonces [][]byte, blinds [][]byte) (*Out, *StageErr) {
	st, err := w.Create(challenge, nonces, blinds)
	if err != nil {
		return nil, stage("client-create", err)
	}
	o := &Out{KeyID: w.KeyID, KeyBytes: w.KeyBytes}
	o.Request = append([]byte{}, st.Request().Marshal()...)
	resp, se := w.EvaluateWire(o.Request)
	if se != nil {
		return o, se
	}
	o.Response = append([]byte{}, resp...)
	toks, err := st.FinalizeTokens(append([]byte{}, resp...))
	if err != nil {
		return o, stage("client-finalize", err)
	}
	if len(toks) != len(nonces) {
		return o, stagef("client-finalize", "%d tokens for %d nonces", len(toks), len(nonces))
	}
	for _, t := range toks {
		o.Tokens = append(o.Tokens, t.Marshal())
	}
	return o, nil
}

// ---- type 3 ----

// MemCache is a plain ClientStateCache.
type MemCache struct {
	M    map[string]*type3.ClientState
	Puts int
}

func NewMemCache() *MemCache { return &MemCache{M: map[string]*type3.ClientState{}} }
func (c *MemCache) Get(id string) (*type3.ClientState, bool) {
	s, ok := c.M[id]
	return s, ok
}
func (c *MemCache) Put(id string, s *type3.ClientState) { c.M[id] = s; c.Puts++ }

type W3 struct {
	Key         *rsa.PrivateKey
	Issuer      *type3.RateLimitedIssuer
	KeyID       []byte
	PubBytes    []byte
	NameKeyWire []byte
}

// NewW3 builds an issuer; its name key is drawn from the calling goroutine's
// entropy stream, so the caller fixes it by choosing the stream label first.
func NewW3(keyIdx int) *W3 { return NewW3Key(RSAKeys()[keyIdx]) }

// NewW3Key builds the type-3 world of a given token key.
func NewW3Key(k *rsa.PrivateKey) *W3 {
	is := type3.NewRateLimitedIssuer(k)
	pb, err := util.MarshalTokenKeyPSSOID(is.TokenKey())
	if err != nil {
		panic(err)
	}
	return &W3{Key: k, Issuer: is, KeyID: is.TokenKeyID(), PubBytes: pb, NameKeyWire: is.NameKey().Marshal()}
}

func (w *W3) ClientPub() *rsa.PublicKey {
	pk, err := util.UnmarshalTokenKey(w.PubBytes)
	if err != nil {
		panic(err)
	}
	return pk
}

// ClientNameKey decodes the name key the way a client receiving bytes would: from a buffer
// of its own that it reuses afterwards.
func (w *W3) ClientNameKey() (type3.EncapKey, error) {
	var a argCopies
	defer a.done()
	return type3.UnmarshalEncapKey(a.c(w.NameKeyWire))
}

// T3Args are the client-side inputs of one rate-limited request.
type T3Args struct {
	Secret     []byte // client secret scalar bytes
	Blind      []byte // per-request blind scalar bytes
	Challenge  []byte
	Nonce      []byte
	Origin     string
	AnonOrigin []byte
	// Client, if set, is the client OBJECT to use (it must have been made from Secret): one client
	// that talks to several issuers / origins in turn. Otherwise every request gets a fresh client.
	Client *type3.RateLimitedClient
}

func (w *W3) Create(a T3Args) (type3.RateLimitedTokenRequestState, error) {
	nk, err := w.ClientNameKey()
	if err != nil {
		return type3.RateLimitedTokenRequestState{}, err
	}
	var ac argCopies
	defer ac.done()
	c := type3.NewRateLimitedClientFromSecret(ac.c(a.Secret))
	if a.Client != nil {
		c = *a.Client
	}
	return c.CreateTokenRequest(ac.c(a.Challenge), ac.c(a.Nonce), ac.c(a.Blind), ac.c(w.KeyID), w.ClientPub(), a.Origin, nk)
}

// Flow runs client -> attester -> issuer -> attester -> client with every message as bytes.
func (w *W3) Flow(att *type3.RateLimitedAttester, a T3Args) (*Out, *StageErr) {
	p, se := w.Begin(att, a)
	if se != nil {
		return p.Out, se
	}
	return w.End(att, p)
}

// Pending3 is a rate-limited request that the attester has verified and the issuer has answered,
// whose index has not been finalized yet (a request in flight).
type Pending3 struct {
	Out  *Out
	a    T3Args
	st   type3.RateLimitedTokenRequestState
	resp []byte
	brk  []byte
}

// Begin runs the first half of Flow: create, attester VerifyRequest, issuer Evaluate.
func (w *W3) Begin(att *type3.RateLimitedAttester, a T3Args) (*Pending3, *StageErr) {
	p := &Pending3{a: a}
	st, err := w.Create(a)
	if err != nil {
		return p, stage("client-create", err)
	}
	p.st = st
	o := &Out{KeyID: w.KeyID, Pub: &w.Key.PublicKey}
	p.Out = o
	o.Request = append([]byte{}, st.Request().Marshal()...)
	o.ClientKey = append([]byte{}, st.ClientKey()...)
	dec := new(type3.RateLimitedTokenRequest)
	if !dec.Unmarshal(o.Request) {
		return p, stagef("attester-decode", "request of %d bytes rejected", len(o.Request))
	}
	if err := att.VerifyRequest(*dec, a.Blind, o.ClientKey, a.AnonOrigin); err != nil {
		return p, stage("attester-verify", err)
	}
	resp, brk, err := w.Issuer.Evaluate(append([]byte{}, o.Request...))
	if err != nil {
		return p, stage("issuer-evaluate", err)
	}
	p.resp, p.brk = resp, brk
	o.Response = append([]byte{}, resp...)
	o.BlindedReqKey = append([]byte{}, brk...)
	return p, nil
}

// End runs the second half of Flow: attester FinalizeIndex, client FinalizeToken.
func (w *W3) End(att *type3.RateLimitedAttester, p *Pending3) (*Out, *StageErr) {
	o := p.Out
	idx, err := att.FinalizeIndex(o.ClientKey, p.a.Blind, p.brk, p.a.AnonOrigin)
	if err != nil {
		return o, stage("attester-index", err)
	}
	o.IndexID = idx
	tok, err := p.st.FinalizeToken(append([]byte{}, p.resp...))
	if err != nil {
		return o, stage("client-finalize", err)
	}
	o.Tokens = [][]byte{tok.Marshal()}
	return o, nil
}

// ClientPubKeyBytes is the compressed P-384 public key of a client secret,
// computed with crypto/elliptic only.
func ClientPubKeyBytes(secret []byte) []byte {
	c := elliptic.P384()
	x, y := c.ScalarBaseMult(secret)
	return elliptic.MarshalCompressed(c, x, y)
}

var _ = tokens.Token{}
