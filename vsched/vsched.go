// Package vsched is a cooperative scheduler for stateless schedule exploration of Go
// code under the race detector.
//
// Harness threads are goroutines; exactly one holds the turn, the others spin in
// `for turn != me { runtime.Gosched() }`. Every function here is //go:norace and
// touches only fixed-size arrays with plain loads and stores, so the hand-off between
// threads is INVISIBLE to the race detector: threads that are physically serialised
// stay logically concurrent, and every explored schedule is checked for data races
// by happens-before analysis on all memory (pat-go, circl, math/big, the standard
// library). Real synchronisation inside the code under test keeps its real edges.
//
// Instrumented code calls Y(site) before every statement (inserted by cmd/vinstr).
package vsched

import (
	"runtime"
	"sync"
)

const (
	MaxThreads = 8
	MaxPoints  = 1 << 16
)

const (
	stNone = iota
	stRunnable
	stBlocked
	stDone
)

// Point is one recorded scheduling decision.
type Point struct {
	Running int32  // thread that reached the point (-1: initial choice)
	Enabled uint16 // bit mask of enabled threads
	Choice  int16  // index into the canonical order of the enabled set
	Site    int32
	Free    bool // the running thread is not enabled (start, exit, block): switching costs nothing
}

var (
	active   bool
	nthreads int
	goids    [MaxThreads]uint64
	state    [MaxThreads]int32
	turn     int32 = -1

	prefix    [MaxPoints]int16
	prefixLen int

	Trace   [MaxPoints]Point
	NPoints int

	Diverged  bool // a replayed choice was out of range for the enabled set
	Overrun   bool // more than MaxPoints scheduling points
	Deadlock  bool // no enabled thread while some are not done
	stepLimit int
)

//go:norace
func goid() uint64 {
	var buf [32]byte
	n := runtime.Stack(buf[:], false)
	var id uint64
	for i := 10; i < n; i++ {
		c := buf[i]
		if c < '0' || c > '9' {
			break
		}
		id = id*10 + uint64(c-'0')
	}
	return id
}

// Me returns the index of the calling harness thread, or MaxThreads for any other
// goroutine (controller, runtime).
//
//go:norace
func Me() int {
	if nthreads == 0 {
		return MaxThreads
	}
	g := goid()
	for i := 0; i < nthreads; i++ {
		if goids[i] == g {
			return i
		}
	}
	return MaxThreads
}

// canonical order of the enabled set: the running thread first if it is enabled,
// then ascending ids.
//
//go:norace
func pick(running int32, mask uint16, choice int) int32 {
	k := 0
	if running >= 0 && mask&(1<<uint(running)) != 0 {
		if choice == 0 {
			return running
		}
		k = 1
	}
	for i := int32(0); i < int32(nthreads); i++ {
		if i == running || mask&(1<<uint(i)) == 0 {
			continue
		}
		if k == choice {
			return i
		}
		k++
	}
	return -1
}

//go:norace
func popcount(m uint16) int {
	n := 0
	for ; m != 0; m &= m - 1 {
		n++
	}
	return n
}

//go:norace
func enabledMask() uint16 {
	var m uint16
	for i := 0; i < nthreads; i++ {
		if state[i] == stRunnable {
			m |= 1 << uint(i)
		}
	}
	return m
}

// decide records a scheduling point reached by thread `running` (or -1) and returns
// the thread that runs next (-1 if none is enabled).
//
//go:norace
func decide(running int32, site int32, free bool) int32 {
	mask := enabledMask()
	if mask == 0 {
		return -1
	}
	choice := 0
	if NPoints < prefixLen {
		choice = int(prefix[NPoints])
		if choice >= popcount(mask) {
			Diverged = true
			choice = 0
		}
	}
	next := pick(running, mask, choice)
	if NPoints < MaxPoints {
		Trace[NPoints] = Point{Running: running, Enabled: mask, Choice: int16(choice), Site: site, Free: free}
		NPoints++
	} else {
		Overrun = true
	}
	return next
}

// Y is a scheduling point. site identifies the statement (for traces only).
//
//go:norace
func Y(site int32) {
	if !active {
		return
	}
	me := turn
	if me < 0 || goids[me] != goid() {
		return // a goroutine the scheduler does not manage
	}
	if NPoints >= stepLimit {
		Overrun = true
		return
	}
	next := decide(me, site, false)
	if next != me && next >= 0 {
		turn = next
		for turn != me && !freeRun {
			runtime.Gosched()
		}
	}
}

// block parks the calling thread until another thread unblocks it.
//
//go:norace
func block(me int32, site int32) {
	state[me] = stBlocked
	next := decide(me, site, true)
	if next < 0 {
		Deadlock = true
		// nothing can ever wake us: give up the exploration of this execution by
		// letting everything run free
		active = false
		freeRun = true
		return
	}
	turn = next
	for turn != me && !freeRun {
		runtime.Gosched()
	}
}

//go:norace
func wakeAll() {
	for i := 0; i < nthreads; i++ {
		if state[i] == stBlocked {
			state[i] = stRunnable
		}
	}
}

// Result of one execution.
type Result struct {
	Points   []Point
	Diverged bool
	Overrun  bool
	Deadlock bool
}

// Run executes the thread bodies under the schedule given by choices (then default
// choice 0 at every later point) and returns the recorded trace. Bodies run as
// goroutines started here; Run returns after all have finished. limit bounds the
// number of scheduling points.
func Run(bodies []func(), choices []int16, limit int) Result {
	setup(len(bodies), choices, limit)
	var wg sync.WaitGroup // real join edge: everything the threads did happens before Run returns
	for i := range bodies {
		wg.Add(1)
		go threadMain(int32(i), bodies[i], &wg)
	}
	start()
	wg.Wait()
	return finish()
}

//go:norace
func setup(n int, choices []int16, limit int) {
	if n > MaxThreads {
		panic("vsched: too many threads")
	}
	active = false
	freeRun = false
	nthreads = n
	for i := 0; i < MaxThreads; i++ {
		goids[i] = 0
		state[i] = stNone
	}
	turn = -1
	prefixLen = len(choices)
	for i, c := range choices {
		prefix[i] = c
	}
	NPoints = 0
	Diverged, Overrun, Deadlock = false, false, false
	if limit <= 0 || limit > MaxPoints {
		limit = MaxPoints
	}
	stepLimit = limit
}

// freeRun releases every spinning thread (used when the scheduler gives up on an
// execution: deadlock among managed threads).
var freeRun bool

//go:norace
func threadMain(me int32, body func(), wg *sync.WaitGroup) {
	goids[me] = goid()
	state[me] = stRunnable
	for turn != me && !freeRun {
		runtime.Gosched()
	}
	runBody(body)
	exit(me)
	wg.Done()
}

// runBody is separate so that the body (instrumented, race-checked code) is not inlined
// into a norace function.
func runBody(body func()) { body() }

//go:norace
func exit(me int32) {
	state[me] = stDone
	if !active {
		return
	}
	next := decide(me, -2, true)
	if next >= 0 {
		turn = next
		return
	}
	// nobody enabled: either all done, or the rest is blocked forever
	for i := 0; i < nthreads; i++ {
		if state[i] == stBlocked {
			Deadlock = true
			active = false // release them
			freeRun = true
		}
	}
	turn = -1
}

//go:norace
func start() {
	for {
		n := 0
		for i := 0; i < nthreads; i++ {
			if state[i] == stRunnable {
				n++
			}
		}
		if n == nthreads {
			break
		}
		runtime.Gosched()
	}
	active = true
	next := decide(-1, -1, true)
	turn = next
}

//go:norace
func finish() Result {
	active = false
	nthreads = 0
	r := Result{Diverged: Diverged, Overrun: Overrun, Deadlock: Deadlock}
	r.Points = make([]Point, NPoints)
	copy(r.Points, Trace[:NPoints])
	return r
}

// ---- shims for blocking primitives used by instrumented code ----

// Once replaces sync.Once in instrumented files. The real Once is kept (and with it
// the real happens-before edge); the shim only tells the scheduler that a thread
// calling Do while another thread is inside the callback is blocked.
type Once struct {
	real  sync.Once
	doing bool
	owner int32
}

//go:norace
func (o *Once) enter() (me int32, managed bool) {
	if !active {
		return -1, false
	}
	me = turn
	if me < 0 || goids[me] != goid() {
		return -1, false
	}
	Y(-3)
	for o.doing && o.owner != me && active {
		block(me, -3)
	}
	return me, true
}

//go:norace
func (o *Once) begin(me int32) { o.doing, o.owner = true, me }

//go:norace
func (o *Once) end() {
	o.doing = false
	if active {
		wakeAll()
	}
}

func (o *Once) Do(f func()) {
	me, managed := o.enter()
	if !managed {
		o.real.Do(f)
		return
	}
	o.real.Do(func() {
		o.begin(me)
		f()
		o.end()
	})
}

// Mutex replaces sync.Mutex in instrumented files (none today; an edit might add one).
type Mutex struct {
	real   sync.Mutex
	held   bool
	holder int32
}

//go:norace
func (m *Mutex) acquire() bool {
	if !active {
		return false
	}
	me := turn
	if me < 0 || goids[me] != goid() {
		return false
	}
	Y(-4)
	for m.held && active {
		block(me, -4)
	}
	m.held, m.holder = true, me
	return true
}

//go:norace
func (m *Mutex) release() {
	m.held = false
	if active {
		wakeAll()
	}
}

func (m *Mutex) Lock() {
	m.acquire()
	m.real.Lock()
}

func (m *Mutex) Unlock() {
	m.real.Unlock()
	m.release()
	Y(-5)
}

func (m *Mutex) TryLock() bool {
	ok := m.real.TryLock()
	if ok {
		m.markHeld()
	}
	return ok
}

//go:norace
func (m *Mutex) markHeld() { m.held = true }

// RWMutex: readers and writers are both treated as exclusive by the scheduler's
// bookkeeping (a coarser model loses interleavings between readers, never soundness of
// race detection, which comes from the real lock's happens-before edges).
type RWMutex struct {
	real sync.RWMutex
	w    Mutex
}

func (m *RWMutex) Lock()    { m.w.acquire(); m.real.Lock() }
func (m *RWMutex) Unlock()  { m.real.Unlock(); m.w.release(); Y(-5) }
func (m *RWMutex) RLock()   { m.w.acquire(); m.real.RLock() }
func (m *RWMutex) RUnlock() { m.real.RUnlock(); m.w.release(); Y(-5) }

// RunFree runs the bodies as plain goroutines with real parallelism and no scheduling
// points (cross-check pass: the race detector must agree with the explored runs).
func RunFree(bodies []func()) {
	setup(len(bodies), nil, 0)
	var wg sync.WaitGroup
	for i := range bodies {
		wg.Add(1)
		go freeMain(int32(i), bodies[i], &wg)
	}
	wg.Wait()
	clearThreads()
}

//go:norace
func freeMain(me int32, body func(), wg *sync.WaitGroup) {
	goids[me] = goid() // so that Me() identifies the thread (per-thread entropy streams)
	runBody(body)
	wg.Done()
}

//go:norace
func clearThreads() { nthreads = 0 }
