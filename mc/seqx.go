package mc

import (
	"encoding/json"
)

// seqx: explicit-state breadth-first search over operation sequences applied to a
// live object of the implementation. A state is identified by Canon (a complete,
// sorted dump of the property-relevant fields); its representative is the first
// (shortest) history that reached it. Successors are produced either by cloning the
// live object (Clone != nil) or by replaying the history on a fresh instance.

type Seq[S any, O any] struct {
	Init  func() S
	Ops   func(s S, depth int) []O        // operations enabled in s (small finite menu)
	Apply func(s S, op O) (string, *Viol) // executes op on the implementation (and the model inside S), returns an observation class and a violation
	Canon func(s S) string                // canonical form; a nil Canon disables de-duplication (pure depth-bounded enumeration)
	Clone func(s S) S                     // optional
	Depth int                             // maximum history length (0 = until fix-point; requires Canon)
	Kind  string                          // replay kind to register
	Label func(op O) string
}

type seqNode[S any, O any] struct {
	hist []O
	s    S
	has  bool
}

// Rebuild replays a history on a fresh instance; returns the state and the
// violation raised by the last operation (earlier ones are ignored: they were
// reported when first seen).
func (q *Seq[S, O]) Rebuild(hist []O) (S, *Viol) {
	s := q.Init()
	var v *Viol
	for _, op := range hist {
		_, v = q.Apply(s, op)
	}
	return s, v
}

// Run explores the state space and reports into r. It registers q.Kind as replay
// kind (params = the history as JSON).
func (q *Seq[S, O]) Register(r *Run) {
	r.RegisterReplay(q.Kind, func(pj json.RawMessage) *Viol {
		var hist []O
		if err := json.Unmarshal(pj, &hist); err != nil {
			return nil
		}
		_, v := q.Rebuild(hist)
		return v
	})
}

func (q *Seq[S, O]) Run(r *Run) {
	seen := map[string]bool{}
	init := q.Init()
	if q.Canon != nil {
		seen["k:"+q.Canon(init)] = true
	}
	r.AddStates(1)
	frontier := []seqNode[S, O]{{hist: nil, s: init, has: true}}
	maxDepth := 0
	sampled := 0
	for depth := 0; len(frontier) > 0 && (q.Depth == 0 || depth < q.Depth); depth++ {
		var next []seqNode[S, O]
		for _, n := range frontier {
			if r.OutOfTime() {
				r.NotExhaustive("seqx: time budget hit at depth %d", depth)
				r.Set("max_depth", maxDepth)
				return
			}
			var base S
			if n.has {
				base = n.s
			} else {
				base, _ = q.Rebuild(n.hist)
			}
			ops := q.Ops(base, depth)
			for i, op := range ops {
				var s S
				if q.Clone != nil {
					s = q.Clone(base)
				} else if i == len(ops)-1 && !n.has {
					s = base // last use of the rebuilt instance
				} else {
					s, _ = q.Rebuild(n.hist)
				}
				obs, v := q.Apply(s, op)
				r.AddTransitions(1)
				r.AddTraces(1)
				hist := append(append([]O{}, n.hist...), op)
				lbl := ""
				if q.Label != nil {
					for _, o := range hist {
						lbl += q.Label(o) + ";"
					}
				} else {
					b, _ := json.Marshal(hist)
					lbl = string(b)
				}
				r.Case(lbl, true, obs)
				if v != nil {
					r.Violation(q.Kind, hist, v)
				}
				if sampled < 6 && len(hist) >= 2 {
					sampled++
					r.Sample(map[string]any{"history": hist, "observation": obs})
				}
				key := ""
				if q.Canon != nil {
					key = "k:" + q.Canon(s) // an empty canonical form is a legitimate state, not "do not merge"
				}
				if key != "" {
					if seen[key] {
						continue
					}
					seen[key] = true
				}
				r.AddStates(1)
				if depth+1 > maxDepth {
					maxDepth = depth + 1
				}
				nn := seqNode[S, O]{hist: hist}
				if q.Clone != nil {
					nn.s, nn.has = s, true
				}
				next = append(next, nn)
			}
		}
		frontier = next
	}
	r.Set("max_depth", maxDepth)
	if q.Depth == 0 {
		r.Set("fix_point_reached", true)
	}
}
