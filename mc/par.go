package mc

import (
	"fmt"
	"runtime"
	"sync"
	"sync/atomic"
)

// Par runs fn(i) for i in [0,n) on GOMAXPROCS goroutines. A panic inside fn is
// the harness's own trouble unless fn guards the target call itself; it is
// recorded as a note and the index is skipped.
func (r *Run) Par(n int, fn func(i int)) {
	w := runtime.GOMAXPROCS(0)
	if w > n {
		w = n
	}
	if w < 1 {
		w = 1
	}
	var next atomic.Int64
	var wg sync.WaitGroup
	for k := 0; k < w; k++ {
		wg.Add(1)
		go func() {
			defer wg.Done()
			for {
				i := int(next.Add(1) - 1)
				if i >= n {
					return
				}
				func() {
					defer func() {
						if e := recover(); e != nil {
							buf := make([]byte, 2048)
							buf = buf[:runtime.Stack(buf, false)]
							r.Note("harness panic at index %d: %v\n%s", i, e, buf)
							r.NotExhaustive("harness panic at index %d", i)
						}
					}()
					fn(i)
				}()
			}
		}()
	}
	wg.Wait()
}

// Catch runs f and returns the recovered panic value (nil if none) as a string.
func Catch(f func()) (p string) {
	defer func() {
		if e := recover(); e != nil {
			p = fmt.Sprint(e)
			if p == "" {
				p = "panic"
			}
		}
	}()
	f()
	return ""
}

// CatchStack is Catch with the panicking goroutine's stack appended after a newline.
func CatchStack(f func()) (p string) {
	defer func() {
		if e := recover(); e != nil {
			buf := make([]byte, 4096)
			buf = buf[:runtime.Stack(buf, false)]
			p = fmt.Sprint(e) + "\n" + string(buf)
		}
	}()
	f()
	return ""
}
