// Package mc is the shared runtime of the bounded exhaustive checks: it owns the
// command-line contract (quick | thorough | --replay file), the counters that go
// into the evidence file, violation confirmation (every violation is re-executed
// twice through the same code path a replay uses before it is believed), the
// known-findings file and the exit code.
package mc

import (
	"crypto/sha256"
	"encoding/hex"
	"encoding/json"
	"fmt"
	"os"
	"path/filepath"
	"runtime"
	"sort"
	"strconv"
	"strings"
	"sync"
	"sync/atomic"
	"time"
)

// Viol describes one violating case. Sig is the stable identity of the failing
// site (used for de-duplication and for matching known findings); What is prose.
type Viol struct {
	Sig  string
	What string
}

// ReplayFn re-executes exactly one case from its JSON parameters and reports
// the violation it shows (nil = the case satisfies the property).
type ReplayFn func(params json.RawMessage) *Viol

type recorded struct {
	Property string          `json:"property"`
	Kind     string          `json:"kind"`
	Sig      string          `json:"signature"`
	What     string          `json:"what"`
	Params   json.RawMessage `json:"params"`
	Tier     string          `json:"tier"`
	Seed     int64           `json:"seed"`
}

type finding struct {
	Property  string `json:"property"`
	Signature string `json:"signature"`
	Status    string `json:"status"`
	Commit    string `json:"commit,omitempty"`
	What      string `json:"what"`
}

type Run struct {
	Prop  string
	Level string
	Tier  string
	Seed  int64
	Root  string // /verif
	Repo  string
	Out   string // where evidence/ and replays/ go (VERIF_OUT, default Root)

	start time.Time

	evals    atomic.Int64
	mu       sync.Mutex
	distinct map[[12]byte]struct{}
	dcount   int64 // distinct counted by construction (AddDistinct)
	outcomes map[string]int64
	samples  []any
	extra    map[string]any
	notes    []string
	assume   []string
	rule     string
	nonExh   []string

	states, transitions, traces atomic.Int64
	ticks                       atomic.Int64
	noStall                     atomic.Bool

	replays  map[string]ReplayFn
	viols    map[string]*recorded // by signature
	knownHit map[string]string
	known    []finding

	replayFile string
	deadline   time.Time
	onExit     []func()
}

// OnExit registers a cleanup function run right before the process exits through
// Finish or DoReplay.
func (r *Run) OnExit(f func()) { r.onExit = append(r.onExit, f) }

func (r *Run) exit(code int) {
	for _, f := range r.onExit {
		f()
	}
	os.Exit(code)
}

// Start parses the command line. args: quick|thorough, or --replay <file>.
func Start(prop, level string) *Run {
	r := &Run{Prop: prop, Level: level, Tier: "quick", start: time.Now(),
		distinct: map[[12]byte]struct{}{}, outcomes: map[string]int64{}, extra: map[string]any{},
		replays: map[string]ReplayFn{}, viols: map[string]*recorded{}, knownHit: map[string]string{}}
	r.Root = os.Getenv("VERIF_ROOT")
	if r.Root == "" {
		r.Root = "/verif"
	}
	r.Repo = os.Getenv("VERIF_REPO")
	if r.Repo == "" {
		r.Repo = "/repo"
	}
	r.Out = os.Getenv("VERIF_OUT")
	if r.Out == "" {
		r.Out = r.Root
	}
	if t := os.Getenv("VERIF_TIER"); t == "quick" || t == "thorough" {
		r.Tier = t
	}
	args := os.Args[1:]
	for i := 0; i < len(args); i++ {
		switch args[i] {
		case "quick", "thorough":
			r.Tier = args[i]
		case "--replay":
			if i+1 < len(args) {
				r.replayFile = args[i+1]
				i++
			}
		}
	}
	if s := os.Getenv("VERIF_SEED"); s != "" {
		if v, err := strconv.ParseInt(s, 10, 64); err == nil {
			r.Seed = v
		}
	}
	r.loadKnown()
	budget := 20 * time.Minute
	if r.Tier == "thorough" {
		budget = 100 * time.Minute
	}
	if s := os.Getenv("VERIF_BUDGET_S"); s != "" {
		if v, err := strconv.Atoi(s); err == nil {
			budget = time.Duration(v) * time.Second
		}
	}
	r.deadline = r.start.Add(budget)
	go r.watchdog()
	return r
}

// DisableStallWatchdog is for drivers that run the code under test in subprocesses with their
// own time limits and count their evaluations only at the end.
func (r *Run) DisableStallWatchdog() { r.noStall.Store(true) }

// watchdog ends a run in which a call into the code under test does not return: the checks call
// the library in-process, so a non-terminating call (property C03's subject) would otherwise hang
// the check for ever. No progress (no evaluation, state or transition counted) for VERIF_STALL_S
// seconds (default 600), or five minutes past the time budget: the evidence is written with
// exhaustive=false and the process exits with what it has found so far.
func (r *Run) watchdog() {
	stall := 600 * time.Second
	if s := os.Getenv("VERIF_STALL_S"); s != "" {
		if v, err := strconv.Atoi(s); err == nil && v > 0 {
			stall = time.Duration(v) * time.Second
		}
	}
	last, lastChange := int64(-1), time.Now()
	for {
		time.Sleep(5 * time.Second)
		cur := r.evals.Load() + r.states.Load() + r.transitions.Load() + r.ticks.Load()
		if cur != last {
			last, lastChange = cur, time.Now()
		}
		switch {
		case !r.noStall.Load() && time.Since(lastChange) > stall:
			r.NotExhaustive("no progress for %d s: a call into the code under test does not return (non-termination is decided by C03); stopped", int(stall.Seconds()))
			r.Finish()
		case time.Now().After(r.deadline.Add(5 * time.Minute)):
			r.NotExhaustive("time budget exceeded by five minutes; stopped")
			r.Finish()
		}
	}
}

// Tick tells the watchdog that the run is alive (for long phases that count nothing).
func (r *Run) Tick() { r.ticks.Add(1) }

func (r *Run) Thorough() bool { return r.Tier == "thorough" }

// Pick returns q in the quick tier and t in the thorough tier.
func Pick[T any](r *Run, q, t T) T {
	if r.Thorough() {
		return t
	}
	return q
}

// OutOfTime reports whether the internal budget is used up. A check that sees
// true stops enumerating, calls NotExhaustive and finishes normally (exit 0).
func (r *Run) OutOfTime() bool { return time.Now().After(r.deadline) }

func (r *Run) loadKnown() {
	b, err := os.ReadFile(filepath.Join(r.Root, "known_findings.json"))
	if err != nil {
		return
	}
	var all []finding
	if json.Unmarshal(b, &all) != nil {
		return
	}
	for _, f := range all {
		if f.Property == r.Prop {
			r.known = append(r.known, f)
		}
	}
}

// RegisterReplay binds a case kind to the function that re-executes it.
func (r *Run) RegisterReplay(kind string, fn ReplayFn) { r.replays[kind] = fn }

func (r *Run) SetRule(s string)       { r.rule = s }
func (r *Run) Assume(s ...string)     { r.assume = append(r.assume, s...) }
func (r *Run) Set(key string, v any)  { r.mu.Lock(); r.extra[key] = v; r.mu.Unlock() }
func (r *Run) AddStates(n int64)      { r.states.Add(n) }
func (r *Run) AddTransitions(n int64) { r.transitions.Add(n) }
func (r *Run) AddTraces(n int64)      { r.traces.Add(n) }
func (r *Run) Evals() int64           { return r.evals.Load() }

// Note records harness-side trouble; it never changes the verdict.
func (r *Run) Note(format string, a ...any) {
	s := fmt.Sprintf(format, a...)
	fmt.Fprintln(os.Stderr, "harness-note:", s)
	r.mu.Lock()
	if len(r.notes) < 50 {
		r.notes = append(r.notes, s)
	}
	r.mu.Unlock()
}

// NotExhaustive marks the run as capped, with the reason.
func (r *Run) NotExhaustive(format string, a ...any) {
	s := fmt.Sprintf(format, a...)
	r.mu.Lock()
	r.nonExh = append(r.nonExh, s)
	r.mu.Unlock()
}

// Case accounts for one evaluated case. label identifies the case (used for the
// distinct count when nontrivial); outcome is the observed outcome class.
func (r *Run) Case(label string, nontrivial bool, outcome string) {
	r.evals.Add(1)
	var k [12]byte
	if nontrivial {
		h := sha256.Sum256([]byte(label))
		copy(k[:], h[:12])
	}
	r.mu.Lock()
	if nontrivial {
		r.distinct[k] = struct{}{}
	}
	r.outcomes[outcome]++
	r.mu.Unlock()
}

// Bulk accounts for n evaluated cases that are distinct by construction (an
// enumeration without repetition); nd of them are non-trivial by the rule.
func (r *Run) Bulk(n, nd int64, outcome string) {
	r.evals.Add(n)
	r.mu.Lock()
	r.dcount += nd
	r.outcomes[outcome] += n
	r.mu.Unlock()
}

// Sample keeps up to 12 written-out cases for the evidence file.
func (r *Run) Sample(v any) {
	r.mu.Lock()
	if len(r.samples) < 12 {
		r.samples = append(r.samples, v)
	}
	r.mu.Unlock()
}

// Violation reports a violating case of a registered kind. The case is
// re-executed twice from its serialised parameters; it is believed only if both
// re-executions show a violation with the same signature.
func (r *Run) Violation(kind string, params any, v *Viol) {
	if v == nil {
		return
	}
	r.mu.Lock()
	_, dup := r.viols[v.Sig]
	_, dupk := r.knownHit[v.Sig]
	n := len(r.viols)
	r.mu.Unlock()
	if dup || dupk || n >= 40 {
		return
	}
	pj, err := json.Marshal(params)
	if err != nil {
		r.Note("cannot serialise params of kind %s: %v", kind, err)
		return
	}
	fn := r.replays[kind]
	if fn == nil {
		r.Note("no replay function for kind %s", kind)
		return
	}
	for i := 0; i < 2; i++ {
		v2 := safeReplay(fn, pj)
		if v2 == nil || v2.Sig != v.Sig {
			got := "<no violation>"
			if v2 != nil {
				got = v2.Sig
			}
			r.Note("case of kind %s did not reproduce (first %q, replay %q): treated as harness nondeterminism, not a verdict; params=%s", kind, v.Sig, got, trunc(string(pj), 400))
			return
		}
	}
	for _, f := range r.known {
		if f.Status == "known" && f.Signature == v.Sig {
			r.mu.Lock()
			r.knownHit[v.Sig] = f.What
			r.mu.Unlock()
			return
		}
	}
	rec := &recorded{Property: r.Prop, Kind: kind, Sig: v.Sig, What: v.What, Params: pj, Tier: r.Tier, Seed: r.Seed}
	r.mu.Lock()
	if _, dup := r.viols[v.Sig]; !dup {
		r.viols[v.Sig] = rec
	}
	r.mu.Unlock()
}

// Recorded reports whether a violation (or known finding) with this signature has
// been confirmed and recorded.
func (r *Run) Recorded(sig string) bool {
	r.mu.Lock()
	defer r.mu.Unlock()
	_, a := r.viols[sig]
	_, b := r.knownHit[sig]
	return a || b
}

func safeReplay(fn ReplayFn, pj json.RawMessage) (v *Viol) {
	defer func() {
		if e := recover(); e != nil {
			v = &Viol{Sig: "harness-panic-in-replay", What: fmt.Sprint(e)}
		}
	}()
	return fn(pj)
}

func trunc(s string, n int) string {
	if len(s) > n {
		return s[:n] + "…"
	}
	return s
}

// IsReplay reports whether the binary was started with --replay; DoReplay runs it.
func (r *Run) IsReplay() bool { return r.replayFile != "" }

// DoReplay re-executes the recorded case and exits: 1 + VIOLATION line if the
// case still violates, 0 if it does not.
func (r *Run) DoReplay() {
	b, err := os.ReadFile(r.replayFile)
	if err != nil {
		fmt.Fprintln(os.Stderr, "replay:", err)
		os.Exit(2)
	}
	var rec recorded
	if err := json.Unmarshal(b, &rec); err != nil {
		fmt.Fprintln(os.Stderr, "replay:", err)
		os.Exit(2)
	}
	fn := r.replays[rec.Kind]
	if fn == nil {
		fmt.Fprintln(os.Stderr, "replay: unknown kind", rec.Kind)
		os.Exit(2)
	}
	v := safeReplay(fn, rec.Params)
	if v == nil {
		fmt.Printf("replay: case of kind %s satisfies the property now\n", rec.Kind)
		r.exit(0)
	}
	fmt.Printf("replay: %s: %s\n", v.Sig, v.What)
	fmt.Printf("VIOLATION property=%s replay=%s\n", r.Prop, r.replayFile)
	r.exit(1)
}

// Finish writes the evidence file, prints the verdict lines and exits.
func (r *Run) Finish() {
	wall := time.Since(r.start).Seconds()
	r.mu.Lock()
	defer r.mu.Unlock()

	nd := int64(len(r.distinct)) + r.dcount
	cov := map[string]any{}
	for k, v := range r.extra {
		cov[k] = v
	}
	cov["evaluations"] = r.evals.Load()
	cov["distinct_nontrivial"] = nd
	cov["rule"] = r.rule
	if len(r.samples) == 0 {
		r.samples = append(r.samples, "no sample recorded")
	}
	cov["samples"] = r.samples
	cov["distinct_outcomes"] = len(r.outcomes)
	oc := map[string]int64{}
	keys := make([]string, 0, len(r.outcomes))
	for k := range r.outcomes {
		keys = append(keys, k)
	}
	sort.Strings(keys)
	for i, k := range keys {
		if i >= 40 {
			break
		}
		oc[k] = r.outcomes[k]
	}
	cov["outcomes"] = oc
	cov["exhaustive"] = len(r.nonExh) == 0
	if len(r.nonExh) > 0 {
		cov["not_exhaustive_because"] = r.nonExh
	}
	if len(r.notes) > 0 {
		cov["harness_notes"] = r.notes
	}
	if r.Level == "model_checking" {
		cov["states"] = r.states.Load()
		cov["transitions"] = r.transitions.Load()
		cov["traces_validated_against_impl"] = r.traces.Load()
	}
	cov["gomaxprocs"] = runtime.GOMAXPROCS(0)

	// replay files
	var sigs []string
	for s := range r.viols {
		sigs = append(sigs, s)
	}
	sort.Strings(sigs)
	var lines []string
	for _, s := range sigs {
		rec := r.viols[s]
		h := sha256.Sum256([]byte(rec.Kind + "\x00" + rec.Sig + "\x00" + string(rec.Params)))
		dir := filepath.Join(r.Out, "replays", r.Prop)
		_ = os.MkdirAll(dir, 0o755)
		p := filepath.Join(dir, hex.EncodeToString(h[:8])+".json")
		b, _ := json.MarshalIndent(rec, "", " ")
		if err := os.WriteFile(p, b, 0o644); err != nil {
			fmt.Fprintln(os.Stderr, "cannot write replay:", err)
		}
		fmt.Printf("violation: %s: %s\n", rec.Sig, trunc(rec.What, 600))
		lines = append(lines, fmt.Sprintf("VIOLATION property=%s replay=%s", r.Prop, p))
	}
	var ks []string
	for s := range r.knownHit {
		ks = append(ks, s)
	}
	sort.Strings(ks)
	for _, s := range ks {
		fmt.Printf("KNOWN-FINDING: property=%s %s [%s]\n", r.Prop, r.knownHit[s], s)
	}
	if ks == nil {
		ks = []string{}
	}
	cov["known_findings_seen"] = ks

	ev := map[string]any{
		"property_id": r.Prop,
		"tier":        r.Tier,
		"seed":        r.Seed,
		"level":       r.Level,
		"coverage":    cov,
		"assumptions": r.assume,
		"wall_s":      float64(int(wall*100)) / 100,
		"violations":  len(r.viols),
	}
	if r.assume == nil {
		ev["assumptions"] = []string{}
	}
	b, _ := json.MarshalIndent(ev, "", " ")
	_ = os.MkdirAll(filepath.Join(r.Out, "evidence"), 0o755)
	if err := os.WriteFile(filepath.Join(r.Out, "evidence", r.Prop+".json"), append(b, '\n'), 0o644); err != nil {
		fmt.Fprintln(os.Stderr, "cannot write evidence:", err)
	}
	fmt.Printf("%s %s: evaluations=%d distinct_nontrivial=%d outcomes=%d states=%d transitions=%d exhaustive=%v violations=%d known=%d wall=%.1fs\n",
		r.Prop, r.Tier, r.evals.Load(), nd, len(r.outcomes), r.states.Load(), r.transitions.Load(), len(r.nonExh) == 0, len(r.viols), len(ks), wall)
	if len(r.nonExh) > 0 {
		fmt.Println("not exhaustive:", strings.Join(r.nonExh, "; "))
	}
	for _, l := range lines {
		fmt.Println(l)
	}
	if len(lines) > 0 {
		r.exit(1)
	}
	r.exit(0)
}
