package mc

import (
	"crypto/rand"
	"crypto/sha256"
	"encoding/binary"
	"io"
	"runtime"
	"sync"
)

// Stream is a SHA-256 counter DRBG. One-byte reads (the ecdsa.MaybeReadByte
// coin) are answered from a side stream so that the main stream does not depend
// on the runtime coin.
type Stream struct {
	key   [32]byte
	ctr   uint64
	buf   []byte
	side  uint64
	Reads int // number of Read calls with len != 1
	Coins int // number of 1-byte reads
}

func NewStream(seed int64, label string) *Stream {
	h := sha256.New()
	var s [8]byte
	binary.BigEndian.PutUint64(s[:], uint64(seed))
	h.Write(s[:])
	h.Write([]byte(label))
	st := &Stream{}
	copy(st.key[:], h.Sum(nil))
	return st
}

func (s *Stream) block(ctr uint64, dom byte) []byte {
	var b [41]byte
	copy(b[:], s.key[:])
	binary.BigEndian.PutUint64(b[32:], ctr)
	b[40] = dom
	h := sha256.Sum256(b[:])
	return h[:]
}

func (s *Stream) Read(p []byte) (int, error) {
	if len(p) == 1 {
		s.Coins++
		p[0] = s.block(s.side, 1)[0]
		s.side++
		return 1, nil
	}
	s.Reads++
	n := 0
	for n < len(p) {
		if len(s.buf) == 0 {
			s.buf = s.block(s.ctr, 0)
			s.ctr++
		}
		c := copy(p[n:], s.buf)
		s.buf = s.buf[c:]
		n += c
	}
	return n, nil
}

// Bytes draws n bytes.
func (s *Stream) Bytes(n int) []byte {
	b := make([]byte, n)
	s.Read(b)
	return b
}

// Fill returns n deterministic filler bytes for (seed, label) without touching
// any stream state.
func Fill(seed int64, label string, n int) []byte {
	return NewStream(seed, label).Bytes(n)
}

// goid-keyed reader installed in crypto/rand.Reader -----------------------------------------

var (
	streams   sync.Map // goid -> *Stream
	drbgSeed  int64
	installed bool
)

type globalReader struct{}

func (globalReader) Read(p []byte) (int, error) {
	id := Goid()
	v, ok := streams.Load(id)
	if !ok {
		v, _ = streams.LoadOrStore(id, NewStream(drbgSeed, "unlabelled"))
	}
	return v.(*Stream).Read(p)
}

// InstallDRBG replaces crypto/rand.Reader by the per-goroutine DRBG.
func InstallDRBG(seed int64) {
	drbgSeed = seed
	rand.Reader = globalReader{}
	installed = true
}

// Entropy gives the calling goroutine a fresh stream for label; every draw from
// crypto/rand on this goroutine until the next call comes from it.
func Entropy(label string) *Stream {
	s := NewStream(drbgSeed, label)
	streams.Store(Goid(), s)
	return s
}

// SetStream installs an explicit stream for the calling goroutine.
func SetStream(s *Stream) { streams.Store(Goid(), s) }

// Goid returns the id of the calling goroutine.
func Goid() uint64 {
	var buf [40]byte
	n := runtime.Stack(buf[:], false)
	// "goroutine 123 ["
	var id uint64
	for i := 10; i < n; i++ {
		c := buf[i]
		if c < '0' || c > '9' {
			break
		}
		id = id*10 + uint64(c-'0')
	}
	return id
}

var _ io.Reader = globalReader{}
