package mc

import (
	"errors"
	"io"
)

// envx: the environment of pat-go is the entropy io.Reader. A FaultReader serves a
// positional DRBG stream (so that the bytes an operation finally obtains do not
// depend on how reads were chunked) and deviates from the default answer "deliver
// everything asked for" at the listed Read calls.

// Dev is one deviation: at non-coin Read call number Call deliver only K bytes and
// return error kind Err (0 = no error, i.e. a short read).
type Dev struct {
	Call int `json:"call"`
	K    int `json:"k"`
	Err  int `json:"err"` // 0 short read, 1 io.EOF, 2 io.ErrUnexpectedEOF, 3 custom error
}

var ErrInjected = errors.New("verif: injected entropy failure")

func devErr(k int) error {
	switch k {
	case 1:
		return io.EOF
	case 2:
		return io.ErrUnexpectedEOF
	case 3:
		return ErrInjected
	}
	return nil
}

// Rec is one observed Read call.
type Rec struct {
	Len  int    `json:"len"`
	N    int    `json:"n"`
	Err  string `json:"err,omitempty"`
	Coin bool   `json:"coin,omitempty"`
}

type FaultReader struct {
	main      *Stream
	side      *Stream
	devs      []Dev
	calls     int // non-coin calls so far
	total     int
	CoinFirst bool // a 1-byte request that is the very first call is the MaybeReadByte coin
	Log       []Rec
	Failed    bool // an error has been returned to the caller
	Delivered int  // main-stream bytes delivered
}

func NewFaultReader(seed int64, label string, devs []Dev) *FaultReader {
	return &FaultReader{main: NewStream(seed, label), side: NewStream(seed, label+"/coin"), devs: devs, CoinFirst: true}
}

func (f *FaultReader) Read(p []byte) (int, error) {
	first := f.total == 0
	f.total++
	if f.CoinFirst && first && len(p) == 1 {
		b := f.side.block(0, 1)
		p[0] = b[0]
		f.Log = append(f.Log, Rec{Len: 1, N: 1, Coin: true})
		return 1, nil
	}
	call := f.calls
	f.calls++
	for _, d := range f.devs {
		if d.Call == call {
			k := d.K
			if k > len(p) {
				k = len(p)
			}
			f.readMain(p[:k])
			err := devErr(d.Err)
			rec := Rec{Len: len(p), N: k}
			if err != nil {
				rec.Err = err.Error()
				f.Failed = true
			}
			f.Log = append(f.Log, rec)
			return k, err
		}
	}
	f.readMain(p)
	f.Log = append(f.Log, Rec{Len: len(p), N: len(p)})
	return len(p), nil
}

func (f *FaultReader) readMain(p []byte) {
	// bypass Stream.Read's 1-byte side-stream rule: always positional
	n := 0
	for n < len(p) {
		if len(f.main.buf) == 0 {
			f.main.buf = f.main.block(f.main.ctr, 0)
			f.main.ctr++
		}
		c := copy(p[n:], f.main.buf)
		f.main.buf = f.main.buf[c:]
		n += c
	}
	f.Delivered += len(p)
}

// CoinSeen reports whether the first call was a 1-byte coin read.
func (f *FaultReader) CoinSeen() bool { return len(f.Log) > 0 && f.Log[0].Coin }

// NonCoin returns the log without the coin record.
func (f *FaultReader) NonCoin() []Rec {
	if f.CoinSeen() {
		return f.Log[1:]
	}
	return f.Log
}

// ExploreFaults enumerates every deviation script with at most bound deviations,
// depth first with iterative structure: exec runs the operation under a script and
// returns the non-coin Read log it observed; children deviate at a later call of
// that log. ks gives the byte positions tried for a request of the given length;
// errs the error kinds (0 = short read). exec is called once per script
// (including the empty default script). Returns the number of scripts executed.
func ExploreFaults(bound int, ks func(reqLen int) []int, errs []int, exec func(devs []Dev) []Rec) int {
	n := 0
	var rec func(devs []Dev)
	rec = func(devs []Dev) {
		log := exec(devs)
		n++
		if len(devs) >= bound {
			return
		}
		start := 0
		if len(devs) > 0 {
			start = devs[len(devs)-1].Call + 1
		}
		for j := start; j < len(log); j++ {
			for _, k := range ks(log[j].Len) {
				if k >= log[j].Len {
					continue
				}
				for _, e := range errs {
					child := append(append([]Dev{}, devs...), Dev{Call: j, K: k, Err: e})
					rec(child)
				}
			}
		}
	}
	rec(nil)
	return n
}

// AllK returns 0..n-1; EdgeK returns {0,1,n-1}.
func AllK(n int) []int {
	out := make([]int, n)
	for i := range out {
		out[i] = i
	}
	return out
}

func EdgeK(n int) []int {
	m := map[int]bool{}
	var out []int
	for _, k := range []int{0, 1, n - 1} {
		if k >= 0 && k < n && !m[k] {
			m[k] = true
			out = append(out, k)
		}
	}
	return out
}
