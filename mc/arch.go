package mc

// The same check on a 32-bit build.
//
// Lengths on the wire are 62-bit; the code converts them to int. ./check builds some checks
// for GOARCH=386 as well (VERIF_BIN386) and the 64-bit run executes that program with the
// same tier and seed: whatever it reports is reported here, prefixed with [GOARCH=386].

import (
	"encoding/json"
	"fmt"
	"os"
	"os/exec"
	"path/filepath"
	"strconv"
	"strings"
)

type archP struct {
	Inner json.RawMessage `json:"replay_record_of_the_386_run"`
}

type innerRec struct {
	Sig  string `json:"signature"`
	What string `json:"what"`
}

// IsArchChild reports whether this process is the 32-bit child of a 64-bit run.
func IsArchChild() bool { return os.Getenv("VERIF_IS_CHILD") != "" }

func bin386() string {
	if strconv.IntSize != 64 || IsArchChild() {
		return ""
	}
	return os.Getenv("VERIF_BIN386")
}

func childEnv(out string) []string {
	env := append([]string{}, os.Environ()...)
	return append(env, "VERIF_IS_CHILD=1", "VERIF_OUT="+out)
}

// RegisterArch386 registers the replay function of violations found by the 32-bit pass.
func (r *Run) RegisterArch386() {
	r.registerArchCrash()
	r.RegisterReplay("arch386", func(pj json.RawMessage) *Viol {
		bin := bin386()
		if bin == "" {
			return nil
		}
		var p archP
		if json.Unmarshal(pj, &p) != nil {
			return nil
		}
		dir, err := os.MkdirTemp("", "verif-386-")
		if err != nil {
			return nil
		}
		defer os.RemoveAll(dir)
		f := filepath.Join(dir, "case.json")
		if os.WriteFile(f, p.Inner, 0o644) != nil {
			return nil
		}
		cmd := exec.Command(bin, "--replay", f)
		cmd.Env = childEnv(dir)
		out, _ := cmd.CombinedOutput()
		if cmd.ProcessState == nil || cmd.ProcessState.ExitCode() != 1 {
			return nil
		}
		var rec innerRec
		json.Unmarshal(p.Inner, &rec)
		for _, l := range strings.Split(string(out), "\n") {
			if strings.HasPrefix(l, "replay: "+rec.Sig) {
				return &Viol{Sig: "[GOARCH=386] " + rec.Sig, What: strings.TrimPrefix(l, "replay: ")}
			}
		}
		return nil
	})
}

// crashInCodeUnderTest looks at the output of a crashed child: if it is a Go panic whose innermost
// non-runtime frame belongs to pat-go, it returns that function and the panic line.
func crashInCodeUnderTest(out string) (site, line string) {
	lines := strings.Split(out, "\n")
	for i, l := range lines {
		if !strings.HasPrefix(l, "panic: ") {
			continue
		}
		line = l
		for _, f := range lines[i+1:] {
			f = strings.TrimSpace(f)
			if f == "" || strings.HasPrefix(f, "goroutine ") || strings.HasPrefix(f, "/") || strings.HasPrefix(f, "[") {
				continue
			}
			if strings.HasPrefix(f, "runtime.") || strings.HasPrefix(f, "runtime/") || strings.HasPrefix(f, "internal/") || strings.HasPrefix(f, "panic(") {
				continue
			}
			if strings.HasPrefix(f, "github.com/cloudflare/pat-go/") {
				fn := f
				if j := strings.LastIndex(fn, "("); j > 0 {
					fn = fn[:j]
				}
				return strings.TrimPrefix(fn, "github.com/cloudflare/"), line
			}
			return "", ""
		}
	}
	return "", ""
}

func (r *Run) registerArchCrash() {
	r.RegisterReplay("arch386-crash", func(pj json.RawMessage) *Viol {
		bin := bin386()
		if bin == "" {
			return nil
		}
		var p map[string]string
		json.Unmarshal(pj, &p)
		dir, err := os.MkdirTemp("", "verif-386-")
		if err != nil {
			return nil
		}
		defer os.RemoveAll(dir)
		cmd := exec.Command(bin, p["tier"])
		cmd.Env = childEnv(dir)
		out, _ := cmd.CombinedOutput()
		if cmd.ProcessState == nil || cmd.ProcessState.ExitCode() != 2 {
			return nil
		}
		if site, line := crashInCodeUnderTest(string(out)); site != "" {
			return &Viol{Sig: "[GOARCH=386] the check program crashes inside " + site, What: line}
		}
		return nil
	})
}

// RunArch386 executes the 32-bit build of this check (if this is the 64-bit parent) and takes
// over its violations and a summary of its coverage.
func (r *Run) RunArch386() { r.RunArch386Tier(r.Tier) }

// RunArch386Tier is RunArch386 with the 32-bit program run at the given tier.
func (r *Run) RunArch386Tier(tier string) {
	if strconv.IntSize != 64 || IsArchChild() {
		return
	}
	bin := bin386()
	if bin == "" {
		r.Note("no 32-bit build of this check available (VERIF_BIN386 unset): the GOARCH=386 pass was not run")
		r.NotExhaustive("GOARCH=386 pass not run")
		return
	}
	dir, err := os.MkdirTemp("", "verif-386-")
	if err != nil {
		r.NotExhaustive("GOARCH=386 pass not run: " + err.Error())
		return
	}
	defer os.RemoveAll(dir)
	cmd := exec.Command(bin, tier)
	cmd.Env = childEnv(dir)
	out, _ := cmd.CombinedOutput()
	code := -1
	if cmd.ProcessState != nil {
		code = cmd.ProcessState.ExitCode()
	}
	if code == 2 {
		if site, line := crashInCodeUnderTest(string(out)); site != "" {
			// the 32-bit program died in an unrecovered panic whose innermost frame is pat-go's
			r.Violation("arch386-crash", map[string]string{"tier": tier}, &Viol{Sig: "[GOARCH=386] the check program crashes inside " + site, What: line})
			r.NotExhaustive("the GOARCH=386 pass crashed")
			return
		}
	}
	if code != 0 && code != 1 {
		r.Note("the GOARCH=386 build did not run (exit %d): %s", code, trunc(strings.TrimSpace(string(out)), 300))
		r.NotExhaustive("GOARCH=386 pass did not run on this machine")
		return
	}
	var ev struct {
		Coverage map[string]any `json:"coverage"`
	}
	if b, err := os.ReadFile(filepath.Join(dir, "evidence", r.Prop+".json")); err == nil && json.Unmarshal(b, &ev) == nil {
		r.Set("goarch_386_run", map[string]any{"tier": tier, "evaluations": ev.Coverage["evaluations"], "distinct_nontrivial": ev.Coverage["distinct_nontrivial"], "outcomes": ev.Coverage["outcomes"], "exhaustive": ev.Coverage["exhaustive"]})
		if ex, _ := ev.Coverage["exhaustive"].(bool); !ex {
			r.NotExhaustive("the GOARCH=386 pass was not exhaustive")
		}
	} else {
		r.NotExhaustive("the GOARCH=386 pass left no evidence")
	}
	files, _ := filepath.Glob(filepath.Join(dir, "replays", r.Prop, "*.json"))
	for _, f := range files {
		b, err := os.ReadFile(f)
		if err != nil {
			continue
		}
		var rec innerRec
		if json.Unmarshal(b, &rec) != nil {
			continue
		}
		r.Violation("arch386", archP{Inner: b}, &Viol{Sig: "[GOARCH=386] " + rec.Sig, What: rec.What})
	}
	r.Case("goarch-386-pass", true, fmt.Sprintf("386-pass-exit-%d", code))
}
