// Package edref is a deliberately boring reference for edwards25519 written over
// math/big: affine points on -x^2 + y^2 = 1 + d x^2 y^2 (mod p = 2^255-19), the
// complete twisted-Edwards addition law, double-and-add, RFC 8032 point
// (de)compression and a plain RFC 8032 verifier. It shares no code with
// pat-go's ed25519 fork nor with the standard library's edwards25519.
//
// Shared by checks c14 and c15 (import path verif/checks/edref).
package edref

import (
	"crypto/sha512"
	"math/big"
)

var (
	P, _ = new(big.Int).SetString("7fffffffffffffffffffffffffffffffffffffffffffffffffffffffffffffed", 16)
	// L = 2^252 + 27742317777372353535851937790883648493
	L = func() *big.Int {
		c, _ := new(big.Int).SetString("27742317777372353535851937790883648493", 10)
		return c.Add(c, new(big.Int).Lsh(big.NewInt(1), 252))
	}()
	// D = -121665/121666 mod p
	D = func() *big.Int {
		inv := new(big.Int).ModInverse(big.NewInt(121666), P)
		d := new(big.Int).Mul(big.NewInt(-121665), inv)
		return d.Mod(d, P)
	}()
	// sqrt(-1) = 2^((p-1)/4)
	sqrtM1 = func() *big.Int {
		e := new(big.Int).Sub(P, big.NewInt(1))
		e.Rsh(e, 2)
		return new(big.Int).Exp(big.NewInt(2), e, P)
	}()
	one = big.NewInt(1)
)

// Pt is an affine point; always reduced, 0 <= X,Y < p.
type Pt struct{ X, Y *big.Int }

func Identity() Pt { return Pt{big.NewInt(0), big.NewInt(1)} }

// Base is the RFC 8032 base point: y = 4/5, x even ("positive").
func Base() Pt {
	y := new(big.Int).ModInverse(big.NewInt(5), P)
	y.Mul(y, big.NewInt(4)).Mod(y, P)
	x, ok := recoverX(y, 0)
	if !ok {
		panic("edref: base point")
	}
	return Pt{x, y}
}

func mod(v *big.Int) *big.Int { return v.Mod(v, P) }

// OnCurve reports -x^2 + y^2 == 1 + d x^2 y^2.
func OnCurve(p Pt) bool {
	x2 := mod(new(big.Int).Mul(p.X, p.X))
	y2 := mod(new(big.Int).Mul(p.Y, p.Y))
	l := mod(new(big.Int).Sub(y2, x2))
	r := new(big.Int).Mul(x2, y2)
	r.Mod(r, P).Mul(r, D).Add(r, one)
	return l.Cmp(mod(r)) == 0
}

// Add is the complete addition law for a = -1:
//
//	x3 = (x1 y2 + y1 x2) / (1 + d x1 x2 y1 y2),  y3 = (y1 y2 + x1 x2) / (1 - d x1 x2 y1 y2)
func Add(a, b Pt) Pt {
	x1y2 := new(big.Int).Mul(a.X, b.Y)
	y1x2 := new(big.Int).Mul(a.Y, b.X)
	y1y2 := new(big.Int).Mul(a.Y, b.Y)
	x1x2 := new(big.Int).Mul(a.X, b.X)
	t := new(big.Int).Mul(mod(new(big.Int).Set(x1x2)), mod(new(big.Int).Set(y1y2)))
	t.Mod(t, P).Mul(t, D).Mod(t, P)
	nx := mod(new(big.Int).Add(x1y2, y1x2))
	ny := mod(new(big.Int).Add(y1y2, x1x2))
	dx := mod(new(big.Int).Add(one, t))
	dy := mod(new(big.Int).Sub(one, t))
	// one inversion for both denominators: 1/dx = dy/(dx dy), 1/dy = dx/(dx dy)
	inv := mod(new(big.Int).Mul(dx, dy))
	if inv.ModInverse(inv, P) == nil {
		panic("edref: addition of points that are not on the curve")
	}
	ix := mod(new(big.Int).Mul(inv, dy))
	iy := mod(new(big.Int).Mul(inv, dx))
	return Pt{mod(nx.Mul(nx, ix)), mod(ny.Mul(ny, iy))}
}

func Neg(a Pt) Pt {
	return Pt{mod(new(big.Int).Neg(a.X)), new(big.Int).Set(a.Y)}
}

func Equal(a, b Pt) bool { return a.X.Cmp(b.X) == 0 && a.Y.Cmp(b.Y) == 0 }

// Mul is left-to-right double-and-add with the non-negative integer k (not reduced:
// on torsion points k mod 8 matters, so the caller decides which representative).
func Mul(k *big.Int, p Pt) Pt {
	if k.Sign() < 0 {
		panic("edref: negative scalar")
	}
	r := Identity()
	for i := k.BitLen() - 1; i >= 0; i-- {
		r = Add(r, r)
		if k.Bit(i) == 1 {
			r = Add(r, p)
		}
	}
	return r
}

// Compress is RFC 8032 5.1.2: y little-endian, top bit = low bit of x.
func Compress(p Pt) []byte {
	out := LE(p.Y, 32)
	out[31] |= byte(p.X.Bit(0)) << 7
	return out
}

// recoverX returns the square root of (y^2-1)/(d y^2+1) whose low bit equals sign.
// When x = 0 the sign bit is ignored (the permissive rule every deployed decoder,
// including the standard library's, follows; RFC 8032 would reject sign=1).
func recoverX(y *big.Int, sign uint) (*big.Int, bool) {
	y2 := mod(new(big.Int).Mul(y, y))
	u := mod(new(big.Int).Sub(y2, one))
	v := new(big.Int).Mul(y2, D)
	v.Add(v, one).Mod(v, P)
	vi := new(big.Int).ModInverse(v, P)
	if vi == nil { // v == 0 cannot happen: -1/d is not a square
		return nil, false
	}
	x2 := mod(new(big.Int).Mul(u, vi))
	e := new(big.Int).Add(P, big.NewInt(3))
	e.Rsh(e, 3)
	x := new(big.Int).Exp(x2, e, P)
	chk := mod(new(big.Int).Mul(x, x))
	if chk.Cmp(x2) != 0 {
		x.Mul(x, sqrtM1).Mod(x, P)
		chk = mod(new(big.Int).Mul(x, x))
		if chk.Cmp(x2) != 0 {
			return nil, false
		}
	}
	if x.Sign() != 0 && x.Bit(0) != sign {
		x.Sub(P, x)
	}
	return x, true
}

// Decompress decodes 32 bytes the permissive way: the 255-bit y is reduced mod p
// (non-canonical y accepted), x = 0 with the sign bit set is accepted.
func Decompress(b []byte) (Pt, bool) {
	if len(b) != 32 {
		return Pt{}, false
	}
	c := append([]byte(nil), b...)
	sign := uint(c[31] >> 7)
	c[31] &= 0x7f
	y := mod(FromLE(c))
	x, ok := recoverX(y, sign)
	if !ok {
		return Pt{}, false
	}
	return Pt{x, y}, true
}

// FromLE / LE convert little-endian byte strings.
func FromLE(b []byte) *big.Int {
	r := make([]byte, len(b))
	for i := range b {
		r[len(b)-1-i] = b[i]
	}
	return new(big.Int).SetBytes(r)
}

func LE(v *big.Int, n int) []byte {
	be := make([]byte, n)
	v.FillBytes(be)
	for i, j := 0, n-1; i < j; i, j = i+1, j-1 {
		be[i], be[j] = be[j], be[i]
	}
	return be
}

// Torsion returns the eight points of order dividing 8, as multiples 0..7 of a
// generator of the torsion subgroup.
func Torsion() []Pt {
	// find a point of order exactly 8: take any curve point Q not in the prime-order
	// subgroup times L.
	for yv := int64(2); ; yv++ {
		x, ok := recoverX(big.NewInt(yv), 0)
		if !ok {
			continue
		}
		t := Mul(L, Pt{x, big.NewInt(yv)})
		t4 := Add(Add(t, t), Add(t, t))
		if Equal(t4, Identity()) { // order divides 4
			continue
		}
		out := []Pt{Identity()}
		for i := 1; i < 8; i++ {
			out = append(out, Add(out[i-1], t))
		}
		return out
	}
}

// Hram returns SHA-512(R || A || M) as an integer reduced mod L.
func Hram(rEnc, aEnc, msg []byte) *big.Int {
	h := sha512.New()
	h.Write(rEnc)
	h.Write(aEnc)
	h.Write(msg)
	k := FromLE(h.Sum(nil))
	return k.Mod(k, L)
}

// Verify is a plain RFC 8032 verifier. cofactored selects [8][S]B = [8]R + [8][k]A
// with decoded R (RFC 8032 5.1.7 as written); otherwise the cofactorless
// byte-comparison form compress([S]B - [k]A) == sig[:32] used by Go. Both demand a
// canonical S and a decodable A.
func Verify(pub, msg, sig []byte, cofactored bool) bool {
	if len(pub) != 32 || len(sig) != 64 {
		return false
	}
	a, ok := Decompress(pub)
	if !ok {
		return false
	}
	s := FromLE(sig[32:])
	if s.Cmp(L) >= 0 {
		return false
	}
	k := Hram(sig[:32], pub, msg)
	sb := Mul(s, Base())
	ka := Mul(k, a)
	if !cofactored {
		rr := Add(sb, Neg(ka))
		c := Compress(rr)
		for i := range c {
			if c[i] != sig[i] {
				return false
			}
		}
		return true
	}
	r, ok := Decompress(sig[:32])
	if !ok {
		return false
	}
	eight := big.NewInt(8)
	return Equal(Mul(eight, sb), Mul(eight, Add(r, ka)))
}
