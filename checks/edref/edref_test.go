package edref

import (
	"bytes"
	"crypto/ed25519"
	"crypto/sha512"
	"encoding/hex"
	"math/big"
	"testing"
)

func TestBaseAndOrder(t *testing.T) {
	b := Base()
	if !OnCurve(b) {
		t.Fatal("base not on curve")
	}
	if got := hex.EncodeToString(Compress(b)); got != "5866666666666666666666666666666666666666666666666666666666666666" {
		t.Fatalf("base encodes as %s", got)
	}
	if !Equal(Mul(L, b), Identity()) {
		t.Fatal("L*B != identity")
	}
	tor := Torsion()
	seen := map[string]bool{}
	for i, p := range tor {
		if !OnCurve(p) || !Equal(Mul(big.NewInt(8), p), Identity()) {
			t.Fatalf("torsion %d", i)
		}
		seen[hex.EncodeToString(Compress(p))] = true
		q, ok := Decompress(Compress(p))
		if !ok || !Equal(p, q) {
			t.Fatalf("torsion %d round trip", i)
		}
	}
	if len(seen) != 8 || !seen["0000000000000000000000000000000000000000000000000000000000000080"] || !seen["ecffffffffffffffffffffffffffffffffffffffffffffffffffffffffffff7f"] {
		t.Fatalf("torsion set %v", seen)
	}
}

func TestAgainstStdlib(t *testing.T) {
	seed := bytes.Repeat([]byte{7}, 32)
	priv := ed25519.NewKeyFromSeed(seed)
	pub := priv.Public().(ed25519.PublicKey)
	h := sha512.Sum512(seed)
	h[0] &= 248
	h[31] &= 63
	h[31] |= 64
	a := Mul(FromLE(h[:32]), Base())
	if !bytes.Equal(Compress(a), pub) {
		t.Fatal("public key differs")
	}
	msg := []byte("hello")
	sig := ed25519.Sign(priv, msg)
	if !Verify(pub, msg, sig, false) || !Verify(pub, msg, sig, true) {
		t.Fatal("honest signature rejected")
	}
	sig[3] ^= 1
	if Verify(pub, msg, sig, false) || Verify(pub, msg, sig, true) {
		t.Fatal("tampered signature accepted")
	}
}
