// C07: the rate-limited issuer signs only authentic, untampered requests.
//
// Bounded exhaustive enumeration of encoded requests handed to the real
// RateLimitedIssuer.Evaluate: honest requests (accepted), every single-bit change,
// every truncation and several extensions of each, and hand-crafted requests (built
// with go-hpke and crypto/ecdsa, independently of the client code) for every
// foreign-key combination the statement lists: unregistered origins, encryption to
// another issuer's name key, associated data bound to another request key, signature
// by another key or over other contents, missing / short signature.
package main

import (
	"bytes"
	stdecdsa "crypto/ecdsa"
	"crypto/elliptic"
	"crypto/sha256"
	"crypto/sha512"
	"encoding/hex"
	"encoding/json"
	"fmt"
	"math/big"

	hpke "github.com/cisco/go-hpke"
	"github.com/cloudflare/pat-go/tokens/type3"

	"verif/mc"
	"verif/px"
)

var seedv int64

// Case: a scenario (which issuer, which construction) plus a mutation of the encoded request.
type Case struct {
	Issuer        int    `json:"issuer"`        // issuer index that evaluates
	Build         string `json:"build"`         // construction name
	Mut           string `json:"mutation"`      // none | bit | trunc | ext
	Arg           int    `json:"arg,omitempty"` // bit index / length / extension variant
	Expect        string `json:"expect"`        // accept | reject
	Variant       int    `json:"variant,omitempty"`
	AccessorFirst bool   `json:"origin_index_key_looked_up_first,omitempty"`
	AfterHonest   bool   `json:"after_an_accepted_request_on_a_private_issuer,omitempty"` // a private issuer object first serves an honest request, then this one
}

const registered = "origin.example"

type world struct {
	w   []*px.W3
	att *type3.RateLimitedAttester
}

func buildWorld() *world { return buildWorldLabel("c07-world") }

func buildWorldLabel(label string) *world {
	mc.Entropy(label)
	wd := &world{}
	for i := 0; i < 3; i++ {
		w := px.NewW3(i % 2) // issuers 0 and 2 share the RSA key but have different name keys
		if err := w.Issuer.AddOrigin(registered); err != nil {
			panic(err)
		}
		if i == 1 {
			w.Issuer.AddOrigin("")
			w.Issuer.AddOrigin("second.example")
		}
		wd.w = append(wd.w, w)
	}
	return wd
}

func p384Key(label string) *stdecdsa.PrivateKey {
	c := elliptic.P384()
	d := new(big.Int).SetBytes(mc.Fill(seedv, "key-"+label, 56))
	d.Mod(d, new(big.Int).Sub(c.Params().N, big.NewInt(1)))
	d.Add(d, big.NewInt(1))
	x, y := c.ScalarBaseMult(d.Bytes())
	return &stdecdsa.PrivateKey{PublicKey: stdecdsa.PublicKey{Curve: c, X: x, Y: y}, D: d}
}

func compress(k *stdecdsa.PrivateKey) []byte {
	return elliptic.MarshalCompressed(elliptic.P384(), k.X, k.Y)
}

// knobs of a hand-crafted request
type knobs struct {
	encTo       type3.EncapKey // HPKE recipient
	aadKey      type3.EncapKey // key whose id / suite ids / hash go into the associated data
	aadReqKey   []byte
	outerReqKey []byte
	outerNameID []byte
	signer      *stdecdsa.PrivateKey
	signOther   bool // sign a message that differs from the request's contents
	origin      string
	blindedMsg  []byte
	noSig       bool
	sigLen      int // >0: cut the signature to this length
	innerCut    int // >0: encrypt only the first innerCut bytes of the inner request
	aadForm     int // 0: as specified; 1: without the request key; 2: empty; 3: without the name-key id; 4: request key only
	cutEnc      bool
	encLen      int // with cutEnc: the encrypted part (encapsulated key || ciphertext) is cut to this length, framing and signature consistent
}

func nameKeyID(k type3.EncapKey) []byte {
	h := sha256.Sum256(k.Marshal())
	return h[:]
}

func craft(k knobs, label string) []byte {
	id, suite, pk := k.encTo.VerifParts()
	_ = id
	aid, asuite, _ := k.aadKey.VerifParts()
	enc, ctx, err := hpke.SetupBaseS(suite, mc.NewStream(seedv, "hpke-"+label), pk, []byte("TokenRequest"))
	if err != nil {
		panic(err)
	}
	aad := []byte{aid}
	aad = append(aad, byte(asuite.KEM.ID()>>8), byte(asuite.KEM.ID()), byte(asuite.KDF.ID()>>8), byte(asuite.KDF.ID()), byte(asuite.AEAD.ID()>>8), byte(asuite.AEAD.ID()))
	aad = append(aad, 0x00, 0x03)
	aad = append(aad, k.aadReqKey...)
	aad = append(aad, nameKeyID(k.aadKey)...)
	inner := type3.VerifNewInner(0x5a, k.blindedMsg, type3.VerifPad(k.origin))
	pt := inner.Marshal()
	if k.innerCut > 0 {
		pt = pt[:k.innerCut]
	}
	switch k.aadForm {
	case 1:
		aad = append(append([]byte{}, aad[:9]...), nameKeyID(k.aadKey)...)
	case 2:
		aad = nil
	case 3:
		aad = append([]byte{}, aad[:len(aad)-32]...)
	case 4:
		aad = append([]byte{}, k.aadReqKey...)
	}
	ct := ctx.Seal(aad, pt)
	encrypted := append(append([]byte{}, enc...), ct...)
	if k.cutEnc {
		encrypted = encrypted[:k.encLen]
	}
	msg := []byte{0x00, 0x03}
	msg = append(msg, k.outerReqKey...)
	msg = append(msg, k.outerNameID...)
	msg = append(msg, byte(len(encrypted)>>8), byte(len(encrypted)))
	msg = append(msg, encrypted...)
	out := append([]byte{}, msg...)
	if k.noSig {
		return out
	}
	tbs := msg
	if k.signOther {
		tbs = append([]byte{}, msg...)
		tbs[len(tbs)-1] ^= 1
	}
	d := sha512.Sum384(tbs)
	r, s, err := stdecdsa.Sign(mc.NewStream(seedv, "sign-"+label), k.signer, d[:])
	if err != nil {
		panic(err)
	}
	sig := make([]byte, 96)
	r.FillBytes(sig[:48])
	s.FillBytes(sig[48:])
	if k.sigLen > 0 {
		sig = sig[:k.sigLen]
	}
	return append(out, sig...)
}

// construct returns the encoded request of a scenario, and the client state when the
// scenario is an honest client request (so that an accepted response can be finalized).
func (wd *world) construct(c Case) ([]byte, *type3.RateLimitedTokenRequestState) {
	w := wd.w[c.Issuer]
	lbl := fmt.Sprintf("%s-%d-%d", c.Build, c.Issuer, c.Variant)
	if c.Build == "crafted-accepted-request-replayed-under-another-request-key" {
		lbl = fmt.Sprintf("%s-%d-%d", "crafted-consistent", c.Issuer, c.Variant) // the very bytes the issuer has just served
	}
	honestArgs := func(origin string) px.T3Args {
		return px.T3Args{Secret: mc.Fill(seedv, "secret-"+lbl, 48), Blind: mc.Fill(seedv, "blind-"+lbl, 48), Challenge: mc.Fill(seedv, "chal-"+lbl, 32), Nonce: mc.Fill(seedv, "nonce-"+lbl, 32), Origin: origin}
	}
	nk, err := w.ClientNameKey()
	if err != nil {
		panic(err)
	}
	other := wd.w[(c.Issuer+1)%len(wd.w)]
	onk, _ := other.ClientNameKey()
	rk := p384Key("rk-" + lbl)
	rk2 := p384Key("rk2-" + lbl)
	msg := mc.Fill(seedv, "blinded-"+lbl, 256)
	msg[0] &= 0x3f // below the modulus
	base := knobs{encTo: nk, aadKey: nk, aadReqKey: compress(rk), outerReqKey: compress(rk), outerNameID: nameKeyID(nk), signer: rk, origin: registered, blindedMsg: msg}
	switch c.Build {
	case "honest-client":
		mc.Entropy("c07-" + lbl)
		st, err := w.Create(honestArgs(registered))
		if err != nil {
			panic(err)
		}
		return append([]byte{}, st.Request().Marshal()...), &st
	case "honest-client-unregistered-origin":
		names := honestUnregistered
		mc.Entropy("c07-" + lbl)
		st, err := w.Create(honestArgs(names[c.Variant]))
		if err != nil {
			panic(err)
		}
		return append([]byte{}, st.Request().Marshal()...), nil
	case "honest-client-for-other-issuer":
		// created for the other issuer (its name key, its token key), delivered to this one
		mc.Entropy("c07-" + lbl)
		st, err := other.Create(honestArgs(registered))
		if err != nil {
			panic(err)
		}
		return append([]byte{}, st.Request().Marshal()...), nil
	case "crafted-consistent":
		return craft(base, lbl), nil
	case "crafted-encrypted-to-other-name-key":
		k := base
		k.encTo, k.aadKey, k.outerNameID = onk, onk, nameKeyID(onk)
		return craft(k, lbl), nil
	case "crafted-encrypted-to-other-name-key-with-victims-name-key-id":
		k := base
		k.encTo = onk // recipient is the other issuer; everything else names this issuer
		return craft(k, lbl), nil
	case "crafted-wrong-outer-name-key-id":
		k := base
		k.outerNameID = nameKeyID(onk) // decrypts fine (AAD uses the issuer's own id) - the field is only covered by the signature
		return craft(k, lbl), nil
	case "crafted-aad-bound-to-other-request-key":
		k := base
		k.aadReqKey = compress(rk2)
		return craft(k, lbl), nil
	case "crafted-signed-by-other-key":
		k := base
		k.signer = rk2
		return craft(k, lbl), nil
	case "crafted-signature-over-other-contents":
		k := base
		k.signOther = true
		return craft(k, lbl), nil
	case "crafted-no-signature":
		k := base
		k.noSig = true
		return craft(k, lbl), nil
	case "crafted-short-signature":
		k := base
		k.sigLen = []int{1, 47, 48, 95}[c.Variant]
		return craft(k, lbl), nil
	case "crafted-unregistered-origin":
		k := base
		k.origin = craftedUnregistered[c.Variant]
		return craft(k, lbl), nil
	case "crafted-inner-request-truncated":
		k := base
		k.innerCut = []int{1, 100, 257, 258}[c.Variant]
		return craft(k, lbl), nil
	case "crafted-accepted-request-replayed-under-another-request-key":
		// the ciphertext of a request the issuer has just accepted, offered again with another request
		// key in the outer request and a valid signature by THAT key: the associated data no longer
		// matches, decryption must fail
		k := base
		k.outerReqKey, k.signer = compress(rk2), rk2
		return craft(k, lbl), nil
	case "crafted-associated-data-of-another-shape":
		// sealed with associated data that leave something out (the request key, the name-key id,
		// everything): otherwise consistent and signed; the issuer's own AAD must not open it
		k := base
		k.aadForm = c.Variant + 1
		return craft(k, lbl), nil
	case "crafted-short-encrypted-part":
		// parses completely, correctly framed and signed, but the encrypted part is shorter than an
		// encapsulated key (32 bytes) or than key + AEAD tag (48 bytes)
		k := base
		k.cutEnc, k.encLen = true, shortEncLens[c.Variant]
		return craft(k, lbl), nil
	case "crafted-blinded-message-ge-modulus":
		k := base
		k.blindedMsg = bytes.Repeat([]byte{0xff}, 256)
		return craft(k, lbl), nil
	}
	panic("unknown build " + c.Build)
}

func mutate(b []byte, c Case) []byte {
	switch c.Mut {
	case "bit":
		o := append([]byte{}, b...)
		o[c.Arg/8] ^= 1 << (c.Arg % 8)
		return o
	case "trunc":
		return append([]byte{}, b[:c.Arg]...)
	case "ext":
		ext := [][]byte{{0}, {0xff}, make([]byte, 2), make([]byte, 32), make([]byte, 96)}[c.Arg]
		return append(append([]byte{}, b...), ext...)
	}
	return b
}

var honestUnregistered = []string{"origin.exampl", "origin.example.", "origin.examplf", "Origin.example", "origin.example\x00a", "x", "origin.example/", "second.example",
	"origin.example\x07", "origin.example\xff", "origin.example\x7f", "origin.example ", "origin.\u200bexample", "*.example", "origin.example:443"}
var craftedUnregistered = []string{"origin.exampl", "origin.example.", "", "other.example"}

var shortEncLens = []int{0, 1, 16, 31, 32, 33, 47, 48, 49}

var wd *world

func run(c Case) (string, *mc.Viol) {
	wd := wd
	var firstResp, firstKey, firstRespCopy, firstKeyCopy, hbuf []byte
	if c.AfterHonest {
		// a private issuer (same keys and registrations, deterministic name key): it serves an honest
		// request first; whatever it remembers of that must not let the next request through
		wd = buildWorldLabel("c07-world")
		hc := Case{Issuer: c.Issuer, Build: "honest-client", Mut: "none", Expect: "accept", Variant: 7}
		if c.Mut != "none" {
			// a mutation of an accepted request: the issuer first serves exactly the untampered original
			hc = c
			hc.Mut, hc.Arg, hc.Expect, hc.AfterHonest = "none", 0, "accept", false
		}
		if c.Build == "crafted-accepted-request-replayed-under-another-request-key" {
			hc = Case{Issuer: c.Issuer, Build: "crafted-consistent", Mut: "none", Expect: "accept", Variant: c.Variant}
		}
		if c.Build == "honest-client-for-other-issuer" {
			// the request is first served by the issuer it was made for (same process), then offered here
			oi := (c.Issuer + 1) % len(wd.w)
			oreq, _ := wd.construct(c)
			mc.Entropy("c07-eval-by-the-right-issuer")
			if _, _, err := wd.w[oi].Issuer.Evaluate(append([]byte{}, oreq...)); err != nil {
				return "other-issuer-rejects-its-own-request", &mc.Viol{Sig: "issuer rejects an authentic request: honest-client", What: err.Error()}
			}
		}
		hreq, _ := wd.construct(hc)
		hbuf = append([]byte{}, hreq...)
		mc.Entropy("c07-eval-honest-first")
		hresp, hbrk, err := wd.w[c.Issuer].Issuer.Evaluate(hbuf)
		if err != nil {
			return "honest-first-rejected", &mc.Viol{Sig: "issuer rejects an authentic request: honest-client", What: err.Error()}
		}
		firstResp, firstKey = hresp, hbrk
		firstRespCopy, firstKeyCopy = append([]byte{}, hresp...), append([]byte{}, hbrk...)
	}
	if c.AccessorFirst {
		// the operator asks the (private) issuer for the index key of the very name the request will
		// carry: looking a name up must not register it
		wd = buildWorldLabel("c07-world")
		for _, name := range append(append([]string{}, honestUnregistered...), craftedUnregistered...) {
			_ = mc.Catch(func() { _ = wd.w[c.Issuer].Issuer.OriginIndexKey(name) })
		}
	}
	req, st := wd.construct(c)
	in := mutate(req, c)
	if hbuf != nil && len(in) <= len(hbuf) {
		// the issuer's caller receives requests into ONE buffer: this request overwrites the
		// honest one it has just served
		copy(hbuf, in)
		in = hbuf[:len(in)]
	}
	mc.Entropy(fmt.Sprintf("c07-eval-%s-%d-%s-%d", c.Build, c.Issuer, c.Mut, c.Arg))
	var resp, brk []byte
	var err error
	if p := mc.Catch(func() { resp, brk, err = wd.w[c.Issuer].Issuer.Evaluate(in) }); p != "" {
		return "panic", &mc.Viol{Sig: "issuer Evaluate panics: " + c.Build + "/" + c.Mut, What: p}
	}
	if !bytes.Equal(firstResp, firstRespCopy) || !bytes.Equal(firstKey, firstKeyCopy) {
		return "earlier-output-changed", &mc.Viol{Sig: "the outputs of an earlier Evaluate changed when the next request was evaluated", What: c.Build + "/" + c.Mut}
	}
	site := c.Build
	if c.Mut != "none" {
		site = c.Build + " + " + map[string]string{"bit": "single-bit change", "trunc": "truncation", "ext": "extension"}[c.Mut]
	}
	if c.Expect == "reject" {
		if err == nil {
			return "accept(!)", &mc.Viol{Sig: "issuer returns a response for a request it must reject: " + site, What: fmt.Sprintf("issuer %d, %s arg %d: Evaluate returned nil error and a %d-byte response", c.Issuer, c.Mut, c.Arg, len(resp))}
		}
		if resp != nil || brk != nil {
			return "reject-with-output", &mc.Viol{Sig: "issuer returns output together with an error: " + site, What: fmt.Sprintf("resp %d bytes, key %d bytes", len(resp), len(brk))}
		}
		return "reject:" + c.Build + "/" + c.Mut, nil
	}
	if err != nil {
		return "reject(!)", &mc.Viol{Sig: "issuer rejects an authentic request: " + site, What: err.Error()}
	}
	if st != nil {
		tok, err := st.FinalizeToken(resp)
		if err != nil {
			return "accept-but-unusable", &mc.Viol{Sig: "response to an authentic request does not finalize", What: err.Error()}
		}
		if err := px.VerifyRSAToken(&wd.w[c.Issuer].Key.PublicKey, tok.Marshal()); err != nil {
			return "accept-but-invalid", &mc.Viol{Sig: "response to an authentic request yields an invalid token", What: err.Error()}
		}
	}
	if len(brk) != 49 {
		return "accept-bad-key", &mc.Viol{Sig: "accepted request without a blinded request key", What: fmt.Sprint(len(brk))}
	}
	return "accept:" + c.Build, nil
}

func main() {
	r := mc.Start("C07", "exploration")
	seedv = r.Seed
	mc.InstallDRBG(r.Seed)
	wd = buildWorld()
	r.RegisterReplay("eval", func(pj json.RawMessage) *mc.Viol {
		var c Case
		json.Unmarshal(pj, &c)
		_, v := run(c)
		return v
	})
	if r.IsReplay() {
		r.DoReplay()
	}
	nIss := mc.Pick(r, 2, 3)
	var cases []Case
	for is := 0; is < nIss; is++ {
		// accepted requests and every single-bit change / truncation / extension of them
		for _, b := range []string{"honest-client", "crafted-consistent"} {
			nv := mc.Pick(r, 1, 2)
			if b == "crafted-consistent" && !r.Thorough() && is > 0 {
				nv = 0
			}
			for v := 0; v < nv; v++ {
				base := Case{Issuer: is, Build: b, Mut: "none", Expect: "accept", Variant: v}
				cases = append(cases, base)
				req, _ := wd.construct(base)
				for i := 0; i < len(req)*8; i++ {
					cases = append(cases, Case{Issuer: is, Build: b, Mut: "bit", Arg: i, Expect: "reject", Variant: v})
				}
				for i := 0; i < len(req); i++ {
					cases = append(cases, Case{Issuer: is, Build: b, Mut: "trunc", Arg: i, Expect: "reject", Variant: v})
				}
				for i := 0; i < 5; i++ {
					cases = append(cases, Case{Issuer: is, Build: b, Mut: "ext", Arg: i, Expect: "reject", Variant: v})
				}
			}
		}
		for v := 0; v < len(honestUnregistered); v++ {
			exp := "reject"
			if v == 7 && is == 1 {
				exp = "accept" // issuer 1 registered second.example as well
			}
			cases = append(cases, Case{Issuer: is, Build: "honest-client-unregistered-origin", Mut: "none", Expect: exp, Variant: v})
		}
		cases = append(cases, Case{Issuer: is, Build: "honest-client-for-other-issuer", Mut: "none", Expect: "reject"})
		for _, b := range []string{"crafted-encrypted-to-other-name-key", "crafted-encrypted-to-other-name-key-with-victims-name-key-id", "crafted-aad-bound-to-other-request-key",
			"crafted-signed-by-other-key", "crafted-signature-over-other-contents", "crafted-no-signature", "crafted-blinded-message-ge-modulus"} {
			for v := 0; v < 2; v++ {
				cases = append(cases, Case{Issuer: is, Build: b, Mut: "none", Expect: "reject", Variant: v})
			}
		}
		for v := 0; v < 4; v++ {
			cases = append(cases, Case{Issuer: is, Build: "crafted-associated-data-of-another-shape", Mut: "none", Expect: "reject", Variant: v})
		}
		for v := range shortEncLens {
			cases = append(cases, Case{Issuer: is, Build: "crafted-short-encrypted-part", Mut: "none", Expect: "reject", Variant: v})
		}
		for v := 0; v < 4; v++ {
			cases = append(cases, Case{Issuer: is, Build: "crafted-short-signature", Mut: "none", Expect: "reject", Variant: v})
			exp := "reject"
			if v == 2 && is == 1 {
				exp = "accept" // issuer 1 registered the empty origin name
			}
			cases = append(cases, Case{Issuer: is, Build: "crafted-unregistered-origin", Mut: "none", Expect: exp, Variant: v})
			cases = append(cases, Case{Issuer: is, Build: "crafted-inner-request-truncated", Mut: "none", Expect: "reject", Variant: v})
		}
	}
	for is := 0; is < nIss; is++ {
		for v := 0; v < 2; v++ {
			cases = append(cases, Case{Issuer: is, Build: "crafted-accepted-request-replayed-under-another-request-key", Mut: "none", Expect: "reject", Variant: v, AfterHonest: true})
		}
		cases = append(cases, Case{Issuer: is, Build: "honest-client-for-other-issuer", Mut: "none", Expect: "reject", Variant: 1, AfterHonest: true})
	}
	// unregistered origins again, after the operator looked their index keys up on a private issuer
	for v := 0; v < 7; v++ {
		cases = append(cases, Case{Issuer: 0, Build: "honest-client-unregistered-origin", Mut: "none", Expect: "reject", Variant: v, AccessorFirst: true})
	}
	for _, v := range []int{0, 1, 3} {
		cases = append(cases, Case{Issuer: 0, Build: "crafted-unregistered-origin", Mut: "none", Expect: "reject", Variant: v, AccessorFirst: true})
	}
	// the rejecting classes again, each offered to a private issuer that has just served an honest request
	n0 := len(cases)
	for i := 0; i < n0; i++ {
		c := cases[i]
		if c.Issuer != 0 || c.Expect != "reject" || c.AfterHonest || c.AccessorFirst {
			continue
		}
		if c.Mut == "bit" && c.Arg%16 != 3 || c.Mut == "trunc" && c.Arg%16 != 5 {
			continue
		}
		c.AfterHonest = true
		cases = append(cases, c)
	}
	r.SetRule("per issuer: honest client requests and hand-crafted consistent requests (accepted), every single-bit change, every truncation and 5 extensions of each; hand-crafted and client-made requests for each rejecting class of the statement (unregistered / similar origin names, encryption to another issuer's name key with and without the victim's name-key id, associated data bound to another request key, signature by another key or over other contents, missing / short signature, correctly framed and signed encrypted part of 0..49 bytes, truncated inner request, blinded message >= modulus). Cases are distinct (build, issuer, mutation) tuples; all are non-trivial")
	r.Assume("crafted requests are assembled with go-hpke and crypto/ecdsa directly, independent of the client code; their expected verdict follows from their construction",
		"an issuer that registered the empty origin name serves a request whose padded origin is all zero (the statement excludes names ending in a zero byte only)",
		"the outer name-key id is covered by the signature only; a crafted request whose outer name-key id names another key but is otherwise consistent is not in a rejecting class of the statement and is not judged")
	r.Set("issuers", nIss)
	r.Par(len(cases), func(i int) {
		if r.OutOfTime() {
			r.NotExhaustive("time budget")
			return
		}
		out, v := run(cases[i])
		if v != nil {
			r.Violation("eval", cases[i], v)
		}
		b, _ := json.Marshal(cases[i])
		r.Case(string(b), true, out)
		if i%2500 == 3 {
			r.Sample(cases[i])
		}
	})
	_ = hex.EncodeToString
	r.Finish()
}
