// C02: a client only ever outputs tokens that verify and belong to its own request.
//
// Bounded exhaustive enumeration of responses handed to the real client finalization
// functions of all four token types: every single-bit flip, every truncation and
// three extensions of the honest response; the full matrix "response for request j
// given to the state of request i"; the full matrix "evaluated under key b, finalized
// by a client pinned to key a"; for type 5 every sequence (permutation, omission,
// duplication) of the evaluated elements, both spliced into the honest response and
// freshly evaluated (with a fresh valid proof) by the real key. Semantic oracle:
// finalization returns an error, or every token it returns verifies under the pinned
// key with an independent verifier and carries the request's nonce, challenge digest
// and key id.
package main

import (
	"encoding/json"
	"fmt"
	"os"

	"crypto/rsa"
	"sync"

	"github.com/cloudflare/circl/oprf"
	"github.com/cloudflare/pat-go/tokens"
	"github.com/cloudflare/pat-go/tokens/type3"
	"github.com/cloudflare/pat-go/tokens/type5"
	"github.com/cloudflare/pat-go/util"

	"verif/mc"
	"verif/px"
)

var seedv int64

type Case struct {
	T          int    `json:"type"`
	KeyA       int    `json:"client_key"`   // key the request was created for
	KeyB       int    `json:"issuer_key"`   // key that evaluates
	ReqI       int    `json:"state_of"`     // request whose state finalizes
	ReqJ       int    `json:"response_for"` // request that was evaluated
	Mut        string `json:"mutation"`     // none | bit | trunc | ext | elems | reeval
	Arg        int    `json:"arg,omitempty"`
	Map        []int  `json:"element_map,omitempty"` // type 5: output position -> original element index
	N          int    `json:"batch,omitempty"`
	Salt       int    `json:"salt_kind,omitempty"`                // type 2: 0 = CreateTokenRequest; k>0 = CreateTokenRequestWithBlind with a salt of saltLens[k-1] bytes
	ThenHonest bool   `json:"then_the_honest_response,omitempty"` // the mutated response is offered first (and refused); judged is the finalization of the HONEST response on the same state afterwards
	After      bool   `json:"after_honest_finalize,omitempty"`    // the same request state has finalized the honest response of its own request just before
}

var saltLens = []int{0, 20, 47, 48, 49, 64}

func (c Case) label() string { b, _ := json.Marshal(c); return string(b) }

func nonceOf(t, key, req, i int) []byte {
	return mc.Fill(seedv, fmt.Sprintf("nonce-t%d-k%d-r%d-%d", t, key, req, i), 32)
}
func chalOf(t, key, req int) []byte {
	return mc.Fill(seedv, fmt.Sprintf("chal-t%d-k%d-r%d", t, key, req), 24+req)
}

// oprf / rsa key index alphabets
var oprfKeys = []int{0, 1, 5}
var rsaKeys = []int{0, 1, 2}

type fin func(resp []byte) (tokens [][]byte, err error)

const longKeyIdx = 9

var siblings sync.Map // RSA key index -> *rsa.PrivateKey

func siblingOf(idx int) *rsa.PrivateKey {
	if k, ok := siblings.Load(idx); ok {
		return k.(*rsa.PrivateKey)
	}
	k := px.SiblingRSAKey(px.RSAKeys()[idx], 0, func(pub *rsa.PublicKey) []byte {
		b, err := util.MarshalTokenKeyPSSOID(pub)
		if err != nil {
			panic(err)
		}
		return b
	})
	siblings.Store(idx, k)
	return k
}

// wipe plays the caller that scrubs what it was handed once it has serialised it: the token
// returned by a finalization belongs to the caller, so overwriting it must not reach the request
// state (a later finalization on that state must still judge and build tokens from its own data).
func wipe(t tokens.Token) {
	for _, b := range [][]byte{t.Nonce, t.Context, t.KeyID, t.Authenticator} {
		for i := range b {
			b[i] = 0
		}
	}
}

// setup builds the state of request ReqI under KeyA and the honest response of the
// issuer holding KeyB to request ReqJ (created under KeyA as well, so that only the
// evaluating key differs), then returns the finalizer, that response and the
// verification closure for returned tokens.
func setup(c Case) (finalize fin, resp []byte, verify func(tokens [][]byte) error, err error) {
	lbl := func(req int) string { return fmt.Sprintf("c02-t%d-a%d-r%d", c.T, c.KeyA, req) }
	switch c.T {
	case 1:
		wa, wb := px.NewW1(oprfKeys[c.KeyA]), px.NewW1(oprfKeys[c.KeyB])
		mc.Entropy(lbl(c.ReqI))
		sti, e := wa.Create(chalOf(1, c.KeyA, c.ReqI), nonceOf(1, c.KeyA, c.ReqI, 0), nil)
		if e != nil {
			return nil, nil, nil, e
		}
		mc.Entropy(lbl(c.ReqJ))
		stj, e := wa.Create(chalOf(1, c.KeyA, c.ReqJ), nonceOf(1, c.KeyA, c.ReqJ, 0), nil)
		if e != nil {
			return nil, nil, nil, e
		}
		// the client object makes one more request (other nonce, other challenge) while these are outstanding
		if _, e := wa.Create(mc.Fill(seedv, "c02-decoy-chal", 40), mc.Fill(seedv, "c02-decoy-nonce", 32), nil); e != nil {
			return nil, nil, nil, e
		}
		mc.Entropy(fmt.Sprintf("c02-eval-t1-b%d-r%d", c.KeyB, c.ReqJ))
		r, se := wb.EvaluateWire(stj.Request().Marshal())
		if se != nil {
			return nil, nil, nil, se
		}
		finalize = func(resp []byte) ([][]byte, error) {
			t, err := sti.FinalizeToken(resp)
			if err != nil {
				return nil, err
			}
			m := t.Marshal()
			wipe(t)
			return [][]byte{m}, nil
		}
		verify = func(toks [][]byte) error {
			if len(toks) != 1 {
				return fmt.Errorf("%d tokens", len(toks))
			}
			if err := px.CheckLayout(toks[0], 1, nonceOf(1, c.KeyA, c.ReqI, 0), chalOf(1, c.KeyA, c.ReqI), wa.KeyID); err != nil {
				return err
			}
			return px.VerifyOPRFToken(oprf.SuiteP384, wa.KeyBytes, toks[0])
		}
		return finalize, r, verify, nil
	case 2:
		var wa, wb *px.W2
		if c.KeyA == longKeyIdx {
			// an issuer key of 3072 bits: the token type cannot carry its signatures; whatever the client
			// does with the issuer's honest response, it must not hand out a token that does not verify
			wa = px.NewW2Key(px.LongRSAKey())
			wb = wa
		} else {
			wa, wb = px.NewW2(rsaKeys[c.KeyA]), px.NewW2(rsaKeys[c.KeyB])
		}
		var blind, salt []byte
		if c.Salt > 0 {
			blind = mc.Fill(seedv, "c02-rsa-blind", 255)
			salt = mc.Fill(seedv, "c02-salt", saltLens[c.Salt-1])
		}
		mc.Entropy(lbl(c.ReqI))
		sti, e := wa.Create(chalOf(2, c.KeyA, c.ReqI), nonceOf(2, c.KeyA, c.ReqI, 0), blind, salt)
		if e != nil {
			return nil, nil, nil, e
		}
		mc.Entropy(lbl(c.ReqJ))
		stj, e := wa.Create(chalOf(2, c.KeyA, c.ReqJ), nonceOf(2, c.KeyA, c.ReqJ, 0), blind, salt)
		if e != nil {
			return nil, nil, nil, e
		}
		if _, e := wa.Create(mc.Fill(seedv, "c02-decoy-chal", 40), mc.Fill(seedv, "c02-decoy-nonce", 32), nil, nil); e != nil {
			return nil, nil, nil, e
		}
		var r []byte
		if c.KeyA == longKeyIdx {
			// the wire format cannot carry the longer blinded message: the request is handed over as a struct
			rr, e := wb.Issuer.Evaluate(stj.Request())
			if e != nil {
				return nil, nil, nil, e
			}
			r = rr
		} else {
			rr, se := wb.EvaluateWire(stj.Request().Marshal())
			if se != nil {
				return nil, nil, nil, se
			}
			r = rr
		}
		finalize = func(resp []byte) ([][]byte, error) {
			t, err := sti.FinalizeToken(resp)
			if err != nil {
				return nil, err
			}
			m := t.Marshal()
			wipe(t)
			return [][]byte{m}, nil
		}
		verify = func(toks [][]byte) error {
			if len(toks) != 1 {
				return fmt.Errorf("%d tokens", len(toks))
			}
			if err := px.CheckLayout(toks[0], 2, nonceOf(2, c.KeyA, c.ReqI, 0), chalOf(2, c.KeyA, c.ReqI), wa.KeyID); err != nil {
				return err
			}
			return px.VerifyRSAToken(&wa.Key.PublicKey, toks[0])
		}
		return finalize, r, verify, nil
	case 3:
		// key a / key b: two issuers (different token keys and name keys); the request is created for
		// issuer a's keys; issuer b can only answer a request made for its own name key, so for a != b
		// the foreign response is b's honest response to a request of the same client made for b.
		mc.Entropy(fmt.Sprintf("c02-w3-%d", c.KeyA))
		wa := px.NewW3(rsaKeys[c.KeyA])
		wa.Issuer.AddOrigin("origin.example")
		wb := wa
		if c.KeyB != c.KeyA {
			mc.Entropy(fmt.Sprintf("c02-w3-%d", c.KeyB))
			wb = px.NewW3(rsaKeys[c.KeyB])
			wb.Issuer.AddOrigin("origin.example")
		}
		// ONE client object makes all requests of the case; its first request goes to yet another issuer
		// whose token key is a sibling of A's (same modulus, other exponent, key id equal in its first byte)
		cl := type3.NewRateLimitedClientFromSecret(mc.Fill(seedv, "c02-secret", 48))
		args := func(req int) px.T3Args {
			return px.T3Args{Secret: mc.Fill(seedv, "c02-secret", 48), Blind: mc.Fill(seedv, fmt.Sprintf("c02-blind-%d", req), 48), Challenge: chalOf(3, c.KeyA, req), Nonce: nonceOf(3, c.KeyA, req, 0), Origin: "origin.example", Client: &cl}
		}
		{
			mc.Entropy(fmt.Sprintf("c02-w3-sibling-%d", c.KeyA))
			ws := px.NewW3Key(siblingOf(rsaKeys[c.KeyA]))
			ws.Issuer.AddOrigin("origin.example")
			a := args(90)
			if _, e := ws.Create(a); e != nil {
				return nil, nil, nil, e
			}
		}
		mc.Entropy(lbl(c.ReqI))
		sti, e := wa.Create(args(c.ReqI))
		if e != nil {
			return nil, nil, nil, e
		}
		var stj type3.RateLimitedTokenRequestState
		if c.ReqJ == c.ReqI && c.KeyA == c.KeyB {
			stj = sti
		} else {
			mc.Entropy(lbl(c.ReqJ) + fmt.Sprintf("-for-%d", c.KeyB))
			stj, e = wb.Create(args(c.ReqJ))
			if e != nil {
				return nil, nil, nil, e
			}
		}
		mc.Entropy(fmt.Sprintf("c02-eval-t3-b%d-r%d", c.KeyB, c.ReqJ))
		r, _, e := wb.Issuer.Evaluate(stj.Request().Marshal())
		if e != nil {
			return nil, nil, nil, e
		}
		finalize = func(resp []byte) ([][]byte, error) {
			t, err := sti.FinalizeToken(resp)
			if err != nil {
				return nil, err
			}
			m := t.Marshal()
			wipe(t)
			return [][]byte{m}, nil
		}
		verify = func(toks [][]byte) error {
			if len(toks) != 1 {
				return fmt.Errorf("%d tokens", len(toks))
			}
			if err := px.CheckLayout(toks[0], 3, nonceOf(3, c.KeyA, c.ReqI, 0), chalOf(3, c.KeyA, c.ReqI), wa.KeyID); err != nil {
				return err
			}
			return px.VerifyRSAToken(&wa.Key.PublicKey, toks[0])
		}
		return finalize, r, verify, nil
	case 5:
		wa, wb := px.NewW5(oprfKeys[c.KeyA]), px.NewW5(oprfKeys[c.KeyB])
		nonces := func(req int) [][]byte {
			var ns [][]byte
			for i := 0; i < c.N; i++ {
				ns = append(ns, nonceOf(5, c.KeyA, req, i))
			}
			return ns
		}
		mc.Entropy(lbl(c.ReqI))
		sti, e := wa.Create(chalOf(5, c.KeyA, c.ReqI), nonces(c.ReqI), nil)
		if e != nil {
			return nil, nil, nil, e
		}
		mc.Entropy(lbl(c.ReqJ))
		stj, e := wa.Create(chalOf(5, c.KeyA, c.ReqJ), nonces(c.ReqJ), nil)
		if e != nil {
			return nil, nil, nil, e
		}
		if _, e := wa.Create(mc.Fill(seedv, "c02-decoy-chal", 40), [][]byte{mc.Fill(seedv, "c02-decoy-nonce", 32)}, nil); e != nil {
			return nil, nil, nil, e
		}
		reqObj := stj.Request()
		if c.Mut == "reeval" {
			// the issuer evaluates a rearranged request: fresh, valid proof over the rearranged list
			re := &type5.BatchedPrivateTokenRequest{TokenKeyID: reqObj.TokenKeyID}
			for _, idx := range c.Map {
				re.BlindedReq = append(re.BlindedReq, reqObj.BlindedReq[idx])
			}
			reqObj = re
		}
		mc.Entropy(fmt.Sprintf("c02-eval-t5-b%d-r%d", c.KeyB, c.ReqJ))
		r, e := wb.Issuer.Evaluate(reqObj)
		if e != nil {
			return nil, nil, nil, e
		}
		finalize = func(resp []byte) ([][]byte, error) {
			ts, err := sti.FinalizeTokens(resp)
			if err != nil {
				return nil, err
			}
			var out [][]byte
			for _, t := range ts {
				out = append(out, t.Marshal())
			}
			for _, t := range ts {
				wipe(t)
			}
			return out, nil
		}
		verify = func(toks [][]byte) error {
			if len(toks) != c.N {
				return fmt.Errorf("%d tokens for %d nonces", len(toks), c.N)
			}
			for i, tb := range toks {
				if err := px.CheckLayout(tb, 5, nonceOf(5, c.KeyA, c.ReqI, i), chalOf(5, c.KeyA, c.ReqI), wa.KeyID); err != nil {
					return fmt.Errorf("token %d: %v", i, err)
				}
				if err := px.VerifyOPRFToken(oprf.SuiteRistretto255, wa.KeyBytes, tb); err != nil {
					return fmt.Errorf("token %d: %v", i, err)
				}
			}
			return nil
		}
		return finalize, r, verify, nil
	}
	return nil, nil, nil, fmt.Errorf("bad type")
}

func varintLen(b []byte) int { return 1 << (b[0] >> 6) }

func encVarint(v int) []byte {
	if v < 64 {
		return []byte{byte(v)}
	}
	return []byte{0x40 | byte(v>>8), byte(v)}
}

func mutate(resp []byte, c Case) []byte {
	switch c.Mut {
	case "bit":
		o := append([]byte{}, resp...)
		o[c.Arg/8] ^= 1 << (c.Arg % 8)
		return o
	case "trunc":
		return append([]byte{}, resp[:c.Arg]...)
	case "ext":
		return append(append([]byte{}, resp...), make([]byte, []int{1, 2, 32}[c.Arg])...)
	case "elems":
		w := varintLen(resp)
		elems := resp[w : w+32*c.N]
		proof := resp[w+32*c.N:]
		var body []byte
		for _, idx := range c.Map {
			body = append(body, elems[32*idx:32*idx+32]...)
		}
		return append(append(encVarint(len(body)), body...), proof...)
	}
	return resp
}

func isIdentity(m []int, n int) bool {
	if len(m) != n {
		return false
	}
	for i, v := range m {
		if v != i {
			return false
		}
	}
	return true
}

func run(c Case) (string, *mc.Viol) {
	finalize, resp, verify, err := setup(c)
	if err != nil {
		// the foreign party could not even produce a response (e.g. evaluation of a rearranged request
		// failed): nothing reaches the client
		return "no-response", nil
	}
	in := mutate(resp, c)
	var toks [][]byte
	var ferr error
	if c.After {
		// a state that has already accepted its honest response must judge the next response on
		// its own merits (nothing learnt from the first call may let a bad response through)
		if c.KeyA == c.KeyB && c.ReqI == c.ReqJ {
			// the caller receives responses into ONE buffer: the honest response is finalized from it,
			// then the next response (the case's) is written over it in place
			buf := append([]byte{}, resp...)
			if p := mc.Catch(func() { _, _ = finalize(buf) }); p != "" {
				return "panic", &mc.Viol{Sig: fmt.Sprintf("type%d finalization panics (honest response)", c.T), What: p}
			}
			if len(in) <= len(buf) {
				copy(buf, in)
				in = buf[:len(in)]
			}
		}
	}
	if c.ThenHonest {
		// a refused response must leave the state able to finalize the genuine one
		var e1 error
		var t1 [][]byte
		if p := mc.Catch(func() { t1, e1 = finalize(in) }); p != "" {
			return "panic", &mc.Viol{Sig: fmt.Sprintf("type%d finalization panics (%s)", c.T, c.Mut), What: fmt.Sprintf("%s: %s", c.label(), p)}
		}
		_ = t1
		if e1 == nil {
			return "first-not-refused", nil // judged by the case without ThenHonest
		}
		if p := mc.Catch(func() { toks, ferr = finalize(append([]byte{}, resp...)) }); p != "" {
			return "panic", &mc.Viol{Sig: fmt.Sprintf("type%d finalization panics (honest response after a refused one)", c.T), What: fmt.Sprintf("%s: %s", c.label(), p)}
		}
		if ferr != nil {
			return "honest-rejected-after-refusal", &mc.Viol{Sig: fmt.Sprintf("type%d finalization rejects the honest response after it has refused another one on the same state", c.T), What: fmt.Sprintf("%s: %v", c.label(), ferr)}
		}
		if verr := verify(toks); verr != nil {
			return "invalid-token-after-refusal", &mc.Viol{Sig: fmt.Sprintf("type%d finalization of the honest response yields an invalid token after the state has refused another response", c.T), What: fmt.Sprintf("%s: %v", c.label(), verr)}
		}
		return "honest-valid-token-after-a-refused-response", nil
	}
	if p := mc.Catch(func() { toks, ferr = finalize(in) }); p != "" {
		return "panic", &mc.Viol{Sig: fmt.Sprintf("type%d finalization panics (%s)", c.T, c.Mut), What: fmt.Sprintf("%s: %s", c.label(), p)}
	}
	honest := c.Mut == "none" && c.KeyA == c.KeyB && c.ReqI == c.ReqJ && (c.Salt == 0 || saltLens[c.Salt-1] == 48) && c.KeyA != longKeyIdx
	if (c.Mut == "elems" || c.Mut == "reeval") && isIdentity(c.Map, c.N) && c.KeyA == c.KeyB && c.ReqI == c.ReqJ {
		honest = true
	}
	if ferr != nil {
		if honest {
			return "honest-rejected", &mc.Viol{Sig: fmt.Sprintf("type%d finalization rejects the honest response", c.T), What: fmt.Sprintf("%s: %v", c.label(), ferr)}
		}
		return "error", nil
	}
	if verr := verify(toks); verr != nil {
		what := map[string]string{"none": "a foreign response", "bit": "a bit-corrupted response", "trunc": "a truncated response", "ext": "an extended response", "elems": "a response with rearranged elements", "reeval": "a response to a rearranged request"}[c.Mut]
		if honest {
			what = "its own honest response"
			if c.After {
				what += " (second finalization on the state, after the caller scrubbed the tokens of the first)"
			}
		} else if c.KeyA != c.KeyB {
			what += " computed under another issuer key"
		} else if c.ReqI != c.ReqJ {
			what += " for another request"
		}
		return "invalid-token-output", &mc.Viol{Sig: fmt.Sprintf("type%d finalization succeeds on %s and outputs a token that does not verify or is not bound to the request", c.T, what), What: fmt.Sprintf("%s: %v", c.label(), verr)}
	}
	if honest {
		return "honest-valid-token", nil
	}
	if os.Getenv("C02_DEBUG") != "" {
		fmt.Fprintln(os.Stderr, "altered-but-valid:", c.label())
	}
	// The statement lists these classes as "all rejected": success is a violation even though the
	// tokens that came out happen to be valid.
	listed := ""
	switch {
	case c.Mut == "bit":
		listed = "a single-bit corruption of the honest response"
	case c.KeyA != c.KeyB:
		listed = "a response computed under a different issuer key"
	case c.ReqI != c.ReqJ:
		listed = "a response for a different request"
	case c.Mut == "elems" || c.Mut == "reeval":
		listed = "a response with elements dropped, duplicated or reordered"
	}
	if listed != "" {
		return "listed-class-accepted", &mc.Viol{Sig: fmt.Sprintf("type%d finalization accepts %s", c.T, listed), What: c.label()}
	}
	return "valid-token-from-altered-response", nil // truncation / extension: allowed as long as the output is a valid token of this request // allowed: the output is still a valid token of this request
}

func main() {
	r := mc.Start("C02", "exploration")
	seedv = r.Seed
	mc.InstallDRBG(r.Seed)
	r.RegisterReplay("finalize", func(pj json.RawMessage) *mc.Viol {
		var c Case
		json.Unmarshal(pj, &c)
		_, v := run(c)
		return v
	})
	if r.IsReplay() {
		r.DoReplay()
	}
	R := mc.Pick(r, 2, 4)
	K := mc.Pick(r, 2, 3)
	n5 := mc.Pick(r, 3, 4)
	var cases []Case
	for _, t := range []int{1, 2, 3, 5} {
		n := 0
		if t == 5 {
			n = n5
		}
		for a := 0; a < K; a++ {
			// matrices
			for b := 0; b < K; b++ {
				for i := 0; i < R; i++ {
					for j := 0; j < R; j++ {
						cases = append(cases, Case{T: t, KeyA: a, KeyB: b, ReqI: i, ReqJ: j, Mut: "none", N: n})
					}
				}
			}
			// corruptions of the honest response of request 0 (all requests in thorough)
			for i := 0; i < mc.Pick(r, 1, 2); i++ {
				base := Case{T: t, KeyA: a, KeyB: a, ReqI: i, ReqJ: i, Mut: "none", N: n}
				_, resp, _, err := setup(base)
				if err != nil {
					r.Note("cannot build honest response for %s: %v", base.label(), err)
					r.NotExhaustive("honest response unavailable for %s", base.label())
					continue
				}
				for bit := 0; bit < len(resp)*8; bit++ {
					cases = append(cases, Case{T: t, KeyA: a, KeyB: a, ReqI: i, ReqJ: i, Mut: "bit", Arg: bit, N: n})
				}
				for l := 0; l < len(resp); l++ {
					cases = append(cases, Case{T: t, KeyA: a, KeyB: a, ReqI: i, ReqJ: i, Mut: "trunc", Arg: l, N: n})
				}
				for e := 0; e < 3; e++ {
					cases = append(cases, Case{T: t, KeyA: a, KeyB: a, ReqI: i, ReqJ: i, Mut: "ext", Arg: e, N: n})
				}
				// the honest response finalized a second time by the same state, after the caller has
				// scrubbed the tokens of the first call
				cases = append(cases, Case{T: t, KeyA: a, KeyB: a, ReqI: i, ReqJ: i, Mut: "none", N: n, After: true})
				if i == 0 {
					// a corrupted response first (refused), then the honest one on the same state
					for bit := 0; bit < len(resp)*8; bit += 7 {
						cases = append(cases, Case{T: t, KeyA: a, KeyB: a, ReqI: i, ReqJ: i, Mut: "bit", Arg: bit, N: n, ThenHonest: true})
					}
					for l := 0; l < len(resp); l += 11 {
						cases = append(cases, Case{T: t, KeyA: a, KeyB: a, ReqI: i, ReqJ: i, Mut: "trunc", Arg: l, N: n, ThenHonest: true})
					}
				}
				if a == 0 && i == 0 {
					// the same corruptions offered to a state that has just finalized its honest response
					for bit := 0; bit < len(resp)*8; bit += 5 {
						cases = append(cases, Case{T: t, KeyA: a, KeyB: a, ReqI: i, ReqJ: i, Mut: "bit", Arg: bit, N: n, After: true})
					}
					for l := 0; l < len(resp); l += 3 {
						cases = append(cases, Case{T: t, KeyA: a, KeyB: a, ReqI: i, ReqJ: i, Mut: "trunc", Arg: l, N: n, After: true})
					}
				}
			}
		}
	}
	// type 2 with an issuer key longer than the token type allows
	cases = append(cases, Case{T: 2, KeyA: longKeyIdx, KeyB: longKeyIdx, ReqI: 0, ReqJ: 0, Mut: "none"}, Case{T: 2, KeyA: longKeyIdx, KeyB: longKeyIdx, ReqI: 1, ReqJ: 1, Mut: "none"})
	// type 2: caller-supplied salts of every boundary length (the token type fixes sLen = 48): the
	// honest response must yield a standard-verifiable token or an error
	for a := 0; a < K; a++ {
		for k := 1; k <= len(saltLens); k++ {
			cases = append(cases, Case{T: 2, KeyA: a, KeyB: a, ReqI: 0, ReqJ: 0, Mut: "none", Salt: k})
		}
	}
	// type 5: every sequence over the element indices of length 0..n+1, spliced and re-evaluated
	for n := 1; n <= n5; n++ {
		var seqs [][]int
		var build func(cur []int)
		build = func(cur []int) {
			seqs = append(seqs, append([]int{}, cur...))
			if len(cur) == n+1 {
				return
			}
			for i := 0; i < n; i++ {
				build(append(cur, i))
			}
		}
		build(nil)
		for _, m := range seqs {
			for _, mut := range []string{"elems", "reeval"} {
				if mut == "reeval" && len(m) == 0 {
					continue
				}
				cases = append(cases, Case{T: 5, KeyA: 0, KeyB: 0, ReqI: 0, ReqJ: 0, Mut: mut, Map: m, N: n})
			}
		}
	}
	r.SetRule("per type and client key: full matrix (issuer key b) x (state of request i) x (response for request j); every single-bit flip, every truncation and 3 extensions of the honest response; type 5: every sequence of element indices of length 0..n+1 (all permutations, omissions, duplications) both spliced into the honest response with the honest proof and evaluated afresh by the real key. Cases are distinct tuples; all are non-trivial (each reaches the client's finalization with a response a peer can send)")
	r.Assume("semantic oracle: success is allowed only with tokens that verify under the pinned key by an independent verifier (crypto/rsa PSS; RFC 9497 evaluation recomposed from group primitives) and carry the request's nonce, SHA-256(challenge) and key id",
		"keys, nonces and challenges are fixed alphabets; type-3 foreign-key responses are the other issuer's honest responses to the same client")
	r.Set("dimensions", map[string]any{"requests": R, "keys": K, "type5_max_batch": n5})
	r.Par(len(cases), func(i int) {
		if r.OutOfTime() {
			r.NotExhaustive("time budget")
			return
		}
		c := cases[i]
		out, v := run(c)
		if v != nil {
			r.Violation("finalize", c, v)
		}
		cls := fmt.Sprintf("type%d/%s:%s", c.T, c.Mut, out)
		r.Case(c.label(), true, cls)
		if i%4000 == 11 {
			r.Sample(c)
		}
	})
	r.Finish()
}
