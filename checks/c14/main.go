// C14: the Ed25519 fork is bit-compatible with standard Ed25519.
//
// Bounded exhaustive enumeration on the real github.com/cloudflare/pat-go/ed25519
// package against crypto/ed25519 (differential reference) and against math/big
// models (scalar arithmetic mod L; affine twisted-Edwards curve in verif/checks/edref):
//
//	(a) NewKeyFromSeed / Sign / PrivateKey.Sign byte-equal to the standard library for
//	    every single-byte-pattern seed and boundary seeds x SHA-512 block-boundary lengths;
//	(b) GenerateKey under every entropy fault script with <= 1 (quick) / <= 2 (thorough)
//	    deviations: same reads, same outputs, same error as crypto/ed25519.GenerateKey;
//	(c) Verify verdict == crypto/ed25519.Verify for A, R from small-order / non-canonical /
//	    honest / invalid encodings x S from the boundary set, and every single-bit flip;
//	(d) exported Scalar / Point operations (hook aliases) over boundary alphabets versus
//	    math/big and edref.
package main

import (
	"bytes"
	"crypto"
	stded "crypto/ed25519"
	"crypto/sha512"
	"encoding/hex"
	"encoding/json"
	"errors"
	"fmt"
	"io"
	"math/big"
	"reflect"
	"runtime/debug"
	"strings"
	"sync"

	ed "github.com/cloudflare/pat-go/ed25519"

	"verif/checks/edref"
	"verif/mc"
)

var (
	bigL  = edref.L
	two   = big.NewInt(2)
	one   = big.NewInt(1)
	p2252 = new(big.Int).Lsh(one, 252)
	cL    = new(big.Int).Sub(edref.L, p2252) // L - 2^252
)

func hx(b []byte) string { return hex.EncodeToString(b) }
func unhx(s string) []byte {
	b, err := hex.DecodeString(s)
	if err != nil {
		panic("bad hex in params: " + err.Error())
	}
	return b
}
func trunc(s string, n int) string {
	if len(s) > n {
		return s[:n]
	}
	return s
}
func pow2(k int) *big.Int        { return new(big.Int).Lsh(one, uint(k)) }
func bi(v int64) *big.Int        { return big.NewInt(v) }
func sub(a, b *big.Int) *big.Int { return new(big.Int).Sub(a, b) }
func add(a, b *big.Int) *big.Int { return new(big.Int).Add(a, b) }
func mul(a, b *big.Int) *big.Int { return new(big.Int).Mul(a, b) }

// ============================ (a) derive / sign ============================

type signP struct {
	Seed string `json:"seed_hex"`
	Msg  string `json:"msg_hex"`
}

func checkSign(p signP) *mc.Viol {
	seed, msg := unhx(p.Seed), unhx(p.Msg)
	var priv ed.PrivateKey
	if pn := mc.Catch(func() { priv = ed.NewKeyFromSeed(append([]byte(nil), seed...)) }); pn != "" {
		return &mc.Viol{Sig: "NewKeyFromSeed panics on a 32-byte seed", What: fmt.Sprintf("seed=%s: %s", p.Seed, pn)}
	}
	spriv := stded.NewKeyFromSeed(seed)
	if !bytes.Equal(priv, spriv) {
		return &mc.Viol{Sig: "NewKeyFromSeed differs from crypto/ed25519", What: fmt.Sprintf("seed=%s fork=%x std=%x", p.Seed, []byte(priv), []byte(spriv))}
	}
	pub, ok := priv.Public().(ed.PublicKey)
	if !ok || !bytes.Equal(pub, spriv.Public().(stded.PublicKey)) || !bytes.Equal(priv.Seed(), seed) {
		return &mc.Viol{Sig: "PrivateKey.Public/Seed differs from crypto/ed25519", What: fmt.Sprintf("seed=%s", p.Seed)}
	}
	want := stded.Sign(spriv, msg)
	var sig []byte
	if pn := mc.Catch(func() { sig = ed.Sign(priv, msg) }); pn != "" {
		return &mc.Viol{Sig: "Sign panics", What: fmt.Sprintf("seed=%s len(msg)=%d: %s", p.Seed, len(msg), pn)}
	}
	if !bytes.Equal(sig, want) {
		return &mc.Viol{Sig: "Sign output differs from crypto/ed25519", What: fmt.Sprintf("seed=%s len(msg)=%d fork=%x std=%x", p.Seed, len(msg), sig, want)}
	}
	var sig2 []byte
	var err error
	if pn := mc.Catch(func() { sig2, err = priv.Sign(nil, msg, crypto.Hash(0)) }); pn != "" {
		return &mc.Viol{Sig: "PrivateKey.Sign panics", What: fmt.Sprintf("seed=%s len(msg)=%d: %s", p.Seed, len(msg), pn)}
	}
	if err != nil || !bytes.Equal(sig2, want) {
		return &mc.Viol{Sig: "PrivateKey.Sign output differs from crypto/ed25519", What: fmt.Sprintf("seed=%s len(msg)=%d err=%v fork=%x std=%x", p.Seed, len(msg), err, sig2, want)}
	}
	// the crypto.Signer entry point with a reader: Ed25519 signing is deterministic, crypto/ed25519
	// ignores the reader, and so must the fork (same bytes, reader untouched or not - the bytes decide)
	for _, rd := range []io.Reader{mc.NewStream(0, "c14-signer-rand-a"), mc.NewStream(1, "c14-signer-rand-b"), bytes.NewReader(nil)} {
		var sig3 []byte
		if pn := mc.Catch(func() { sig3, err = priv.Sign(rd, msg, crypto.Hash(0)) }); pn != "" {
			return &mc.Viol{Sig: "PrivateKey.Sign panics when given an entropy reader", What: fmt.Sprintf("seed=%s len(msg)=%d: %s", p.Seed, len(msg), pn)}
		}
		if err != nil || !bytes.Equal(sig3, want) {
			return &mc.Viol{Sig: "PrivateKey.Sign with an entropy reader differs from crypto/ed25519", What: fmt.Sprintf("seed=%s len(msg)=%d err=%v fork=%x std=%x", p.Seed, len(msg), err, sig3, want)}
		}
	}
	var okv bool
	if pn := mc.Catch(func() { okv = ed.Verify(pub, msg, want) }); pn != "" || !okv {
		return &mc.Viol{Sig: "Verify rejects a signature made by crypto/ed25519", What: fmt.Sprintf("seed=%s len(msg)=%d panic=%q", p.Seed, len(msg), pn)}
	}
	return nil
}

// ============================ (b) GenerateKey under entropy faults ============================

type genP struct {
	Seed  int64    `json:"drbg_seed"`
	Label string   `json:"label"`
	Devs  []mc.Dev `json:"devs"`
	Nil   bool     `json:"nil_reader,omitempty"`
}

func errStr(e error) string {
	if e == nil {
		return "<nil>"
	}
	return e.Error()
}

// separate checks that the values handed out by GenerateKey are the caller's own and independent:
// the caller overwrites the public key (then the value Public() returns), and the private key
// must still be crypto/ed25519's and still sign like it.
func separate(pub ed.PublicKey, priv ed.PrivateKey, want stded.PrivateKey) *mc.Viol {
	for i := range pub {
		pub[i] ^= 0xA5
	}
	if !bytes.Equal(priv, want) {
		return &mc.Viol{Sig: "GenerateKey returns a public key that shares memory with the private key", What: fmt.Sprintf("after the caller overwrote the returned public key the private key is %x, crypto/ed25519's %x", []byte(priv), []byte(want))}
	}
	var p2 ed.PublicKey
	if pk, ok := priv.Public().(ed.PublicKey); ok {
		p2 = pk
	} else {
		return &mc.Viol{Sig: "PrivateKey.Public does not return a PublicKey", What: fmt.Sprintf("%T", priv.Public())}
	}
	for i := range p2 {
		p2[i] ^= 0x5A
	}
	if !bytes.Equal(priv, want) {
		return &mc.Viol{Sig: "PrivateKey.Public returns a value that shares memory with the private key", What: fmt.Sprintf("after the caller overwrote it the private key is %x, crypto/ed25519's %x", []byte(priv), []byte(want))}
	}
	msg := []byte("message signed after the caller reused its public key buffer")
	var sig []byte
	if pn := mc.Catch(func() { sig = ed.Sign(priv, msg) }); pn != "" {
		return &mc.Viol{Sig: "Sign panics on a freshly generated key", What: pn}
	}
	if !bytes.Equal(sig, stded.Sign(want, msg)) {
		return &mc.Viol{Sig: "Sign with a freshly generated key differs from crypto/ed25519", What: fmt.Sprintf("sig %x", sig)}
	}
	return nil
}

// checkGen returns the violation (if any), the read log of the reference run and the outcome class.
func checkGen(p genP) (*mc.Viol, []mc.Rec, string) {
	if p.Nil {
		var pub1 ed.PublicKey
		var priv1 ed.PrivateKey
		var err1 error
		mc.Entropy(p.Label)
		if pn := mc.Catch(func() { pub1, priv1, err1 = ed.GenerateKey(nil) }); pn != "" {
			return &mc.Viol{Sig: "GenerateKey(nil) panics", What: pn}, nil, "panic"
		}
		mc.Entropy(p.Label)
		pub2, priv2, err2 := stded.GenerateKey(nil)
		if err1 != nil || err2 != nil || !bytes.Equal(pub1, pub2) || !bytes.Equal(priv1, priv2) {
			return &mc.Viol{Sig: "GenerateKey(nil) differs from crypto/ed25519 on the same crypto/rand stream", What: fmt.Sprintf("label=%s err=%v/%v fork=%x std=%x", p.Label, err1, err2, []byte(priv1), []byte(priv2))}, nil, "differs"
		}
		if v := separate(pub1, priv1, priv2); v != nil {
			return v, nil, "aliased"
		}
		return nil, nil, "genkey:rand.Reader:same-key"
	}
	f1 := mc.NewFaultReader(p.Seed, p.Label, p.Devs)
	f1.CoinFirst = false
	f2 := mc.NewFaultReader(p.Seed, p.Label, p.Devs)
	f2.CoinFirst = false
	var pub1 ed.PublicKey
	var priv1 ed.PrivateKey
	var err1 error
	if pn := mc.Catch(func() { pub1, priv1, err1 = ed.GenerateKey(f1) }); pn != "" {
		return &mc.Viol{Sig: "GenerateKey panics under an entropy fault", What: fmt.Sprintf("label=%s devs=%+v: %s", p.Label, p.Devs, pn)}, f2.Log, "panic"
	}
	pub2, priv2, err2 := stded.GenerateKey(f2)
	desc := fmt.Sprintf("label=%s devs=%+v fork: reads=%+v err=%v key=%x; std: reads=%+v err=%v key=%x", p.Label, p.Devs, f1.Log, err1, []byte(priv1), f2.Log, err2, []byte(priv2))
	if !reflect.DeepEqual(f1.Log, f2.Log) {
		return &mc.Viol{Sig: "GenerateKey consumes the entropy reader differently from crypto/ed25519", What: desc}, f2.Log, "differs"
	}
	if (err1 == nil) != (err2 == nil) || (err1 != nil && !errors.Is(err1, err2)) {
		return &mc.Viol{Sig: "GenerateKey returns a different error than crypto/ed25519", What: desc}, f2.Log, "differs"
	}
	if err1 != nil {
		if pub1 != nil || priv1 != nil {
			return &mc.Viol{Sig: "GenerateKey returns a key together with the reader's error", What: desc}, f2.Log, "differs"
		}
		return nil, f2.Log, "genkey:error:" + errStr(err1)
	}
	if !bytes.Equal(pub1, pub2) || !bytes.Equal(priv1, priv2) {
		return &mc.Viol{Sig: "GenerateKey output differs from crypto/ed25519 on the same entropy", What: desc}, f2.Log, "differs"
	}
	// independent of the std run: short reads only => the key of the first 32 stream bytes
	wantSeed := mc.Fill(p.Seed, p.Label, 32)
	if !bytes.Equal(priv1, stded.NewKeyFromSeed(wantSeed)) || !bytes.Equal(pub1, priv1[32:]) {
		return &mc.Viol{Sig: "GenerateKey result depends on how the entropy reads were chunked", What: desc}, f2.Log, "differs"
	}
	if v := separate(pub1, priv1, priv2); v != nil {
		return v, f2.Log, "aliased"
	}
	cls := "genkey:ok:full-read"
	if len(p.Devs) > 0 {
		cls = fmt.Sprintf("genkey:ok:after-%d-short-reads", len(f2.Log)-1)
		if len(f2.Log)-1 > 2 {
			cls = "genkey:ok:after->2-short-reads"
		}
	}
	return nil, f2.Log, cls
}

// ============================ (c) Verify differential ============================

type verP struct {
	Pub string `json:"pub_hex"`
	Msg string `json:"msg_hex"`
	Sig string `json:"sig_hex"`
}

// rejectClass is the cheapest reason a verifier may use to reject, computed by the
// math/big reference; "equation" means everything decodes and only the group equation decides.
func rejectClass(pub, sig []byte) string {
	if len(sig) != 64 {
		return "sig-length"
	}
	if sig[63]&0xe0 != 0 {
		return "S-top-bits"
	}
	if _, ok := edref.Decompress(pub); !ok {
		return "A-not-a-point"
	}
	if edref.FromLE(sig[32:]).Cmp(bigL) >= 0 {
		return "S-not-canonical"
	}
	return "equation"
}

// warm: the verifier has accepted an honest signature (fixed key) over this very message just
// before every case: nothing it may remember of that may decide the case.
var (
	warmOnce sync.Once
	warmPriv stded.PrivateKey
)

func warm(msg []byte) bool {
	warmOnce.Do(func() { warmPriv = stded.NewKeyFromSeed(bytes.Repeat([]byte{0x17}, 32)) })
	sig := stded.Sign(warmPriv, msg)
	ok := false
	_ = mc.Catch(func() { ok = ed.Verify(ed.PublicKey(warmPriv[32:]), msg, sig) })
	return ok
}

// signOverKeyBytes makes the signature the owner of the warm-up key would make if the public key
// bytes in the challenge hash were keyBytes (any 32 bytes, also ones that are not a point):
// R = rB, S = r + H(R || keyBytes || M) a.
func signOverKeyBytes(keyBytes, msg []byte) []byte {
	warmOnce.Do(func() { warmPriv = stded.NewKeyFromSeed(bytes.Repeat([]byte{0x17}, 32)) })
	h := sha512.Sum512(warmPriv.Seed())
	ab := append([]byte{}, h[:32]...)
	ab[0] &= 248
	ab[31] &= 127
	ab[31] |= 64
	a := edref.FromLE(ab)
	rh := sha512.New()
	rh.Write(h[32:])
	rh.Write(msg)
	r := edref.FromLE(rh.Sum(nil))
	r.Mod(r, bigL)
	R := edref.Compress(edref.Mul(r, edref.Base()))
	kh := sha512.New()
	kh.Write(R)
	kh.Write(keyBytes)
	kh.Write(msg)
	k := edref.FromLE(kh.Sum(nil))
	k.Mod(k, bigL)
	S := new(big.Int).Mul(k, a)
	S.Add(S, r)
	S.Mod(S, bigL)
	return append(R, edref.LE(S, 32)...)
}

// checkTwice: the same (key, message, signature) verified twice in a row, right after a valid
// signature under another key was accepted: both verdicts are crypto/ed25519's.
func checkTwice(pub, msg, sig []byte) *mc.Viol {
	warm(msg)
	want := stded.Verify(stded.PublicKey(pub), msg, sig)
	for i := 1; i <= 2; i++ {
		var got bool
		if pn := mc.Catch(func() { got = ed.Verify(ed.PublicKey(pub), msg, sig) }); pn != "" {
			return &mc.Viol{Sig: "Verify panics with a 32-byte public key: " + trunc(pn, 60), What: fmt.Sprintf("pub=%x msg=%x sig=%x: %s", pub, msg, sig, pn)}
		}
		if got != want {
			return &mc.Viol{Sig: fmt.Sprintf("Verify verdict differs from crypto/ed25519 when the same input is verified a second time: fork=%v std=%v (call %d)", got, want, i),
				What: fmt.Sprintf("pub=%x msg=%x sig=%x", pub, msg, sig)}
		}
	}
	return nil
}

func checkVerify(pub, msg, sig []byte) (*mc.Viol, string, bool) {
	warm(msg)
	var got bool
	pn := mc.Catch(func() { got = ed.Verify(ed.PublicKey(pub), msg, sig) })
	cls := rejectClass(pub, sig)
	// and whatever this verification leaves behind must not spoil the next one: an honest signature
	// over the same message is verified right after it (twice: pooled state may come back on the second call)
	if pn == "" && (!warm(msg) || !warm(msg)) {
		return &mc.Viol{Sig: "Verify rejects an honest signature right after another verification (class of the earlier one: " + cls + ")",
			What: fmt.Sprintf("earlier verification: pub=%x msg=%x sig=%x", pub, msg, sig)}, "differs", true
	}
	if pn != "" {
		return &mc.Viol{Sig: "Verify panics with a 32-byte public key: " + trunc(pn, 60), What: fmt.Sprintf("pub=%x msg=%x sig=%x: %s", pub, msg, sig, pn)}, "panic", true
	}
	want := stded.Verify(stded.PublicKey(pub), msg, sig)
	if got != want {
		return &mc.Viol{Sig: fmt.Sprintf("Verify verdict differs from crypto/ed25519: fork=%v std=%v class=%s", got, want, cls),
			What: fmt.Sprintf("pub=%x msg=%x sig=%x", pub, msg, sig)}, "differs", true
	}
	v := "reject"
	if want {
		v = "accept"
	}
	return nil, "verify:" + cls + ":" + v, cls == "equation"
}

// nonCanonical: the encodings of edwards25519_test.go TestNonCanonicalPoints.
var nonCanonical = []string{
	"0100000000000000000000000000000000000000000000000000000000000080",
	"eeffffffffffffffffffffffffffffffffffffffffffffffffffffffffffffff",
	"ecffffffffffffffffffffffffffffffffffffffffffffffffffffffffffffff",
	"edffffffffffffffffffffffffffffffffffffffffffffffffffffffffffff7f",
	"edffffffffffffffffffffffffffffffffffffffffffffffffffffffffffffff",
	"eeffffffffffffffffffffffffffffffffffffffffffffffffffffffffffff7f",
	"f0ffffffffffffffffffffffffffffffffffffffffffffffffffffffffffff7f",
	"f0ffffffffffffffffffffffffffffffffffffffffffffffffffffffffffffff",
	"f1ffffffffffffffffffffffffffffffffffffffffffffffffffffffffffff7f",
	"f1ffffffffffffffffffffffffffffffffffffffffffffffffffffffffffffff",
	"f2ffffffffffffffffffffffffffffffffffffffffffffffffffffffffffff7f",
	"f2ffffffffffffffffffffffffffffffffffffffffffffffffffffffffffffff",
	"f3ffffffffffffffffffffffffffffffffffffffffffffffffffffffffffff7f",
	"f3ffffffffffffffffffffffffffffffffffffffffffffffffffffffffffffff",
	"f6ffffffffffffffffffffffffffffffffffffffffffffffffffffffffffff7f",
	"f6ffffffffffffffffffffffffffffffffffffffffffffffffffffffffffffff",
	"f7ffffffffffffffffffffffffffffffffffffffffffffffffffffffffffff7f",
	"f7ffffffffffffffffffffffffffffffffffffffffffffffffffffffffffffff",
	"fbffffffffffffffffffffffffffffffffffffffffffffffffffffffffffff7f",
	"fbffffffffffffffffffffffffffffffffffffffffffffffffffffffffffffff",
	"fcffffffffffffffffffffffffffffffffffffffffffffffffffffffffffff7f",
	"fcffffffffffffffffffffffffffffffffffffffffffffffffffffffffffffff",
	"fdffffffffffffffffffffffffffffffffffffffffffffffffffffffffffff7f",
	"fdffffffffffffffffffffffffffffffffffffffffffffffffffffffffffffff",
	"ffffffffffffffffffffffffffffffffffffffffffffffffffffffffffffff7f",
	"ffffffffffffffffffffffffffffffffffffffffffffffffffffffffffffffff",
}

type encSet struct {
	seen map[string]bool
	list [][]byte
}

func (s *encSet) add(b []byte) {
	if s.seen == nil {
		s.seen = map[string]bool{}
	}
	k := string(b)
	if !s.seen[k] {
		s.seen[k] = true
		s.list = append(s.list, append([]byte(nil), b...))
	}
}

var (
	torsionOnce sync.Once
	torsionPts  []edref.Pt
)

func torsion() []edref.Pt {
	torsionOnce.Do(func() { torsionPts = edref.Torsion() })
	return torsionPts
}

// pointEncodings: the fixed part of the A / R alphabet (independent of the honest key).
func pointEncodings() [][]byte {
	var s encSet
	for _, t := range torsion() {
		s.add(edref.Compress(t))
	}
	for _, h := range nonCanonical {
		s.add(unhx(h))
	}
	// every y in [p, p+18] with both sign bits (valid or not), and p-1
	for dlt := int64(0); dlt <= 18; dlt++ {
		y := edref.LE(add(edref.P, bi(dlt)), 32)
		s.add(y)
		y2 := append([]byte(nil), y...)
		y2[31] |= 0x80
		s.add(y2)
	}
	// torsion points of order 8 / 4 with non-canonical sign where x != 0 does not exist; add
	// a few encodings that are not points at all (y < p)
	for _, yv := range []int64{2, 7, 8} {
		e := edref.LE(bi(yv), 32)
		s.add(e)
	}
	return s.list
}

// withHonest extends the fixed alphabet by an honest encoding, its sign-flipped twin
// and the honest point plus a point of order 8 (mixed order).
func withHonest(fixed [][]byte, enc []byte) [][]byte {
	var s encSet
	for _, f := range fixed {
		s.add(f)
	}
	s.add(enc)
	fl := append([]byte(nil), enc...)
	fl[31] ^= 0x80
	s.add(fl)
	if pt, ok := edref.Decompress(enc); ok {
		s.add(edref.Compress(edref.Add(pt, torsion()[1])))
	}
	return s.list
}

func sValues(sStar []byte) [][]byte {
	var s encSet
	ss := edref.FromLE(sStar)
	for _, v := range []*big.Int{bi(0), bi(1), bi(8), sub(bigL, one), bigL, add(bigL, one), ss, add(ss, bigL), sub(bigL, ss),
		pow2(252), sub(pow2(253), one), pow2(253), mul(bigL, two)} {
		if v.BitLen() <= 256 {
			s.add(edref.LE(v, 32))
		}
	}
	for _, bit := range []byte{0x20, 0x40, 0x80} {
		b := append([]byte(nil), sStar...)
		b[31] |= bit
		s.add(b)
	}
	s.add(bytes.Repeat([]byte{0xff}, 32))
	return s.list
}

func honestSeed(runSeed int64, i int) []byte {
	switch i {
	case 0:
		return bytes.Repeat([]byte{0x42}, 32)
	case 1:
		return make([]byte, 32)
	}
	return mc.Fill(runSeed, fmt.Sprintf("c14-honest-%d", i), 32)
}

var verifyMsgLens = []int{0, 33, 200}

// ============================ (d) scalar arithmetic ============================

type scP struct {
	Op string   `json:"op"`
	In []string `json:"in_hex"`
}

func mkScalar(v *big.Int) *ed.VerifScalar {
	s, err := ed.VerifNewScalar().SetCanonicalBytes(edref.LE(v, 32))
	if err != nil {
		panic("harness: alphabet scalar not canonical")
	}
	return s
}

func clsScalar(v *big.Int) string {
	switch {
	case v.Sign() == 0:
		return "=0"
	case v.Cmp(p2252) >= 0:
		return ">=2^252"
	}
	return "<2^252"
}

// checkScalar evaluates one scalar operation against math/big.
func checkScalar(op string, in [][]byte) (*mc.Viol, string) {
	v := make([]*big.Int, len(in))
	for i := range in {
		v[i] = edref.FromLE(in[i])
	}
	var got []byte
	var want *big.Int
	var gotErr error
	rejected := false
	pn := mc.Catch(func() {
		switch op {
		case "muladd":
			got = ed.VerifNewScalar().MultiplyAdd(mkScalar(v[0]), mkScalar(v[1]), mkScalar(v[2])).Bytes()
		case "add":
			got = ed.VerifNewScalar().Add(mkScalar(v[0]), mkScalar(v[1])).Bytes()
		case "sub":
			got = ed.VerifNewScalar().Subtract(mkScalar(v[0]), mkScalar(v[1])).Bytes()
		case "mul":
			got = ed.VerifNewScalar().Multiply(mkScalar(v[0]), mkScalar(v[1])).Bytes()
		case "neg":
			got = ed.VerifNewScalar().Negate(mkScalar(v[0])).Bytes()
		case "inv":
			got = mkScalar(v[0]).ModInverse().Bytes()
		case "uniform":
			got = ed.VerifNewScalar().SetUniformBytes(append([]byte(nil), in[0]...)).Bytes()
		case "setbytes":
			got = ed.VerifNewScalar().SetBytes(append([]byte(nil), in[0]...)).Bytes()
		case "clamp":
			got = ed.VerifNewScalar().SetBytesWithClamping(append([]byte(nil), in[0]...)).Bytes()
		case "canonical":
			s, err := ed.VerifNewScalar().SetCanonicalBytes(append([]byte(nil), in[0]...))
			gotErr = err
			if err != nil {
				rejected = true
			} else {
				got = s.Bytes()
			}
		default:
			panic("harness: unknown scalar op " + op)
		}
	})
	name := "Scalar." + op
	if pn != "" {
		return &mc.Viol{Sig: name + " panics", What: fmt.Sprintf("%s(%s): %s", name, inHex(in), pn)}, "panic"
	}
	switch op {
	case "muladd":
		want = add(mul(v[0], v[1]), v[2])
	case "add":
		want = add(v[0], v[1])
	case "sub":
		want = sub(v[0], v[1])
	case "mul":
		want = mul(v[0], v[1])
	case "neg":
		want = new(big.Int).Neg(v[0])
	case "inv":
		want = new(big.Int).ModInverse(v[0], bigL)
	case "uniform", "setbytes":
		want = new(big.Int).Set(v[0])
	case "clamp":
		c := append([]byte(nil), in[0]...)
		c[0] &= 248
		c[31] &= 63
		c[31] |= 64
		want = edref.FromLE(c)
	case "canonical":
		if v[0].Cmp(bigL) >= 0 {
			if !rejected {
				return &mc.Viol{Sig: "Scalar.SetCanonicalBytes accepts a value >= L", What: fmt.Sprintf("input %x", in[0])}, "differs"
			}
			return nil, "scalar:canonical:reject"
		}
		if rejected {
			return &mc.Viol{Sig: "Scalar.SetCanonicalBytes rejects a value < L", What: fmt.Sprintf("input %x: %v", in[0], gotErr)}, "differs"
		}
		want = new(big.Int).Set(v[0])
	}
	want.Mod(want, bigL)
	if !bytes.Equal(got, edref.LE(want, 32)) {
		return &mc.Viol{Sig: name + " differs from math/big mod L", What: fmt.Sprintf("%s(%s) = %x, reference %x", name, inHex(in), got, edref.LE(want, 32))}, "differs"
	}
	if op == "canonical" {
		return nil, "scalar:canonical:accept"
	}
	return nil, "scalar:" + op + ":" + clsScalar(want)
}

func inHex(in [][]byte) string {
	s := ""
	for i, b := range in {
		if i > 0 {
			s += ", "
		}
		s += hx(b)
	}
	return s
}

type bigSet struct {
	seen map[string]bool
	list []*big.Int
}

func (s *bigSet) add(vs ...*big.Int) {
	if s.seen == nil {
		s.seen = map[string]bool{}
	}
	for _, v := range vs {
		if v.Sign() < 0 {
			continue
		}
		k := v.Text(16)
		if !s.seen[k] {
			s.seen[k] = true
			s.list = append(s.list, new(big.Int).Set(v))
		}
	}
}

func limbOnes(i int) *big.Int { return new(big.Int).Lsh(bi(1<<21-1), uint(21*i)) }

// scalarAlphabet: reduced scalars (< L) sitting on the shortcuts of the ref10 code: 0, 1,
// L-1, the 21-bit limb boundaries, all-ones limbs, and the band [2^252, L) where the
// second reduction fold and the last carry chain become active.
func scalarAlphabet(runSeed int64, thorough bool) []*big.Int {
	var s bigSet
	s.add(bi(0), bi(1), bi(2), bi(3), bi(8), sub(bigL, one), sub(bigL, two), sub(bigL, bi(3)),
		new(big.Int).Rsh(sub(bigL, one), 1), new(big.Int).Rsh(add(bigL, one), 1),
		sub(p2252, one), p2252, add(p2252, one), cL, sub(cL, one), add(cL, one), sub(p2252, cL), pow2(251), sub(pow2(251), one))
	for i := 0; i < 12; i++ {
		s.add(limbOnes(i), sub(bigL, pow2(21*i)))
		if i > 0 {
			s.add(pow2(21*i), pow2(21*i-1), pow2(21*i+1), sub(pow2(21*i), one))
		}
	}
	even, odd := new(big.Int), new(big.Int)
	for i := 0; i < 12; i++ {
		if i%2 == 0 {
			even.Add(even, limbOnes(i))
		} else {
			odd.Add(odd, limbOnes(i))
		}
	}
	s.add(even, odd)
	for _, k := range []int{63, 64, 127, 128, 191, 192} {
		s.add(pow2(k), sub(pow2(k), one))
	}
	nf := 2
	for k := 0; k <= 252; k++ { // every single-bit scalar, in both tiers
		s.add(pow2(k))
	}
	if thorough {
		nf = 6
		for k := 0; k <= 252; k++ {
			s.add(sub(pow2(k), one), sub(bigL, pow2(k)))
		}
	}
	for i := 0; i < nf; i++ {
		v := edref.FromLE(mc.Fill(runSeed, fmt.Sprintf("c14-scalar-%d", i), 40))
		s.add(v.Mod(v, bigL))
	}
	return s.list
}

// pointScalarAlphabet: scalars for the point multiplications: radix-16 recentering
// boundaries (digit 8), NAF window patterns around 64-bit word boundaries, L-1, 2^252.
func pointScalarAlphabet(runSeed int64, thorough bool) []*big.Int {
	var s bigSet
	for _, v := range []int64{0, 1, 2, 3, 7, 8, 9, 15, 16, 17, 127, 128, 129, 255, 256} {
		s.add(bi(v))
	}
	rep := func(nib byte, n int) *big.Int {
		b := bytes.Repeat([]byte{nib<<4 | nib}, n)
		return new(big.Int).SetBytes(b)
	}
	s.add(sub(bigL, one), sub(bigL, two), sub(bigL, bi(8)), new(big.Int).Rsh(sub(bigL, one), 1),
		p2252, sub(p2252, one), add(p2252, one), cL,
		rep(8, 31), rep(7, 31), rep(0xf, 31), rep(0x8, 16), rep(5, 31), rep(0xa, 31),
		add(rep(8, 31), p2252))
	for _, k := range []int{4, 59, 60, 63, 64, 65, 123, 124, 127, 128, 191, 192, 248, 251} {
		s.add(pow2(k))
		if thorough || k%64 == 0 || k%64 == 63 {
			s.add(sub(pow2(k), one), new(big.Int).Lsh(bi(0xff), uint(k-4)))
		}
	}
	nf := 3
	if thorough {
		nf = 12
		for k := 0; k <= 252; k += 4 {
			s.add(pow2(k), sub(pow2(k+1), one))
		}
		for i := 0; i < 12; i++ {
			s.add(limbOnes(i))
		}
	}
	for i := 0; i < nf; i++ {
		v := edref.FromLE(mc.Fill(runSeed, fmt.Sprintf("c14-pscalar-%d", i), 40))
		s.add(v.Mod(v, bigL))
	}
	var out []*big.Int
	for _, v := range s.list {
		if v.Cmp(bigL) < 0 {
			out = append(out, v)
		}
	}
	return out
}

// raw32: 32-byte inputs for SetBytes / SetBytesWithClamping / SetCanonicalBytes: the
// reduced alphabet plus q*L + r for every q that fits and boundary remainders r.
func raw32(alpha []*big.Int) [][]byte {
	var s bigSet
	s.add(alpha...)
	rs := []*big.Int{bi(0), bi(1), bi(2), sub(bigL, one), sub(bigL, two), sub(p2252, one), p2252, add(p2252, one), cL, sub(cL, one)}
	for q := int64(0); q <= 16; q++ {
		for _, r := range rs {
			s.add(add(mul(bi(q), bigL), r))
		}
		s.add(mul(bi(q), p2252), add(mul(bi(q), p2252), one))
	}
	s.add(pow2(253), pow2(254), pow2(255), sub(pow2(255), one), sub(pow2(256), one), sub(pow2(254), bi(8)))
	var out [][]byte
	for _, v := range s.list {
		if v.BitLen() <= 256 {
			out = append(out, edref.LE(v, 32))
		}
	}
	return out
}

// raw64: 64-byte inputs for SetUniformBytes.
func raw64(runSeed int64, thorough bool) [][]byte {
	var s bigSet
	max := sub(pow2(512), one)
	s.add(bi(0), max)
	for i := 0; i < 24; i++ {
		s.add(limbOnes(i))
		if i > 0 {
			s.add(pow2(21*i), pow2(21*i-1), sub(pow2(21*i), one))
		}
	}
	s.add(pow2(511), new(big.Int).Lsh(bi(1<<29-1), 483))
	var qs bigSet
	qmax := new(big.Int).Div(max, bigL)
	qs.add(bi(0), bi(1), bi(2), bi(15), bi(16), qmax, sub(qmax, one))
	step := 21
	if thorough {
		step = 7
	}
	for k := step; k < 260; k += step {
		qs.add(pow2(k), sub(pow2(k), one))
	}
	for i := 0; i < 2; i++ {
		qs.add(edref.FromLE(mc.Fill(runSeed, fmt.Sprintf("c14-q-%d", i), 32)))
	}
	rs := []*big.Int{bi(0), bi(1), sub(bigL, one), sub(bigL, two), sub(p2252, one), p2252, add(p2252, one), cL,
		new(big.Int).Mod(edref.FromLE(mc.Fill(runSeed, "c14-r", 40)), bigL)}
	for _, q := range qs.list {
		for _, r := range rs {
			s.add(add(mul(q, bigL), r))
		}
	}
	var out [][]byte
	for _, v := range s.list {
		if v.BitLen() <= 512 {
			out = append(out, edref.LE(v, 64))
		}
	}
	return out
}

// ============================ (d) point arithmetic ============================

type ptP struct {
	Op string `json:"op"` // decode | basemult | mult | double | add | sub | neg
	A  string `json:"a_hex,omitempty"`
	B  string `json:"b_hex,omitempty"`
	P  string `json:"p_hex,omitempty"`
	Q  string `json:"q_hex,omitempty"`
}

// checkPoint evaluates one point operation; want is the expected encoding when the
// caller has it cached (nil: computed here from the parameters alone).
func checkPoint(p ptP, want []byte) (*mc.Viol, string) {
	name := "Point." + p.Op
	dec := func(h string) (*ed.VerifPoint, edref.Pt, bool) {
		enc := unhx(h)
		rp, rok := edref.Decompress(enc)
		fp, err := new(ed.VerifPoint).SetBytes(enc)
		if (err == nil) != rok {
			return nil, rp, false
		}
		if !rok {
			return nil, rp, true
		}
		return fp, rp, true
	}
	sc := func(h string) (*ed.VerifScalar, *big.Int) {
		v := edref.FromLE(unhx(h))
		return mkScalar(v), v
	}
	var got []byte
	var ref edref.Pt
	haveRef := false
	mismatchDecode := ""
	undecodable := false
	pn := mc.Catch(func() {
		var P, Q *ed.VerifPoint
		var rP, rQ edref.Pt
		if p.P != "" {
			var ok bool
			P, rP, ok = dec(p.P)
			if !ok {
				mismatchDecode = p.P
				return
			}
			if P == nil {
				undecodable = true
				return
			}
		}
		if p.Q != "" {
			var ok bool
			Q, rQ, ok = dec(p.Q)
			if !ok {
				mismatchDecode = p.Q
				return
			}
			if Q == nil {
				undecodable = true
				return
			}
		}
		switch p.Op {
		case "decode":
			got = P.Bytes()
			ref, haveRef = rP, true
		case "basemult":
			a, av := sc(p.A)
			got = new(ed.VerifPoint).ScalarBaseMult(a).Bytes()
			if want == nil {
				ref, haveRef = edref.Mul(av, edref.Base()), true
			}
		case "mult":
			a, av := sc(p.A)
			got = new(ed.VerifPoint).ScalarMult(a, P).Bytes()
			if want == nil {
				ref, haveRef = edref.Mul(av, rP), true
			}
		case "double":
			a, av := sc(p.A)
			b, bv := sc(p.B)
			got = new(ed.VerifPoint).VarTimeDoubleScalarBaseMult(a, P, b).Bytes()
			if want == nil {
				ref, haveRef = edref.Add(edref.Mul(av, rP), edref.Mul(bv, edref.Base())), true
			}
		case "add":
			got = new(ed.VerifPoint).Add(P, Q).Bytes()
			ref, haveRef = edref.Add(rP, rQ), true
		case "sub":
			got = new(ed.VerifPoint).Subtract(P, Q).Bytes()
			ref, haveRef = edref.Add(rP, edref.Neg(rQ)), true
		case "neg":
			got = new(ed.VerifPoint).Negate(P).Bytes()
			ref, haveRef = edref.Neg(rP), true
		default:
			panic("harness: unknown point op " + p.Op)
		}
	})
	if pn != "" {
		return &mc.Viol{Sig: name + " panics", What: fmt.Sprintf("%+v: %s", p, pn)}, "panic"
	}
	if mismatchDecode != "" {
		return &mc.Viol{Sig: "Point.SetBytes accepts a different set of encodings than the curve reference", What: "encoding " + mismatchDecode}, "differs"
	}
	if undecodable {
		return nil, "point:decode:not-a-point"
	}
	if haveRef {
		want = edref.Compress(ref)
	}
	if !bytes.Equal(got, want) {
		return &mc.Viol{Sig: name + " differs from the math/big curve reference", What: fmt.Sprintf("%+v = %x, reference %x", p, got, want)}, "differs"
	}
	cls := "other"
	if bytes.Equal(want, edref.Compress(edref.Identity())) {
		cls = "identity"
	} else {
		for _, t := range torsion() {
			if bytes.Equal(want, edref.Compress(t)) {
				cls = "small-order"
			}
		}
	}
	return nil, "point:" + p.Op + ":" + cls
}

// ============================ main ============================

type counter map[string]int64

// detail keeps the fine-grained classes (operation x result class) for the evidence
// file; the outcome classes proper stay coarse so that all of them fit the summary.
var (
	detailMu sync.Mutex
	detail   = map[string]int64{}
)

func coarse(k string) string {
	if strings.HasPrefix(k, "scalar:") || strings.HasPrefix(k, "point:") {
		if k == "scalar:canonical:accept" || k == "scalar:canonical:reject" || k == "point:decode:not-a-point" {
			return k
		}
		return k[:strings.LastIndex(k, ":")]
	}
	return strings.TrimPrefix(k, "bitflip/")
}

func (c counter) flush(r *mc.Run, nontrivial func(string) bool) {
	detailMu.Lock()
	for k, n := range c {
		if coarse(k) != k {
			detail[k] += n
		}
	}
	detailMu.Unlock()
	for k, n := range c {
		nd := int64(0)
		if nontrivial == nil || nontrivial(coarse(k)) {
			nd = n
		}
		r.Bulk(n, nd, coarse(k))
	}
}

func main() {
	r := mc.Start("C14", "exploration")
	// the hot loops allocate small math/big temporaries on every core; with the default
	// pacer the tiny live heap makes the collector run continuously and serialises the workers
	debug.SetGCPercent(-1)
	debug.SetMemoryLimit(1 << 30)
	mc.InstallDRBG(r.Seed)

	r.RegisterReplay("sign", func(pj json.RawMessage) *mc.Viol {
		var p signP
		json.Unmarshal(pj, &p)
		return checkSign(p)
	})
	r.RegisterReplay("genkey", func(pj json.RawMessage) *mc.Viol {
		var p genP
		json.Unmarshal(pj, &p)
		if r.IsReplay() {
			mc.InstallDRBG(p.Seed) // stand-alone replay: the recorded seed, not the environment's
		}
		v, _, _ := checkGen(p)
		return v
	})
	r.RegisterReplay("twice", func(pj json.RawMessage) *mc.Viol {
		var p verP
		json.Unmarshal(pj, &p)
		return checkTwice(unhx(p.Pub), unhx(p.Msg), unhx(p.Sig))
	})
	r.RegisterReplay("verify", func(pj json.RawMessage) *mc.Viol {
		var p verP
		json.Unmarshal(pj, &p)
		v, _, _ := checkVerify(unhx(p.Pub), unhx(p.Msg), unhx(p.Sig))
		return v
	})
	r.RegisterReplay("scalar", func(pj json.RawMessage) *mc.Viol {
		var p scP
		json.Unmarshal(pj, &p)
		in := make([][]byte, len(p.In))
		for i := range in {
			in[i] = unhx(p.In[i])
		}
		v, _ := checkScalar(p.Op, in)
		return v
	})
	r.RegisterReplay("point", func(pj json.RawMessage) *mc.Viol {
		var p ptP
		json.Unmarshal(pj, &p)
		v, _ := checkPoint(p, nil)
		return v
	})
	if r.IsReplay() {
		r.DoReplay()
	}
	th := r.Thorough()
	var jobs []func()
	stop := func() bool {
		if r.OutOfTime() {
			r.NotExhaustive("time budget")
			return true
		}
		return false
	}

	// ---------- (a) ----------
	var seeds encSet
	for b := 0; b < 256; b++ {
		seeds.add(bytes.Repeat([]byte{byte(b)}, 32))
	}
	edge := func(f func(b []byte)) {
		b := make([]byte, 32)
		f(b)
		seeds.add(b)
	}
	edge(func(b []byte) { b[0] = 1 })
	edge(func(b []byte) { b[31] = 1 })
	edge(func(b []byte) { b[0] = 0x80 })
	edge(func(b []byte) { b[31] = 0x80 })
	edge(func(b []byte) {
		for i := range b {
			b[i] = byte(i)
		}
	})
	edge(func(b []byte) {
		for i := range b {
			b[i] = byte(255 - i)
		}
	})
	edge(func(b []byte) {
		for i := range b {
			b[i] = 0xaa >> (i % 2)
		}
	})
	edge(func(b []byte) {
		for i := range b {
			b[i] = 0xff
		}
		b[0] = 0xfe
	})
	for i := 0; i < mc.Pick(r, 4, 64); i++ {
		seeds.add(mc.Fill(r.Seed, fmt.Sprintf("c14-seed-%d", i), 32))
	}
	msgLens := []int{0, 1, 63, 64, 65, 111, 112, 127, 128, 129, 1000}
	msgKinds := mc.Pick(r, 1, 3) // 0 filler, 1 zeros, 2 ff
	mkMsg := func(n, kind int) []byte {
		switch kind {
		case 1:
			return make([]byte, n)
		case 2:
			return bytes.Repeat([]byte{0xff}, n)
		}
		return mc.Fill(r.Seed, fmt.Sprintf("c14-msg-%d", n), n)
	}
	for si := range seeds.list {
		seed := seeds.list[si]
		si := si
		jobs = append(jobs, func() {
			if stop() {
				return
			}
			for _, n := range msgLens {
				for k := 0; k < msgKinds; k++ {
					if n == 0 && k > 0 {
						continue
					}
					p := signP{Seed: hx(seed), Msg: hx(mkMsg(n, k))}
					v := checkSign(p)
					out := "sign:byte-equal:1-block-msg"
					if n >= 112 {
						out = "sign:byte-equal:multi-block-msg"
					} else if n >= 64 {
						out = "sign:byte-equal:2-block-hram"
					}
					if v != nil {
						out = "differs"
						r.Violation("sign", p, v)
					}
					r.Case(fmt.Sprintf("sign-%x-%d-%d", seed, n, k), true, out)
					if si == 7 && n == 65 && k == 0 {
						r.Sample(map[string]any{"kind": "sign", "seed_hex": p.Seed, "msg_len": n})
					}
				}
			}
		})
	}

	// ---------- (b) ----------
	bound := mc.Pick(r, 1, 2)
	labels := mc.Pick(r, 3, 8)
	var genScripts int64
	var genMu sync.Mutex
	for li := 0; li < labels; li++ {
		li := li
		label := fmt.Sprintf("c14-genkey-%d", li)
		jobs = append(jobs, func() {
			if stop() {
				return
			}
			n := mc.ExploreFaults(bound, mc.AllK, []int{0, 1, 2, 3}, func(devs []mc.Dev) []mc.Rec {
				p := genP{Seed: r.Seed, Label: label, Devs: devs}
				v, log, out := checkGen(p)
				if v != nil {
					r.Violation("genkey", p, v)
				}
				r.Case(fmt.Sprintf("gen-%s-%+v", label, devs), len(devs) > 0, out)
				if li == 0 && len(devs) == 2 && devs[0].K == 5 && devs[1].K == 3 && devs[1].Err == 2 {
					r.Sample(map[string]any{"kind": "genkey", "label": label, "devs": devs, "reads": log, "outcome": out})
				}
				if li == 0 && len(devs) == 1 && devs[0].K == 31 && devs[0].Err == 1 {
					r.Sample(map[string]any{"kind": "genkey", "label": label, "devs": devs, "reads": log, "outcome": out})
				}
				return log
			})
			genMu.Lock()
			genScripts += int64(n)
			genMu.Unlock()
			p := genP{Seed: r.Seed, Label: label, Nil: true}
			v, _, out := checkGen(p)
			if v != nil {
				r.Violation("genkey", p, v)
			}
			r.Case("gen-nil-"+label, true, out)
		})
	}

	// ---------- (c) ----------
	fixedEnc := pointEncodings()
	nHonest := mc.Pick(r, 2, 3)
	var verifyDims []map[string]int
	for hi := 0; hi < nHonest; hi++ {
		seed := honestSeed(r.Seed, hi)
		spriv := stded.NewKeyFromSeed(seed)
		pub := []byte(spriv.Public().(stded.PublicKey))
		aList := withHonest(fixedEnc, pub)
		for _, ml := range verifyMsgLens {
			msg := mc.Fill(r.Seed, fmt.Sprintf("c14-vmsg-%d-%d", hi, ml), ml)
			sig := stded.Sign(spriv, msg)
			rList := withHonest(fixedEnc, sig[:32])
			sList := sValues(sig[32:])
			verifyDims = append(verifyDims, map[string]int{"A": len(aList), "R": len(rList), "S": len(sList), "msg_len": ml})
			for ai := range aList {
				a := aList[ai]
				ai := ai
				jobs = append(jobs, func() {
					if stop() {
						return
					}
					cnt := counter{}
					buf := make([]byte, 64)
					for _, rr := range rList {
						for _, ss := range sList {
							copy(buf, rr)
							copy(buf[32:], ss)
							v, out, _ := checkVerify(a, msg, buf)
							if v != nil {
								r.Violation("verify", verP{hx(a), hx(msg), hx(buf)}, v)
							}
							cnt[out]++
						}
					}
					cnt.flush(r, func(k string) bool { return strings.HasPrefix(k, "verify:equation:") })
					if ai == 3 && ml == 33 && hi == 0 {
						r.Sample(map[string]any{"kind": "verify", "pub_hex": hx(a), "R_hex": hx(rList[1]), "S_hex": hx(sList[0]), "msg_len": ml})
					}
				})
			}
			// signatures that are VALID for low-order public keys: for every S of the alphabet (all of
			// [0, L) is canonical: L-1 and 2^252 have bit 252 set) and every torsion point T, R = [S]B + T;
			// with A the identity the equation holds for T = identity whatever the hash is, for the other
			// low-order keys it holds for the T matching k mod 8: crypto/ed25519 decides
			jobs = append(jobs, func() {
				if stop() {
					return
				}
				cnt := counter{}
				buf := make([]byte, 64)
				for _, ss := range sList {
					sv := edref.FromLE(ss)
					if sv.Cmp(bigL) >= 0 {
						continue
					}
					sb := edref.Mul(sv, edref.Base())
					for _, t := range torsion() {
						rr := edref.Compress(edref.Add(sb, t))
						for _, a := range aList {
							copy(buf, rr)
							copy(buf[32:], ss)
							v, out, _ := checkVerify(a, msg, buf)
							if v != nil {
								r.Violation("verify", verP{hx(a), hx(msg), hx(buf)}, v)
							}
							cnt["low-order/"+out]++
						}
					}
				}
				cnt.flush(r, func(k string) bool { return strings.Contains(k, "verify:equation:") })
			})
			// every key of the alphabet (also the ones that are not points) with the signature the owner of
			// ANOTHER, valid key would make over these key bytes, verified twice in a row
			jobs = append(jobs, func() {
				if stop() {
					return
				}
				cnt := counter{}
				for _, a := range aList {
					sg := signOverKeyBytes(a, msg)
					if v := checkTwice(a, msg, sg); v != nil {
						r.Violation("twice", verP{hx(a), hx(msg), hx(sg)}, v)
					}
					cnt["twice/verify:same verdict as crypto/ed25519 on both calls"]++
				}
				cnt.flush(r, func(k string) bool { return true })
			})
			// single-bit flips of the honest triple, and other signature lengths
			jobs = append(jobs, func() {
				if stop() {
					return
				}
				cnt := counter{}
				run := func(p, m, s []byte) {
					v, out, _ := checkVerify(p, m, s)
					if v != nil {
						r.Violation("verify", verP{hx(p), hx(m), hx(s)}, v)
					}
					cnt["bitflip/"+out]++
				}
				run(pub, msg, sig)
				for i := 0; i < 256; i++ {
					p := append([]byte(nil), pub...)
					p[i/8] ^= 1 << (i % 8)
					run(p, msg, sig)
				}
				for i := 0; i < 8*len(msg); i++ {
					m := append([]byte(nil), msg...)
					m[i/8] ^= 1 << (i % 8)
					run(pub, m, sig)
				}
				for i := 0; i < 512; i++ {
					s := append([]byte(nil), sig...)
					s[i/8] ^= 1 << (i % 8)
					run(pub, msg, s)
				}
				for _, n := range []int{0, 1, 32, 63, 65, 128} {
					s := make([]byte, n)
					copy(s, sig)
					run(pub, msg, s)
				}
				cnt.flush(r, func(k string) bool { return strings.HasPrefix(k, "verify:equation:") })
			})
		}
	}

	// ---------- (d) scalars ----------
	alpha := scalarAlphabet(r.Seed, th)
	alphaLE := make([][]byte, len(alpha))
	for i, v := range alpha {
		alphaLE[i] = edref.LE(v, 32)
	}
	// MultiplyAdd on all triples: one job per (i, j) row block
	for i := range alpha {
		i := i
		jobs = append(jobs, func() {
			if stop() {
				return
			}
			cnt := counter{}
			// scalars are immutable inputs here; build them once per row
			sc := make([]*ed.VerifScalar, len(alpha))
			if pn := mc.Catch(func() {
				for k := range alpha {
					sc[k] = mkScalar(alpha[k])
				}
			}); pn != "" {
				in := [][]byte{alphaLE[i], alphaLE[0], alphaLE[0]}
				if v, _ := checkScalar("muladd", in); v != nil {
					r.Violation("scalar", scP{"muladd", []string{hx(in[0]), hx(in[1]), hx(in[2])}}, v)
				}
				r.Bulk(1, 1, "differs")
				return
			}
			out := ed.VerifNewScalar()
			w := new(big.Int)
			var be [32]byte
			var nZero, nHigh, nLow, nBad int64
			slow := func(j, k int) {
				// confirm through the replayable path
				in := [][]byte{alphaLE[i], alphaLE[j], alphaLE[k]}
				if v, _ := checkScalar("muladd", in); v != nil {
					r.Violation("scalar", scP{"muladd", []string{hx(in[0]), hx(in[1]), hx(in[2])}}, v)
					nBad++
				} else {
					r.Note("MultiplyAdd mismatch in the bulk loop did not reproduce in isolation: %s", inHex(in))
				}
			}
			for j := range alpha {
				ab := mul(alpha[i], alpha[j])
				done := 0
				pn := mc.Catch(func() {
					for k := range alpha {
						w.Add(ab, alpha[k])
						w.Mod(w, bigL)
						got := out.MultiplyAdd(sc[i], sc[j], sc[k]).Bytes()
						w.FillBytes(be[:])
						same := len(got) == 32
						for x := 0; same && x < 32; x++ {
							same = got[x] == be[31-x]
						}
						done = k + 1
						if !same {
							slow(j, k)
							continue
						}
						switch {
						case w.Sign() == 0:
							nZero++
						case be[0] >= 0x10:
							nHigh++
						default:
							nLow++
						}
					}
				})
				if pn != "" { // a panic inside the row: finish the row one case at a time
					for k := done; k < len(alpha); k++ {
						slow(j, k)
					}
				}
			}
			cnt["scalar:muladd:=0"] = nZero
			cnt["scalar:muladd:>=2^252"] = nHigh
			cnt["scalar:muladd:<2^252"] = nLow
			if nBad > 0 {
				cnt["differs"] = nBad
			}
			for k, n := range cnt {
				if n == 0 {
					delete(cnt, k)
				}
			}
			cnt.flush(r, nil)
		})
	}
	// pairs and singles
	for i := range alpha {
		i := i
		jobs = append(jobs, func() {
			if stop() {
				return
			}
			cnt := counter{}
			do := func(op string, in ...[]byte) {
				v, out := checkScalar(op, in)
				if v != nil {
					hs := make([]string, len(in))
					for x := range in {
						hs[x] = hx(in[x])
					}
					r.Violation("scalar", scP{op, hs}, v)
				}
				cnt[out]++
			}
			for j := range alpha {
				do("add", alphaLE[i], alphaLE[j])
				do("sub", alphaLE[i], alphaLE[j])
				do("mul", alphaLE[i], alphaLE[j])
			}
			do("neg", alphaLE[i])
			if alpha[i].Sign() != 0 {
				do("inv", alphaLE[i])
				// the alphabet is closed under inversion: also the scalar whose INVERSE is this element
				// (results with many leading zero bytes: 1, 2, 3, 8, every 2^k)
				if inv := new(big.Int).ModInverse(alpha[i], bigL); inv != nil {
					do("inv", edref.LE(inv, 32))
				}
			}
			cnt.flush(r, nil)
		})
	}
	in32 := raw32(alpha)
	in64 := raw64(r.Seed, th)
	jobs = append(jobs, func() {
		cnt := counter{}
		do := func(op string, in []byte) {
			v, out := checkScalar(op, [][]byte{in})
			if v != nil {
				r.Violation("scalar", scP{op, []string{hx(in)}}, v)
			}
			cnt[out]++
		}
		for _, b := range in32 {
			do("setbytes", b)
			do("clamp", b)
			do("canonical", b)
		}
		for _, b := range in64 {
			do("uniform", b)
		}
		cnt.flush(r, nil)
		r.Sample(map[string]any{"kind": "scalar", "op": "uniform", "in_hex": hx(in64[len(in64)/2])})
	})

	// ---------- (d) points ----------
	psc := pointScalarAlphabet(r.Seed, th)
	pscLE := make([][]byte, len(psc))
	for i, v := range psc {
		pscLE[i] = edref.LE(v, 32)
	}
	var ptEnc encSet
	base := edref.Base()
	ptEnc.add(edref.Compress(base))
	ptEnc.add(edref.Compress(edref.Add(base, base)))
	for _, t := range torsion() {
		ptEnc.add(edref.Compress(t))
	}
	for hi := 0; hi < 3; hi++ {
		pub := []byte(stded.NewKeyFromSeed(honestSeed(r.Seed, hi)).Public().(stded.PublicKey))
		ptEnc.add(pub)
		if hi == 0 {
			pt, _ := edref.Decompress(pub)
			ptEnc.add(edref.Compress(edref.Add(pt, torsion()[1])))
		}
	}
	pts := ptEnc.list
	ptRef := make([]edref.Pt, len(pts))
	for i := range pts {
		ptRef[i], _ = edref.Decompress(pts[i])
	}
	// reference tables: a*P for every (a, P), b*B for every b; computed in parallel first
	aP := make([][]edref.Pt, len(psc))
	for i := range aP {
		aP[i] = make([]edref.Pt, len(pts))
	}
	bB := make([]edref.Pt, len(psc))
	r.Par(len(psc)*(len(pts)+1), func(x int) {
		i, j := x/(len(pts)+1), x%(len(pts)+1)
		if j == len(pts) {
			bB[i] = edref.Mul(psc[i], base)
		} else {
			aP[i][j] = edref.Mul(psc[i], ptRef[j])
		}
	})
	ptCase := func(cnt counter, p ptP, want []byte) {
		v, out := checkPoint(p, want)
		if v != nil {
			// make sure the stored case reproduces without the cached expectation
			r.Violation("point", p, v)
		}
		cnt[out]++
	}
	for i := range psc {
		i := i
		jobs = append(jobs, func() {
			if stop() {
				return
			}
			cnt := counter{}
			ptCase(cnt, ptP{Op: "basemult", A: hx(pscLE[i])}, edref.Compress(bB[i]))
			for j := range pts {
				ptCase(cnt, ptP{Op: "mult", A: hx(pscLE[i]), P: hx(pts[j])}, edref.Compress(aP[i][j]))
				for k := range psc {
					ptCase(cnt, ptP{Op: "double", A: hx(pscLE[i]), B: hx(pscLE[k]), P: hx(pts[j])}, edref.Compress(edref.Add(aP[i][j], bB[k])))
				}
			}
			cnt.flush(r, nil)
		})
	}
	// ScalarBaseMult over the full scalar alphabet
	for i := range alpha {
		i := i
		if i%4 != 0 && !th { // quick: every 4th row job handles 4 scalars to keep job count down
			continue
		}
		jobs = append(jobs, func() {
			if stop() {
				return
			}
			cnt := counter{}
			end := i + 1
			if !th {
				end = i + 4
			}
			for x := i; x < end && x < len(alpha); x++ {
				ptCase(cnt, ptP{Op: "basemult", A: hx(alphaLE[x])}, nil)
			}
			cnt.flush(r, nil)
		})
	}
	// decode / re-encode over the A alphabet, add / sub / neg over point pairs
	jobs = append(jobs, func() {
		cnt := counter{}
		for _, e := range withHonest(fixedEnc, pts[len(pts)-2]) {
			ptCase(cnt, ptP{Op: "decode", P: hx(e)}, nil)
		}
		for i := range pts {
			ptCase(cnt, ptP{Op: "neg", P: hx(pts[i])}, nil)
			for j := range pts {
				ptCase(cnt, ptP{Op: "add", P: hx(pts[i]), Q: hx(pts[j])}, nil)
				ptCase(cnt, ptP{Op: "sub", P: hx(pts[i]), Q: hx(pts[j])}, nil)
			}
		}
		cnt.flush(r, nil)
		r.Sample(map[string]any{"kind": "point", "op": "double", "a_hex": hx(pscLE[len(psc)/2]), "b_hex": hx(pscLE[len(psc)-1]), "p_hex": hx(pts[3])})
	})

	r.SetRule("(a) seeds x message lengths x message kinds; (b) every entropy script with <= bound deviations (read index x every byte position k x {short, EOF, ErrUnexpectedEOF, custom error}) per entropy label, plus the nil reader; (c) A-alphabet x R-alphabet x S-alphabet per (honest key, message), every single-bit flip of the honest (key, message, signature), six signature lengths; (d) MultiplyAdd on all ordered triples, Add/Subtract/Multiply on all ordered pairs, Negate/ModInverse on all elements of the scalar alphabet (ModInverse also on the inverse of every element), the four setters on the raw 32/64-byte alphabets, ScalarBaseMult/ScalarMult/VarTimeDoubleScalarBaseMult on point-scalar alphabet (x point alphabet (x point-scalar alphabet)), Add/Subtract on all point pairs. Alphabets are de-duplicated, so cases are distinct by construction. Non-trivial: verify cases where A decodes, the signature has 64 bytes and S < L (only the group equation decides); fault scripts with >= 1 deviation; every sign and arithmetic case")
	r.Assume("seeds, messages, scalars and points come from fixed alphabets of representatives (one per shortcut visible in the source: limb boundaries, the band [2^252, L), radix-16 and NAF window boundaries, small-order and non-canonical encodings), not from the full spaces; field arithmetic is reached only through the point operations on these operands",
		"crypto/ed25519 of the Go toolchain in use (go1.23.5) is the differential reference for derive/sign/verify/GenerateKey; math/big and the 200-line affine curve in checks/edref are the references for the arithmetic",
		"scalars handed to the Scalar/Point operations are reduced (< L), as every constructor of the package guarantees",
		"crypto/rand.Reader is replaced by a per-goroutine SHA-256 counter DRBG for the nil-reader case")
	r.Set("dimensions", map[string]any{
		"sign_seeds": len(seeds.list), "sign_msg_lens": msgLens, "sign_msg_kinds": msgKinds,
		"genkey_labels": labels, "genkey_deviation_bound": bound, "genkey_error_kinds": 4,
		"verify_honest_keys": nHonest, "verify_alphabets": verifyDims,
		"scalar_alphabet": len(alpha), "raw32_inputs": len(in32), "raw64_inputs": len(in64),
		"point_scalar_alphabet": len(psc), "points": len(pts),
	})
	r.Par(len(jobs), func(i int) { jobs[i]() })
	r.Set("genkey_scripts_executed", genScripts)
	r.Set("fine_grained_classes", detail)
	r.Finish()
}
