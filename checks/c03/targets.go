package main

import (
	"bytes"
	"crypto/ecdh"
	stdecdsa "crypto/ecdsa"
	stded25519 "crypto/ed25519"
	"crypto/elliptic"
	"crypto/x509"
	"encoding/hex"
	"fmt"
	"math/big"

	"github.com/cloudflare/circl/oprf"
	"github.com/cloudflare/pat-go/ecdsa"
	"github.com/cloudflare/pat-go/ed25519"
	"github.com/cloudflare/pat-go/quicwire"
	"github.com/cloudflare/pat-go/tokens"
	"github.com/cloudflare/pat-go/tokens/batched"
	"github.com/cloudflare/pat-go/tokens/type1"
	"github.com/cloudflare/pat-go/tokens/type2"
	"github.com/cloudflare/pat-go/tokens/type3"
	"github.com/cloudflare/pat-go/tokens/type5"
	"github.com/cloudflare/pat-go/util"

	"verif/bx"
	"verif/mc"
	"verif/px"
)

type target struct {
	Name  string
	Step  bool // protocol step (larger allocation bound) vs pure decoder
	StrL  int  // cap on the length of the all-strings generator (0 = tier default); used where every string is accepted and the accepting path is expensive
	Run   func(in []byte) bool
	Seeds []bx.Seed
}

// boundaryScalars: encodings (of the given width) of the values at which range checks flip.
func boundaryScalars(n *big.Int, width int) [][]byte {
	var out [][]byte
	one := big.NewInt(1)
	top := new(big.Int).Lsh(one, uint(8*width))
	for _, v := range []*big.Int{big.NewInt(0), one, new(big.Int).Sub(n, one), new(big.Int).Set(n), new(big.Int).Add(n, one), new(big.Int).Sub(top, one), new(big.Int).Rsh(n, 1)} {
		b := make([]byte, width)
		v.FillBytes(b)
		out = append(out, b)
	}
	return out
}

func derInt(b []byte) []byte {
	for len(b) > 1 && b[0] == 0 {
		b = b[1:]
	}
	if b[0]&0x80 != 0 {
		b = append([]byte{0}, b...)
	}
	return append([]byte{0x02, byte(len(b))}, b...)
}

// foreignSPKI: well-formed SubjectPublicKeyInfo structures of keys that are not RSA token keys
// (a peer can publish any of them as "its token key"), and the token key in its legacy form.
func foreignSPKI(w *bx.World) []bx.Seed {
	var out []bx.Seed
	add := func(name string, pub any) {
		b, err := x509.MarshalPKIXPublicKey(pub)
		if err != nil {
			panic(err)
		}
		out = append(out, bx.Seed{Name: "spki-" + name, Msg: b, Fields: []bx.Field{{1, 1}}})
	}
	for _, c := range []elliptic.Curve{elliptic.P224(), elliptic.P256(), elliptic.P384(), elliptic.P521()} {
		k, err := stdecdsa.GenerateKey(c, mc.NewStream(0, "c03-foreign-spki-"+c.Params().Name))
		if err != nil {
			panic(err)
		}
		add("ecdsa-"+c.Params().Name, &k.PublicKey)
	}
	edPub, _, err := stded25519.GenerateKey(mc.NewStream(0, "c03-foreign-spki-ed25519"))
	if err != nil {
		panic(err)
	}
	add("ed25519", edPub)
	xk, err := ecdh.X25519().GenerateKey(mc.NewStream(0, "c03-foreign-spki-x25519"))
	if err != nil {
		panic(err)
	}
	add("x25519", xk.PublicKey())
	pk, err := ecdh.P256().GenerateKey(mc.NewStream(0, "c03-foreign-spki-ecdh-p256"))
	if err != nil {
		panic(err)
	}
	add("ecdh-p256", pk.PublicKey())
	add("rsa-legacy-form", &w.W2.Key.PublicKey)
	// RSA keys in both forms whose modulus / exponent INTEGER is degenerate: zero, one, negative,
	// empty content, non-minimal
	algPSS := mustHexT("303d06092a864886f70d01010a3030a00d300b0609608648016503040202a11a301806092a864886f70d010108300b0609608648016503040202a203020130")
	algRSA := mustHexT("300d06092a864886f70d0101010500")
	ints := [][]byte{{}, {0x00}, {0x01}, {0x80}, {0xff}, {0x00, 0x80}, {0x00, 0x00, 0x01}, {0x01, 0x00, 0x01}, {0x7f, 0xff, 0xff, 0xff, 0xff}}
	for ai, alg := range [][]byte{algPSS, algRSA} {
		for ni, n := range ints {
			for ei, e := range ints {
				rsaPub := tlvT(0x30, append(tlvT(0x02, n), tlvT(0x02, e)...))
				spki := tlvT(0x30, append(append([]byte{}, alg...), tlvT(0x03, append([]byte{0x00}, rsaPub...))...))
				out = append(out, bx.Seed{Name: fmt.Sprintf("spki-degenerate-%d-%d-%d", ai, ni, ei), Msg: spki, Plain: true})
			}
		}
	}
	return out
}

func mustHexT(s string) []byte {
	b, err := hex.DecodeString(s)
	if err != nil {
		panic(err)
	}
	return b
}

// tlvT is a DER TLV with definite length (short or long form).
func tlvT(tag byte, content []byte) []byte {
	n := len(content)
	var l []byte
	switch {
	case n < 0x80:
		l = []byte{byte(n)}
	case n < 0x100:
		l = []byte{0x81, byte(n)}
	default:
		l = []byte{0x82, byte(n >> 8), byte(n)}
	}
	return append(append([]byte{tag}, l...), content...)
}

func targets(w *bx.World) []target {
	// requests that are correctly encrypted and signed but whose INNER plaintext is malformed:
	// every truncation of a valid inner request, and a few other shapes
	var inners []bx.Seed
	innerPlain := [][]byte{}
	for k := 0; k <= len(w.Inner); k += 1 {
		if k < 4 || k > 250 || k%16 == 0 {
			innerPlain = append(innerPlain, w.Inner[:k])
		}
	}
	innerPlain = append(innerPlain, append(append([]byte{}, w.Inner...), 0), append(append([]byte{}, w.Inner[:257]...), 0xff, 0xff), bytes.Repeat([]byte{0xff}, 300))
	// well-formed inner requests whose padded origin field is unusual: all zero (the padding of the
	// empty name, and lengths no client produces), zero except one byte, no zero at all
	for _, n := range []int{0, 1, 2, 31, 32, 33, 63, 64, 65, 96} {
		for _, pat := range []int{0, 1, 2, 3} {
			f := make([]byte, n)
			switch pat {
			case 1:
				if n > 0 {
					f[0] = 'a'
				}
			case 2:
				if n > 0 {
					f[n-1] = 'a'
				}
			case 3:
				for i := range f {
					f[i] = 0xff
				}
			}
			ip := append(append([]byte{}, w.Inner[:257]...), byte(n>>8), byte(n))
			innerPlain = append(innerPlain, append(ip, f...))
		}
	}
	for i, ip := range innerPlain {
		inners = append(inners, bx.Seed{Name: fmt.Sprintf("crafted-inner-%d", i), Msg: bx.CraftT3(0, w.W3, fmt.Sprintf("inner-%d", i), ip), Plain: true})
	}
	// boundary (r, s) pairs for every consumer of a peer-supplied ECDSA signature
	n384 := elliptic.P384().Params().N
	var rawPairs, derPairs, reqPairs []bx.Seed
	honestR, honestS := w.Req3.Signature[:48], w.Req3.Signature[48:]
	sc := append(boundaryScalars(n384, 48), honestR, honestS)
	for i, r := range sc {
		for j, s := range sc {
			name := fmt.Sprintf("rs-%d-%d", i, j)
			raw := append(append([]byte{}, r...), s...)
			rawPairs = append(rawPairs, bx.Seed{Name: name, Msg: raw, Plain: true})
			body := append(derInt(r), derInt(s)...)
			derPairs = append(derPairs, bx.Seed{Name: name, Msg: append([]byte{0x30, byte(len(body))}, body...), Plain: true})
			req := append(append([]byte{}, w.O3.Request[:len(w.O3.Request)-96]...), raw...)
			reqPairs = append(reqPairs, bx.Seed{Name: name, Msg: req, Plain: true})
		}
	}
	p384 := elliptic.P384()
	var ts []target
	add := func(t target) { ts = append(ts, t) }

	add(target{Name: "tokens.UnmarshalTokenChallenge", Run: func(in []byte) bool {
		_, err := tokens.UnmarshalTokenChallenge(in)
		return err == nil
	}, Seeds: []bx.Seed{{Name: "challenge", Msg: w.Challenge, Fields: []bx.Field{{0, 2}, {2, 2}, {18, 1}, {51, 2}}, Delims: []byte{','}}}})

	add(target{Name: "type1.UnmarshalPrivateToken+Verify", Step: true, Run: func(in []byte) bool {
		t, err := type1.UnmarshalPrivateToken(in)
		if err != nil {
			return false
		}
		return w.W1.Issuer.Verify(t) == nil
	}, Seeds: []bx.Seed{{Name: "token1", Msg: w.O1.Tokens[0], Fields: []bx.Field{{0, 2}}}}})
	add(target{Name: "type5.UnmarshalBatchedPrivateToken+Verify", Step: true, Run: func(in []byte) bool {
		t, err := type5.UnmarshalBatchedPrivateToken(in)
		if err != nil {
			return false
		}
		return w.W5.Issuer.Verify(t) == nil
	}, Seeds: []bx.Seed{{Name: "token5", Msg: w.O5.Tokens[0], Fields: []bx.Field{{0, 2}}}}})
	add(target{Name: "type2.UnmarshalToken", Run: func(in []byte) bool {
		_, err := type2.UnmarshalToken(in)
		return err == nil
	}, Seeds: []bx.Seed{{Name: "token2", Msg: w.O2.Tokens[0], Fields: []bx.Field{{0, 2}}}}})
	add(target{Name: "type3.UnmarshalToken", Run: func(in []byte) bool {
		_, err := type3.UnmarshalToken(in)
		return err == nil
	}, Seeds: []bx.Seed{{Name: "token3", Msg: w.O3.Tokens[0], Fields: []bx.Field{{0, 2}}}}})

	add(target{Name: "type1.Request.Unmarshal+Evaluate", Step: true, Run: func(in []byte) bool {
		r := new(type1.BasicPrivateTokenRequest)
		if !r.Unmarshal(in) {
			return false
		}
		_ = r.Marshal()
		_, err := w.W1.Issuer.Evaluate(r)
		return err == nil
	}, Seeds: []bx.Seed{{Name: "request1", Msg: w.O1.Request, Fields: []bx.Field{{0, 2}, {2, 1}}}}})
	add(target{Name: "type2.Request.Unmarshal+Evaluate", Step: true, Run: func(in []byte) bool {
		r := new(type2.BasicPublicTokenRequest)
		if !r.Unmarshal(in) {
			return false
		}
		_ = r.Marshal()
		_, err := w.W2.Issuer.Evaluate(r)
		return err == nil
	}, Seeds: []bx.Seed{{Name: "request2", Msg: w.O2.Request, Fields: []bx.Field{{0, 2}, {2, 1}}}}})
	add(target{Name: "type5.Request.Unmarshal+Evaluate", Step: true, Run: func(in []byte) bool {
		r := new(type5.BatchedPrivateTokenRequest)
		if !r.Unmarshal(in) {
			return false
		}
		_ = r.Marshal()
		_, err := w.W5.Issuer.Evaluate(r)
		return err == nil
	}, Seeds: []bx.Seed{{Name: "request5", Msg: w.O5.Request, Fields: []bx.Field{{0, 2}, {2, 1}, {3, bx.VarintWidth(w.O5.Request[3:])}}}}})
	add(target{Name: "type3.Request.Unmarshal+VerifyRequest", Step: true, Run: func(in []byte) bool {
		r := new(type3.RateLimitedTokenRequest)
		if !r.Unmarshal(in) {
			return false
		}
		_ = r.Marshal()
		att := type3.NewRateLimitedAttester(px.NewMemCache())
		return att.VerifyRequest(*r, w.A3.Blind, w.O3.ClientKey, w.A3.AnonOrigin) == nil
	}, Seeds: append([]bx.Seed{{Name: "request3", Msg: w.O3.Request, Fields: []bx.Field{{0, 2}, {83, 2}}}}, reqPairs...)})
	add(target{Name: "type3.Issuer.Evaluate", Step: true, Run: func(in []byte) bool {
		_, _, err := w.W3.Issuer.Evaluate(in)
		return err == nil
	}, Seeds: append(append([]bx.Seed{{Name: "request3", Msg: w.O3.Request, Fields: []bx.Field{{0, 2}, {83, 2}}}}, reqPairs...), inners...)})
	add(target{Name: "type3.InnerTokenRequest.Unmarshal", Run: func(in []byte) bool {
		r := new(type3.InnerTokenRequest)
		ok := r.Unmarshal(in)
		if ok {
			_ = r.Marshal()
		}
		return ok
	}, Seeds: []bx.Seed{{Name: "inner", Msg: w.Inner, Fields: []bx.Field{{0, 1}, {257, 2}}}}})
	add(target{Name: "type3.UnmarshalEncapKey", Run: func(in []byte) bool {
		k, err := type3.UnmarshalEncapKey(in)
		if err == nil {
			_ = k.Marshal()
		}
		return err == nil
	}, Seeds: []bx.Seed{{Name: "encapkey", Msg: w.W3.NameKeyWire, Fields: []bx.Field{{0, 1}, {1, 2}, {35, 2}, {37, 2}}}}})

	add(target{Name: "type1.FinalizeToken", Step: true, Run: func(in []byte) bool {
		_, err := w.St1.FinalizeToken(in)
		return err == nil
	}, Seeds: []bx.Seed{{Name: "response1", Msg: w.O1.Response}}})
	add(target{Name: "type2.FinalizeToken", Step: true, Run: func(in []byte) bool {
		_, err := w.St2.FinalizeToken(in)
		return err == nil
	}, Seeds: []bx.Seed{{Name: "response2", Msg: w.O2.Response}}})
	add(target{Name: "type3.FinalizeToken", Step: true, Run: func(in []byte) bool {
		_, err := w.St3.FinalizeToken(in)
		return err == nil
	}, Seeds: []bx.Seed{{Name: "response3", Msg: w.O3.Response}}})
	add(target{Name: "type5.FinalizeTokens", Step: true, Run: func(in []byte) bool {
		_, err := w.St5.FinalizeTokens(in)
		return err == nil
	}, Seeds: []bx.Seed{{Name: "response5", Msg: w.O5.Response, Fields: []bx.Field{{0, bx.VarintWidth(w.O5.Response)}}}}})

	bw := bx.VarintWidth(w.BatchReq)
	// the same decoders on an object that has already decoded (and marshalled) a SMALLER valid message:
	// a server that keeps its request object
	small5 := append(append([]byte{}, w.O5.Request[:3]...), 0x20)
	small5 = append(small5, w.O5.Request[3+bx.VarintWidth(w.O5.Request[3:]):][:32]...)
	smallInner := append(append([]byte{}, w.Inner[:257]...), 0x00, 0x20)
	smallInner = append(smallInner, append([]byte("o"), make([]byte, 31)...)...)
	used := func(name string, mk func() interface {
		Unmarshal([]byte) bool
		Marshal() []byte
	}, first []byte, seeds []bx.Seed) {
		add(target{Name: name + " (object used before)", Run: func(in []byte) bool {
			o := mk()
			if !o.Unmarshal(append([]byte{}, first...)) {
				panic("harness: the first message does not decode: " + name)
			}
			_ = o.Marshal()
			ok := o.Unmarshal(in)
			if ok {
				_ = o.Marshal()
			}
			return ok
		}, Seeds: seeds})
	}
	type dec = interface {
		Unmarshal([]byte) bool
		Marshal() []byte
	}
	used("type1.Request.Unmarshal", func() dec { return new(type1.BasicPrivateTokenRequest) }, w.O1.Request, []bx.Seed{{Name: "request1", Msg: w.O1.Request, Fields: []bx.Field{{0, 2}, {2, 1}}}})
	used("type2.Request.Unmarshal", func() dec { return new(type2.BasicPublicTokenRequest) }, w.O2.Request, []bx.Seed{{Name: "request2", Msg: w.O2.Request, Fields: []bx.Field{{0, 2}, {2, 1}}}})
	used("type5.Request.Unmarshal", func() dec { return new(type5.BatchedPrivateTokenRequest) }, small5, []bx.Seed{{Name: "request5", Msg: w.O5.Request, Fields: []bx.Field{{0, 2}, {2, 1}, {3, bx.VarintWidth(w.O5.Request[3:])}}}})
	used("type3.Request.Unmarshal", func() dec { return new(type3.RateLimitedTokenRequest) }, w.O3.Request, []bx.Seed{{Name: "request3", Msg: w.O3.Request, Fields: []bx.Field{{0, 2}, {83, 2}}}})
	used("type3.InnerTokenRequest.Unmarshal", func() dec { return new(type3.InnerTokenRequest) }, smallInner, []bx.Seed{{Name: "inner", Msg: w.Inner, Fields: []bx.Field{{0, 1}, {257, 2}}}})
	add(target{Name: "batched.Request.Unmarshal+EvaluateBatch", Step: true, Run: func(in []byte) bool {
		r := new(batched.BatchedTokenRequest)
		if !r.Unmarshal(in) {
			return false
		}
		_ = r.Marshal()
		_, err := w.BIssuer.EvaluateBatch(r)
		return err == nil
	}, Seeds: []bx.Seed{{Name: "batchrequest", Msg: w.BatchReq, Fields: []bx.Field{{0, bw}, {bw, 2}, {bw + 52, 2}}}}})
	// the same batches at batch issuers that serve one token type only (the other type's requests
	// take the "token type not supported" path)
	only1 := batched.NewBasicBatchedIssuer(bx.Issuer1{I: w.W1.Issuer})
	only2 := batched.NewBasicBatchedIssuer(bx.Issuer2{I: w.W2.Issuer})
	none := batched.NewBasicBatchedIssuer()
	for _, bi := range []struct {
		name string
		i    *batched.BasicBatchedIssuer
	}{{"type-1 issuer only", only1}, {"type-2 issuer only", only2}, {"no issuer", none}} {
		bi := bi
		add(target{Name: "batched.Request.Unmarshal+EvaluateBatch (" + bi.name + ")", Step: true, Run: func(in []byte) bool {
			r := new(batched.BatchedTokenRequest)
			if !r.Unmarshal(in) {
				return false
			}
			_, err := bi.i.EvaluateBatch(r)
			return err == nil
		}, Seeds: []bx.Seed{{Name: "batchrequest", Msg: w.BatchReq, Fields: []bx.Field{{0, bw}, {bw, 2}, {bw + 52, 2}}, Plain: false}}})
	}
	rw := bx.VarintWidth(w.BatchResp)
	add(target{Name: "batched.UnmarshalBatchedTokenResponses", Run: func(in []byte) bool {
		_, err := batched.UnmarshalBatchedTokenResponses(in)
		return err == nil
	}, Seeds: []bx.Seed{{Name: "batchresponse", Msg: w.BatchResp, Fields: []bx.Field{{0, rw}, {rw, 1}, {rw + 1, 2}, {rw + 3 + 145, 1}, {rw + 3 + 145 + 1, 2}}}}})

	newAtt := func() *type3.RateLimitedAttester {
		c := px.NewMemCache()
		a := type3.NewRateLimitedAttester(c)
		_ = a.VerifyRequest(w.Req3, w.A3.Blind, w.O3.ClientKey, w.A3.AnonOrigin)
		return a
	}
	add(target{Name: "type3.VerifyRequest(blind=bytes)", Step: true, StrL: 3, Run: func(in []byte) bool {
		return type3.NewRateLimitedAttester(px.NewMemCache()).VerifyRequest(w.Req3, in, w.O3.ClientKey, w.A3.AnonOrigin) == nil
	}, Seeds: []bx.Seed{{Name: "blind", Msg: w.A3.Blind}}})
	add(target{Name: "type3.VerifyRequest(clientKey=bytes)", Step: true, Run: func(in []byte) bool {
		return type3.NewRateLimitedAttester(px.NewMemCache()).VerifyRequest(w.Req3, w.A3.Blind, in, w.A3.AnonOrigin) == nil
	}, Seeds: []bx.Seed{{Name: "clientkey", Msg: w.O3.ClientKey}}})
	add(target{Name: "type3.VerifyRequest(signature=bytes)", Step: true, Run: func(in []byte) bool {
		r := w.Req3
		r.Signature = in
		return type3.NewRateLimitedAttester(px.NewMemCache()).VerifyRequest(r, w.A3.Blind, w.O3.ClientKey, w.A3.AnonOrigin) == nil
	}, Seeds: append([]bx.Seed{{Name: "signature", Msg: w.Req3.Signature}}, rawPairs...)})
	add(target{Name: "type3.VerifyRequest(requestKey=bytes)", Step: true, StrL: 3, Run: func(in []byte) bool {
		r := w.Req3
		r.RequestKey = in
		return type3.NewRateLimitedAttester(px.NewMemCache()).VerifyRequest(r, w.A3.Blind, w.O3.ClientKey, w.A3.AnonOrigin) == nil
	}, Seeds: []bx.Seed{{Name: "requestkey", Msg: w.Req3.RequestKey}}})
	add(target{Name: "type3.FinalizeIndex(clientKey=bytes)", Step: true, Run: func(in []byte) bool {
		_, err := newAtt().FinalizeIndex(in, w.A3.Blind, w.O3.BlindedReqKey, w.A3.AnonOrigin)
		return err == nil
	}, Seeds: []bx.Seed{{Name: "clientkey", Msg: w.O3.ClientKey}}})
	add(target{Name: "type3.FinalizeIndex(blind=bytes)", Step: true, StrL: 3, Run: func(in []byte) bool {
		_, err := newAtt().FinalizeIndex(w.O3.ClientKey, in, w.O3.BlindedReqKey, w.A3.AnonOrigin)
		return err == nil
	}, Seeds: []bx.Seed{{Name: "blind", Msg: w.A3.Blind}}})
	add(target{Name: "type3.FinalizeIndex(blindedRequestKey=bytes)", Step: true, Run: func(in []byte) bool {
		_, err := newAtt().FinalizeIndex(w.O3.ClientKey, w.A3.Blind, in, w.A3.AnonOrigin)
		return err == nil
	}, Seeds: []bx.Seed{{Name: "blindedreqkey", Msg: w.O3.BlindedReqKey}}})
	add(target{Name: "type3.FinalizeIndex(anonOrigin=bytes)", Step: true, StrL: 2, Run: func(in []byte) bool {
		_, err := newAtt().FinalizeIndex(w.O3.ClientKey, w.A3.Blind, w.O3.BlindedReqKey, in)
		return err == nil
	}, Seeds: []bx.Seed{{Name: "anon", Msg: w.A3.AnonOrigin}}})

	add(target{Name: "quicwire.Consume*", Run: func(in []byte) bool {
		_, n1 := quicwire.ConsumeVarint(in)
		_, n2 := quicwire.ConsumeVarintInt64(in)
		_, n3 := quicwire.ConsumeVarintBytes(in)
		_, n4 := quicwire.ConsumeUint8Bytes(in)
		_, n5 := quicwire.ConsumeUint32(in)
		_, n6 := quicwire.ConsumeUint64(in)
		return n1 >= 0 && n2 >= 0 && n3 >= 0 && n4 >= 0 && n5 >= 0 && n6 >= 0
	}, Seeds: []bx.Seed{{Name: "varintbytes", Msg: quicwire.AppendVarintBytes(nil, w.Challenge), Fields: []bx.Field{{0, 2}}}}})

	add(target{Name: "util.UnmarshalTokenKey", Run: func(in []byte) bool {
		_, err := util.UnmarshalTokenKey(in)
		return err == nil
	}, Seeds: append([]bx.Seed{{Name: "spki", Msg: w.SPKI, Fields: []bx.Field{{1, 3}, {5, 1}, {72, 3}}}}, foreignSPKI(w)...)})

	add(target{Name: "ecdsa.VerifyASN1", Step: true, Run: func(in []byte) bool {
		return ecdsa.VerifyASN1(&w.EcKey.PublicKey, w.EcDigest, in)
	}, Seeds: append([]bx.Seed{{Name: "ecdsa-der", Msg: w.EcSig, Fields: []bx.Field{{1, 1}, {3, 1}}}}, derPairs...)})
	add(target{Name: "ecdsa.Verify(r||s=bytes)", Step: true, Run: func(in []byte) bool {
		h := len(in) / 2
		r := new(big.Int).SetBytes(in[:h])
		s := new(big.Int).SetBytes(in[h:])
		return ecdsa.Verify(&w.EcKey.PublicKey, w.EcDigest, r, s)
	}, Seeds: append([]bx.Seed{{Name: "ecdsa-raw", Msg: w.Req3.Signature}}, rawPairs...)})
	add(target{Name: "ecdsa.Verify(digest=bytes)", Step: true, Run: func(in []byte) bool {
		return ecdsa.VerifyASN1(&w.EcKey.PublicKey, in, w.EcSig)
	}, Seeds: []bx.Seed{{Name: "digest", Msg: w.EcDigest}}})
	_ = p384

	add(target{Name: "ed25519.Verify(sig=bytes)", Step: true, Run: func(in []byte) bool {
		return ed25519.Verify(w.EdPub, w.EdMsg, in)
	}, Seeds: []bx.Seed{{Name: "ed-sig", Msg: w.EdSig}}})
	add(target{Name: "ed25519.Verify(key32||msg=bytes)", Step: true, Run: func(in []byte) bool {
		if len(in) < 32 {
			return false // a key that is not 32 bytes panics by contract (like the standard library); out of scope
		}
		return ed25519.Verify(ed25519.PublicKey(in[:32]), in[32:], w.EdSig)
	}, Seeds: []bx.Seed{{Name: "ed-key-msg", Msg: append(append([]byte{}, w.EdPub...), w.EdMsg...)}}})
	add(target{Name: "ed25519.BlindPublicKeyWithContext(key=bytes)", Step: true, Run: func(in []byte) bool {
		bl := append([]byte(nil), w.A3.AnonOrigin...)
		_, err := ed25519.BlindPublicKeyWithContext(ed25519.PublicKey(in), bl[:32:32], []byte("ctx"))
		return err == nil
	}, Seeds: []bx.Seed{{Name: "ed-key", Msg: w.EdPub}}})
	add(target{Name: "ed25519.UnblindPublicKeyWithContext(key=bytes)", Step: true, Run: func(in []byte) bool {
		bl := append([]byte(nil), w.A3.AnonOrigin...)
		_, err := ed25519.UnblindPublicKeyWithContext(ed25519.PublicKey(in), bl[:32:32], []byte("ctx"))
		return err == nil
	}, Seeds: []bx.Seed{{Name: "ed-key", Msg: w.EdPub}}})
	add(target{Name: "ed25519.BlindPublicKeyWithContext(blind,ctx=bytes)", Step: true, StrL: 3, Run: func(in []byte) bool {
		h := len(in) / 2
		_, err := ed25519.BlindPublicKeyWithContext(w.EdPub, in[:h:h], in[h:])
		return err == nil
	}, Seeds: []bx.Seed{{Name: "ed-blind-ctx", Msg: append(append([]byte{}, w.A3.AnonOrigin...), []byte("context string, 32 bytes long ..")...)}}})

	_ = oprf.SuiteP384
	return ts
}
