package main

import (
	"crypto/elliptic"
	"math/big"

	"github.com/cloudflare/circl/oprf"
	"github.com/cloudflare/pat-go/ecdsa"
	"github.com/cloudflare/pat-go/ed25519"
	"github.com/cloudflare/pat-go/quicwire"
	"github.com/cloudflare/pat-go/tokens"
	"github.com/cloudflare/pat-go/tokens/batched"
	"github.com/cloudflare/pat-go/tokens/type1"
	"github.com/cloudflare/pat-go/tokens/type2"
	"github.com/cloudflare/pat-go/tokens/type3"
	"github.com/cloudflare/pat-go/tokens/type5"
	"github.com/cloudflare/pat-go/util"

	"verif/bx"
	"verif/px"
)

type target struct {
	Name  string
	Step  bool // protocol step (larger allocation bound) vs pure decoder
	StrL  int  // cap on the length of the all-strings generator (0 = tier default); used where every string is accepted and the accepting path is expensive
	Run   func(in []byte) bool
	Seeds []bx.Seed
}

func targets(w *bx.World) []target {
	p384 := elliptic.P384()
	var ts []target
	add := func(t target) { ts = append(ts, t) }

	add(target{Name: "tokens.UnmarshalTokenChallenge", Run: func(in []byte) bool {
		_, err := tokens.UnmarshalTokenChallenge(in)
		return err == nil
	}, Seeds: []bx.Seed{{"challenge", w.Challenge, []bx.Field{{0, 2}, {2, 2}, {18, 1}, {51, 2}}}}})

	add(target{Name: "type1.UnmarshalPrivateToken+Verify", Step: true, Run: func(in []byte) bool {
		t, err := type1.UnmarshalPrivateToken(in)
		if err != nil {
			return false
		}
		return w.W1.Issuer.Verify(t) == nil
	}, Seeds: []bx.Seed{{"token1", w.O1.Tokens[0], []bx.Field{{0, 2}}}}})
	add(target{Name: "type5.UnmarshalBatchedPrivateToken+Verify", Step: true, Run: func(in []byte) bool {
		t, err := type5.UnmarshalBatchedPrivateToken(in)
		if err != nil {
			return false
		}
		return w.W5.Issuer.Verify(t) == nil
	}, Seeds: []bx.Seed{{"token5", w.O5.Tokens[0], []bx.Field{{0, 2}}}}})
	add(target{Name: "type2.UnmarshalToken", Run: func(in []byte) bool {
		_, err := type2.UnmarshalToken(in)
		return err == nil
	}, Seeds: []bx.Seed{{"token2", w.O2.Tokens[0], []bx.Field{{0, 2}}}}})
	add(target{Name: "type3.UnmarshalToken", Run: func(in []byte) bool {
		_, err := type3.UnmarshalToken(in)
		return err == nil
	}, Seeds: []bx.Seed{{"token3", w.O3.Tokens[0], []bx.Field{{0, 2}}}}})

	add(target{Name: "type1.Request.Unmarshal+Evaluate", Step: true, Run: func(in []byte) bool {
		r := new(type1.BasicPrivateTokenRequest)
		if !r.Unmarshal(in) {
			return false
		}
		_ = r.Marshal()
		_, err := w.W1.Issuer.Evaluate(r)
		return err == nil
	}, Seeds: []bx.Seed{{"request1", w.O1.Request, []bx.Field{{0, 2}, {2, 1}}}}})
	add(target{Name: "type2.Request.Unmarshal+Evaluate", Step: true, Run: func(in []byte) bool {
		r := new(type2.BasicPublicTokenRequest)
		if !r.Unmarshal(in) {
			return false
		}
		_ = r.Marshal()
		_, err := w.W2.Issuer.Evaluate(r)
		return err == nil
	}, Seeds: []bx.Seed{{"request2", w.O2.Request, []bx.Field{{0, 2}, {2, 1}}}}})
	add(target{Name: "type5.Request.Unmarshal+Evaluate", Step: true, Run: func(in []byte) bool {
		r := new(type5.BatchedPrivateTokenRequest)
		if !r.Unmarshal(in) {
			return false
		}
		_ = r.Marshal()
		_, err := w.W5.Issuer.Evaluate(r)
		return err == nil
	}, Seeds: []bx.Seed{{"request5", w.O5.Request, []bx.Field{{0, 2}, {2, 1}, {3, bx.VarintWidth(w.O5.Request[3:])}}}}})
	add(target{Name: "type3.Request.Unmarshal+VerifyRequest", Step: true, Run: func(in []byte) bool {
		r := new(type3.RateLimitedTokenRequest)
		if !r.Unmarshal(in) {
			return false
		}
		_ = r.Marshal()
		att := type3.NewRateLimitedAttester(px.NewMemCache())
		return att.VerifyRequest(*r, w.A3.Blind, w.O3.ClientKey, w.A3.AnonOrigin) == nil
	}, Seeds: []bx.Seed{{"request3", w.O3.Request, []bx.Field{{0, 2}, {83, 2}}}}})
	add(target{Name: "type3.Issuer.Evaluate", Step: true, Run: func(in []byte) bool {
		_, _, err := w.W3.Issuer.Evaluate(in)
		return err == nil
	}, Seeds: []bx.Seed{{"request3", w.O3.Request, []bx.Field{{0, 2}, {83, 2}}}}})
	add(target{Name: "type3.InnerTokenRequest.Unmarshal", Run: func(in []byte) bool {
		r := new(type3.InnerTokenRequest)
		ok := r.Unmarshal(in)
		if ok {
			_ = r.Marshal()
		}
		return ok
	}, Seeds: []bx.Seed{{"inner", w.Inner, []bx.Field{{0, 1}, {257, 2}}}}})
	add(target{Name: "type3.UnmarshalEncapKey", Run: func(in []byte) bool {
		k, err := type3.UnmarshalEncapKey(in)
		if err == nil {
			_ = k.Marshal()
		}
		return err == nil
	}, Seeds: []bx.Seed{{"encapkey", w.W3.NameKeyWire, []bx.Field{{0, 1}, {1, 2}, {35, 2}, {37, 2}}}}})

	add(target{Name: "type1.FinalizeToken", Step: true, Run: func(in []byte) bool {
		_, err := w.St1.FinalizeToken(in)
		return err == nil
	}, Seeds: []bx.Seed{{"response1", w.O1.Response, nil}}})
	add(target{Name: "type2.FinalizeToken", Step: true, Run: func(in []byte) bool {
		_, err := w.St2.FinalizeToken(in)
		return err == nil
	}, Seeds: []bx.Seed{{"response2", w.O2.Response, nil}}})
	add(target{Name: "type3.FinalizeToken", Step: true, Run: func(in []byte) bool {
		_, err := w.St3.FinalizeToken(in)
		return err == nil
	}, Seeds: []bx.Seed{{"response3", w.O3.Response, nil}}})
	add(target{Name: "type5.FinalizeTokens", Step: true, Run: func(in []byte) bool {
		_, err := w.St5.FinalizeTokens(in)
		return err == nil
	}, Seeds: []bx.Seed{{"response5", w.O5.Response, []bx.Field{{0, bx.VarintWidth(w.O5.Response)}}}}})

	bw := bx.VarintWidth(w.BatchReq)
	add(target{Name: "batched.Request.Unmarshal+EvaluateBatch", Step: true, Run: func(in []byte) bool {
		r := new(batched.BatchedTokenRequest)
		if !r.Unmarshal(in) {
			return false
		}
		_ = r.Marshal()
		_, err := w.BIssuer.EvaluateBatch(r)
		return err == nil
	}, Seeds: []bx.Seed{{"batchrequest", w.BatchReq, []bx.Field{{0, bw}, {bw, 2}, {bw + 52, 2}}}}})
	rw := bx.VarintWidth(w.BatchResp)
	add(target{Name: "batched.UnmarshalBatchedTokenResponses", Run: func(in []byte) bool {
		_, err := batched.UnmarshalBatchedTokenResponses(in)
		return err == nil
	}, Seeds: []bx.Seed{{"batchresponse", w.BatchResp, []bx.Field{{0, rw}, {rw, 1}, {rw + 1, 2}, {rw + 3 + 145, 1}, {rw + 3 + 145 + 1, 2}}}}})

	newAtt := func() *type3.RateLimitedAttester {
		c := px.NewMemCache()
		a := type3.NewRateLimitedAttester(c)
		_ = a.VerifyRequest(w.Req3, w.A3.Blind, w.O3.ClientKey, w.A3.AnonOrigin)
		return a
	}
	add(target{Name: "type3.VerifyRequest(blind=bytes)", Step: true, StrL: 3, Run: func(in []byte) bool {
		return type3.NewRateLimitedAttester(px.NewMemCache()).VerifyRequest(w.Req3, in, w.O3.ClientKey, w.A3.AnonOrigin) == nil
	}, Seeds: []bx.Seed{{"blind", w.A3.Blind, nil}}})
	add(target{Name: "type3.VerifyRequest(clientKey=bytes)", Step: true, Run: func(in []byte) bool {
		return type3.NewRateLimitedAttester(px.NewMemCache()).VerifyRequest(w.Req3, w.A3.Blind, in, w.A3.AnonOrigin) == nil
	}, Seeds: []bx.Seed{{"clientkey", w.O3.ClientKey, nil}}})
	add(target{Name: "type3.VerifyRequest(signature=bytes)", Step: true, Run: func(in []byte) bool {
		r := w.Req3
		r.Signature = in
		return type3.NewRateLimitedAttester(px.NewMemCache()).VerifyRequest(r, w.A3.Blind, w.O3.ClientKey, w.A3.AnonOrigin) == nil
	}, Seeds: []bx.Seed{{"signature", w.Req3.Signature, nil}}})
	add(target{Name: "type3.VerifyRequest(requestKey=bytes)", Step: true, StrL: 3, Run: func(in []byte) bool {
		r := w.Req3
		r.RequestKey = in
		return type3.NewRateLimitedAttester(px.NewMemCache()).VerifyRequest(r, w.A3.Blind, w.O3.ClientKey, w.A3.AnonOrigin) == nil
	}, Seeds: []bx.Seed{{"requestkey", w.Req3.RequestKey, nil}}})
	add(target{Name: "type3.FinalizeIndex(clientKey=bytes)", Step: true, Run: func(in []byte) bool {
		_, err := newAtt().FinalizeIndex(in, w.A3.Blind, w.O3.BlindedReqKey, w.A3.AnonOrigin)
		return err == nil
	}, Seeds: []bx.Seed{{"clientkey", w.O3.ClientKey, nil}}})
	add(target{Name: "type3.FinalizeIndex(blind=bytes)", Step: true, StrL: 3, Run: func(in []byte) bool {
		_, err := newAtt().FinalizeIndex(w.O3.ClientKey, in, w.O3.BlindedReqKey, w.A3.AnonOrigin)
		return err == nil
	}, Seeds: []bx.Seed{{"blind", w.A3.Blind, nil}}})
	add(target{Name: "type3.FinalizeIndex(blindedRequestKey=bytes)", Step: true, Run: func(in []byte) bool {
		_, err := newAtt().FinalizeIndex(w.O3.ClientKey, w.A3.Blind, in, w.A3.AnonOrigin)
		return err == nil
	}, Seeds: []bx.Seed{{"blindedreqkey", w.O3.BlindedReqKey, nil}}})
	add(target{Name: "type3.FinalizeIndex(anonOrigin=bytes)", Step: true, StrL: 2, Run: func(in []byte) bool {
		_, err := newAtt().FinalizeIndex(w.O3.ClientKey, w.A3.Blind, w.O3.BlindedReqKey, in)
		return err == nil
	}, Seeds: []bx.Seed{{"anon", w.A3.AnonOrigin, nil}}})

	add(target{Name: "quicwire.Consume*", Run: func(in []byte) bool {
		_, n1 := quicwire.ConsumeVarint(in)
		_, n2 := quicwire.ConsumeVarintInt64(in)
		_, n3 := quicwire.ConsumeVarintBytes(in)
		_, n4 := quicwire.ConsumeUint8Bytes(in)
		_, n5 := quicwire.ConsumeUint32(in)
		_, n6 := quicwire.ConsumeUint64(in)
		return n1 >= 0 && n2 >= 0 && n3 >= 0 && n4 >= 0 && n5 >= 0 && n6 >= 0
	}, Seeds: []bx.Seed{{"varintbytes", quicwire.AppendVarintBytes(nil, w.Challenge), []bx.Field{{0, 2}}}}})

	add(target{Name: "util.UnmarshalTokenKey", Run: func(in []byte) bool {
		_, err := util.UnmarshalTokenKey(in)
		return err == nil
	}, Seeds: []bx.Seed{{"spki", w.SPKI, []bx.Field{{1, 3}, {5, 1}, {72, 3}}}}})

	add(target{Name: "ecdsa.VerifyASN1", Step: true, Run: func(in []byte) bool {
		return ecdsa.VerifyASN1(&w.EcKey.PublicKey, w.EcDigest, in)
	}, Seeds: []bx.Seed{{"ecdsa-der", w.EcSig, []bx.Field{{1, 1}, {3, 1}}}}})
	add(target{Name: "ecdsa.Verify(r||s=bytes)", Step: true, Run: func(in []byte) bool {
		h := len(in) / 2
		r := new(big.Int).SetBytes(in[:h])
		s := new(big.Int).SetBytes(in[h:])
		return ecdsa.Verify(&w.EcKey.PublicKey, w.EcDigest, r, s)
	}, Seeds: []bx.Seed{{"ecdsa-raw", w.Req3.Signature, nil}}})
	add(target{Name: "ecdsa.Verify(digest=bytes)", Step: true, Run: func(in []byte) bool {
		return ecdsa.VerifyASN1(&w.EcKey.PublicKey, in, w.EcSig)
	}, Seeds: []bx.Seed{{"digest", w.EcDigest, nil}}})
	_ = p384

	add(target{Name: "ed25519.Verify(sig=bytes)", Step: true, Run: func(in []byte) bool {
		return ed25519.Verify(w.EdPub, w.EdMsg, in)
	}, Seeds: []bx.Seed{{"ed-sig", w.EdSig, nil}}})
	add(target{Name: "ed25519.Verify(key32||msg=bytes)", Step: true, Run: func(in []byte) bool {
		if len(in) < 32 {
			return false // a key that is not 32 bytes panics by contract (like the standard library); out of scope
		}
		return ed25519.Verify(ed25519.PublicKey(in[:32]), in[32:], w.EdSig)
	}, Seeds: []bx.Seed{{"ed-key-msg", append(append([]byte{}, w.EdPub...), w.EdMsg...), nil}}})
	add(target{Name: "ed25519.BlindPublicKeyWithContext(key=bytes)", Step: true, Run: func(in []byte) bool {
		bl := append([]byte(nil), w.A3.AnonOrigin...)
		_, err := ed25519.BlindPublicKeyWithContext(ed25519.PublicKey(in), bl[:32:32], []byte("ctx"))
		return err == nil
	}, Seeds: []bx.Seed{{"ed-key", w.EdPub, nil}}})
	add(target{Name: "ed25519.UnblindPublicKeyWithContext(key=bytes)", Step: true, Run: func(in []byte) bool {
		bl := append([]byte(nil), w.A3.AnonOrigin...)
		_, err := ed25519.UnblindPublicKeyWithContext(ed25519.PublicKey(in), bl[:32:32], []byte("ctx"))
		return err == nil
	}, Seeds: []bx.Seed{{"ed-key", w.EdPub, nil}}})
	add(target{Name: "ed25519.BlindPublicKeyWithContext(blind,ctx=bytes)", Step: true, StrL: 3, Run: func(in []byte) bool {
		h := len(in) / 2
		_, err := ed25519.BlindPublicKeyWithContext(w.EdPub, in[:h:h], in[h:])
		return err == nil
	}, Seeds: []bx.Seed{{"ed-blind-ctx", append(append([]byte{}, w.A3.AnonOrigin...), []byte("context string, 32 bytes long ..")...), nil}}})

	_ = oprf.SuiteP384
	return ts
}
