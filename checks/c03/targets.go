package main

import (
	"crypto/elliptic"
	"crypto/sha512"
	"fmt"
	"math/big"

	"github.com/cloudflare/circl/oprf"
	"github.com/cloudflare/pat-go/ecdsa"
	"github.com/cloudflare/pat-go/ed25519"
	"github.com/cloudflare/pat-go/quicwire"
	"github.com/cloudflare/pat-go/tokens"
	"github.com/cloudflare/pat-go/tokens/batched"
	"github.com/cloudflare/pat-go/tokens/type1"
	"github.com/cloudflare/pat-go/tokens/type2"
	"github.com/cloudflare/pat-go/tokens/type3"
	"github.com/cloudflare/pat-go/tokens/type5"
	"github.com/cloudflare/pat-go/util"

	"verif/mc"
	"verif/px"
)

// field is a length / count / tag field inside a seed message.
type field struct {
	Off, Width int
}

type seed struct {
	Name   string
	Msg    []byte
	Fields []field
}

// target is one function that consumes peer bytes. run returns whether the input
// was accepted (decoder true / nil error), used only for outcome classes.
type target struct {
	Name  string
	Step  bool // protocol step (larger allocation bound) vs pure decoder
	StrL  int  // cap on the length of the all-strings generator (0 = tier default); used where every string is accepted and the accepting path is expensive
	Run   func(in []byte) bool
	Seeds []seed
}

// basicIssuer adapts the typed issuers to the generic batch issuer interface,
// exactly as the repository's own tests do.
type issuer1 struct{ i *type1.BasicPrivateIssuer }

func (w issuer1) Evaluate(req tokens.TokenRequest) ([]byte, error) {
	r, ok := req.(*type1.BasicPrivateTokenRequest)
	if !ok {
		return nil, fmt.Errorf("wrong request type")
	}
	return w.i.Evaluate(r)
}
func (w issuer1) TokenKeyID() []byte { return w.i.TokenKeyID() }
func (w issuer1) Type() uint16       { return w.i.Type() }

type issuer2 struct{ i *type2.BasicPublicIssuer }

func (w issuer2) Evaluate(req tokens.TokenRequest) ([]byte, error) {
	r, ok := req.(*type2.BasicPublicTokenRequest)
	if !ok {
		return nil, fmt.Errorf("wrong request type")
	}
	return w.i.Evaluate(r)
}
func (w issuer2) TokenKeyID() []byte { return w.i.TokenKeyID() }
func (w issuer2) Type() uint16       { return w.i.Type() }

type world struct {
	w1  *px.W1
	w2  *px.W2
	w3  *px.W3
	w5  *px.W5
	att *type3.RateLimitedAttester

	st1 type1.BasicPrivateTokenRequestState
	st2 type2.BasicPublicTokenRequestState
	st3 type3.RateLimitedTokenRequestState
	st5 type5.BatchedPrivateTokenRequestState

	o1, o2, o3, o5 *px.Out
	a3              px.T3Args
	req3            type3.RateLimitedTokenRequest
	batchReq        []byte
	batchResp       []byte
	bissuer         *batched.BasicBatchedIssuer
	challenge       []byte
	spki            []byte
	ecKey           *ecdsa.PrivateKey
	ecSig           []byte
	ecDigest        []byte
	edPub           ed25519.PublicKey
	edSig           []byte
	edMsg           []byte
	inner           []byte
}

func must(err error) {
	if err != nil {
		panic(err)
	}
}

func buildWorld(seedv int64) *world {
	mc.Entropy("c03-world")
	w := &world{}
	chal := tokens.TokenChallenge{TokenType: 2, IssuerName: "issuer.example", RedemptionNonce: mc.Fill(seedv, "rn", 32), OriginInfo: []string{"a.example", "b.example"}}
	w.challenge = chal.Marshal()
	nonce := mc.Fill(seedv, "nonce", 32)

	w.w1 = px.NewW1(0)
	w.w2 = px.NewW2(0)
	w.w5 = px.NewW5(0)
	w.w3 = px.NewW3(1)
	must(w.w3.Issuer.AddOrigin("origin.example"))
	w.att = type3.NewRateLimitedAttester(px.NewMemCache())

	var se *px.StageErr
	if w.o1, se = w.w1.Flow(w.challenge, nonce, nil); se != nil {
		panic(se)
	}
	if w.o2, se = w.w2.Flow(w.challenge, nonce, nil, nil); se != nil {
		panic(se)
	}
	nonces := [][]byte{nonce, mc.Fill(seedv, "nonce2", 32), mc.Fill(seedv, "nonce3", 32)}
	if w.o5, se = w.w5.Flow(w.challenge, nonces, nil); se != nil {
		panic(se)
	}
	w.a3 = px.T3Args{Secret: mc.Fill(seedv, "secret", 48), Blind: mc.Fill(seedv, "blind", 48), Challenge: w.challenge, Nonce: nonce, Origin: "origin.example", AnonOrigin: mc.Fill(seedv, "anon", 32)}
	if w.o3, se = w.w3.Flow(w.att, w.a3); se != nil {
		panic(se)
	}
	if !w.req3.Unmarshal(w.o3.Request) {
		panic("type3 request does not decode")
	}
	// live request states for the finalize targets
	var err error
	w.st1, err = w.w1.Create(w.challenge, nonce, nil)
	must(err)
	w.st2, err = w.w2.Create(w.challenge, nonce, nil, nil)
	must(err)
	w.st5, err = w.w5.Create(w.challenge, nonces, nil)
	must(err)
	w.st3, err = w.w3.Create(w.a3)
	must(err)

	// generic batch: one type-1 and one type-2 request
	bc := batched.NewBasicClient()
	br, err := bc.CreateTokenRequest([]tokens.TokenRequestWithDetails{w.st1.Request(), w.st2.Request()})
	must(err)
	w.batchReq = append([]byte{}, br.Marshal()...)
	w.bissuer = batched.NewBasicBatchedIssuer(issuer1{w.w1.Issuer}, issuer2{w.w2.Issuer})
	resp, err := w.bissuer.EvaluateBatch(br)
	must(err)
	w.batchResp = resp

	w.spki = w.w2.PubBytes

	w.ecKey, err = ecdsa.CreateKey(elliptic.P384(), mc.Fill(seedv, "eckey", 48))
	must(err)
	d := sha512.Sum384([]byte("c03 message"))
	w.ecDigest = d[:]
	w.ecSig, err = ecdsa.SignASN1(mc.NewStream(seedv, "ecsign"), w.ecKey, w.ecDigest)
	must(err)

	edPriv := ed25519.NewKeyFromSeed(mc.Fill(seedv, "edseed", 32))
	w.edPub = edPriv.Public().(ed25519.PublicKey)
	w.edMsg = []byte("c03 ed25519 message")
	w.edSig = ed25519.Sign(edPriv, w.edMsg)

	in := type3.VerifNewInner(w.w3.KeyID[0], mc.Fill(seedv, "innermsg", 256), type3.VerifPad("origin.example"))
	w.inner = append([]byte{}, in.Marshal()...)
	return w
}

func varintWidth(b []byte) int { return 1 << (b[0] >> 6) }

func (w *world) targets() []target {
	hdr := func(n int) []field { return []field{{0, 2}} }
	_ = hdr
	p384 := elliptic.P384()
	var ts []target
	add := func(t target) { ts = append(ts, t) }

	add(target{Name: "tokens.UnmarshalTokenChallenge", Run: func(in []byte) bool {
		_, err := tokens.UnmarshalTokenChallenge(in)
		return err == nil
	}, Seeds: []seed{{"challenge", w.challenge, []field{{0, 2}, {2, 2}, {18, 1}, {51, 2}}}}})

	add(target{Name: "type1.UnmarshalPrivateToken+Verify", Step: true, Run: func(in []byte) bool {
		t, err := type1.UnmarshalPrivateToken(in)
		if err != nil {
			return false
		}
		return w.w1.Issuer.Verify(t) == nil
	}, Seeds: []seed{{"token1", w.o1.Tokens[0], []field{{0, 2}}}}})
	add(target{Name: "type5.UnmarshalBatchedPrivateToken+Verify", Step: true, Run: func(in []byte) bool {
		t, err := type5.UnmarshalBatchedPrivateToken(in)
		if err != nil {
			return false
		}
		return w.w5.Issuer.Verify(t) == nil
	}, Seeds: []seed{{"token5", w.o5.Tokens[0], []field{{0, 2}}}}})
	add(target{Name: "type2.UnmarshalToken", Run: func(in []byte) bool {
		_, err := type2.UnmarshalToken(in)
		return err == nil
	}, Seeds: []seed{{"token2", w.o2.Tokens[0], []field{{0, 2}}}}})
	add(target{Name: "type3.UnmarshalToken", Run: func(in []byte) bool {
		_, err := type3.UnmarshalToken(in)
		return err == nil
	}, Seeds: []seed{{"token3", w.o3.Tokens[0], []field{{0, 2}}}}})

	add(target{Name: "type1.Request.Unmarshal+Evaluate", Step: true, Run: func(in []byte) bool {
		r := new(type1.BasicPrivateTokenRequest)
		if !r.Unmarshal(in) {
			return false
		}
		_ = r.Marshal()
		_, err := w.w1.Issuer.Evaluate(r)
		return err == nil
	}, Seeds: []seed{{"request1", w.o1.Request, []field{{0, 2}, {2, 1}}}}})
	add(target{Name: "type2.Request.Unmarshal+Evaluate", Step: true, Run: func(in []byte) bool {
		r := new(type2.BasicPublicTokenRequest)
		if !r.Unmarshal(in) {
			return false
		}
		_ = r.Marshal()
		_, err := w.w2.Issuer.Evaluate(r)
		return err == nil
	}, Seeds: []seed{{"request2", w.o2.Request, []field{{0, 2}, {2, 1}}}}})
	add(target{Name: "type5.Request.Unmarshal+Evaluate", Step: true, Run: func(in []byte) bool {
		r := new(type5.BatchedPrivateTokenRequest)
		if !r.Unmarshal(in) {
			return false
		}
		_ = r.Marshal()
		_, err := w.w5.Issuer.Evaluate(r)
		return err == nil
	}, Seeds: []seed{{"request5", w.o5.Request, []field{{0, 2}, {2, 1}, {3, varintWidth(w.o5.Request[3:])}}}}})
	add(target{Name: "type3.Request.Unmarshal+VerifyRequest", Step: true, Run: func(in []byte) bool {
		r := new(type3.RateLimitedTokenRequest)
		if !r.Unmarshal(in) {
			return false
		}
		_ = r.Marshal()
		att := type3.NewRateLimitedAttester(px.NewMemCache())
		return att.VerifyRequest(*r, w.a3.Blind, w.o3.ClientKey, w.a3.AnonOrigin) == nil
	}, Seeds: []seed{{"request3", w.o3.Request, []field{{0, 2}, {83, 2}}}}})
	add(target{Name: "type3.Issuer.Evaluate", Step: true, Run: func(in []byte) bool {
		_, _, err := w.w3.Issuer.Evaluate(in)
		return err == nil
	}, Seeds: []seed{{"request3", w.o3.Request, []field{{0, 2}, {83, 2}}}}})
	add(target{Name: "type3.InnerTokenRequest.Unmarshal", Run: func(in []byte) bool {
		r := new(type3.InnerTokenRequest)
		ok := r.Unmarshal(in)
		if ok {
			_ = r.Marshal()
		}
		return ok
	}, Seeds: []seed{{"inner", w.inner, []field{{0, 1}, {257, 2}}}}})
	add(target{Name: "type3.UnmarshalEncapKey", Run: func(in []byte) bool {
		k, err := type3.UnmarshalEncapKey(in)
		if err == nil {
			_ = k.Marshal()
		}
		return err == nil
	}, Seeds: []seed{{"encapkey", w.w3.NameKeyWire, []field{{0, 1}, {1, 2}, {35, 2}, {37, 2}}}}})

	add(target{Name: "type1.FinalizeToken", Step: true, Run: func(in []byte) bool {
		_, err := w.st1.FinalizeToken(in)
		return err == nil
	}, Seeds: []seed{{"response1", w.o1.Response, nil}}})
	add(target{Name: "type2.FinalizeToken", Step: true, Run: func(in []byte) bool {
		_, err := w.st2.FinalizeToken(in)
		return err == nil
	}, Seeds: []seed{{"response2", w.o2.Response, nil}}})
	add(target{Name: "type3.FinalizeToken", Step: true, Run: func(in []byte) bool {
		_, err := w.st3.FinalizeToken(in)
		return err == nil
	}, Seeds: []seed{{"response3", w.o3.Response, nil}}})
	add(target{Name: "type5.FinalizeTokens", Step: true, Run: func(in []byte) bool {
		_, err := w.st5.FinalizeTokens(in)
		return err == nil
	}, Seeds: []seed{{"response5", w.o5.Response, []field{{0, varintWidth(w.o5.Response)}}}}})

	bw := varintWidth(w.batchReq)
	add(target{Name: "batched.Request.Unmarshal+EvaluateBatch", Step: true, Run: func(in []byte) bool {
		r := new(batched.BatchedTokenRequest)
		if !r.Unmarshal(in) {
			return false
		}
		_ = r.Marshal()
		_, err := w.bissuer.EvaluateBatch(r)
		return err == nil
	}, Seeds: []seed{{"batchrequest", w.batchReq, []field{{0, bw}, {bw, 2}, {bw + 52, 2}}}}})
	rw := varintWidth(w.batchResp)
	add(target{Name: "batched.UnmarshalBatchedTokenResponses", Run: func(in []byte) bool {
		_, err := batched.UnmarshalBatchedTokenResponses(in)
		return err == nil
	}, Seeds: []seed{{"batchresponse", w.batchResp, []field{{0, rw}, {rw, 1}, {rw + 1, 2}, {rw + 3 + 145, 1}, {rw + 3 + 145 + 1, 2}}}}})

	newAtt := func() *type3.RateLimitedAttester {
		c := px.NewMemCache()
		a := type3.NewRateLimitedAttester(c)
		_ = a.VerifyRequest(w.req3, w.a3.Blind, w.o3.ClientKey, w.a3.AnonOrigin)
		return a
	}
	add(target{Name: "type3.VerifyRequest(blind=bytes)", Step: true, StrL: 3, Run: func(in []byte) bool {
		return type3.NewRateLimitedAttester(px.NewMemCache()).VerifyRequest(w.req3, in, w.o3.ClientKey, w.a3.AnonOrigin) == nil
	}, Seeds: []seed{{"blind", w.a3.Blind, nil}}})
	add(target{Name: "type3.VerifyRequest(clientKey=bytes)", Step: true, Run: func(in []byte) bool {
		return type3.NewRateLimitedAttester(px.NewMemCache()).VerifyRequest(w.req3, w.a3.Blind, in, w.a3.AnonOrigin) == nil
	}, Seeds: []seed{{"clientkey", w.o3.ClientKey, nil}}})
	add(target{Name: "type3.VerifyRequest(signature=bytes)", Step: true, Run: func(in []byte) bool {
		r := w.req3
		r.Signature = in
		return type3.NewRateLimitedAttester(px.NewMemCache()).VerifyRequest(r, w.a3.Blind, w.o3.ClientKey, w.a3.AnonOrigin) == nil
	}, Seeds: []seed{{"signature", w.req3.Signature, nil}}})
	add(target{Name: "type3.VerifyRequest(requestKey=bytes)", Step: true, StrL: 3, Run: func(in []byte) bool {
		r := w.req3
		r.RequestKey = in
		return type3.NewRateLimitedAttester(px.NewMemCache()).VerifyRequest(r, w.a3.Blind, w.o3.ClientKey, w.a3.AnonOrigin) == nil
	}, Seeds: []seed{{"requestkey", w.req3.RequestKey, nil}}})
	add(target{Name: "type3.FinalizeIndex(clientKey=bytes)", Step: true, Run: func(in []byte) bool {
		_, err := newAtt().FinalizeIndex(in, w.a3.Blind, w.o3.BlindedReqKey, w.a3.AnonOrigin)
		return err == nil
	}, Seeds: []seed{{"clientkey", w.o3.ClientKey, nil}}})
	add(target{Name: "type3.FinalizeIndex(blind=bytes)", Step: true, StrL: 3, Run: func(in []byte) bool {
		_, err := newAtt().FinalizeIndex(w.o3.ClientKey, in, w.o3.BlindedReqKey, w.a3.AnonOrigin)
		return err == nil
	}, Seeds: []seed{{"blind", w.a3.Blind, nil}}})
	add(target{Name: "type3.FinalizeIndex(blindedRequestKey=bytes)", Step: true, Run: func(in []byte) bool {
		_, err := newAtt().FinalizeIndex(w.o3.ClientKey, w.a3.Blind, in, w.a3.AnonOrigin)
		return err == nil
	}, Seeds: []seed{{"blindedreqkey", w.o3.BlindedReqKey, nil}}})
	add(target{Name: "type3.FinalizeIndex(anonOrigin=bytes)", Step: true, StrL: 2, Run: func(in []byte) bool {
		_, err := newAtt().FinalizeIndex(w.o3.ClientKey, w.a3.Blind, w.o3.BlindedReqKey, in)
		return err == nil
	}, Seeds: []seed{{"anon", w.a3.AnonOrigin, nil}}})

	add(target{Name: "quicwire.Consume*", Run: func(in []byte) bool {
		_, n1 := quicwire.ConsumeVarint(in)
		_, n2 := quicwire.ConsumeVarintInt64(in)
		_, n3 := quicwire.ConsumeVarintBytes(in)
		_, n4 := quicwire.ConsumeUint8Bytes(in)
		_, n5 := quicwire.ConsumeUint32(in)
		_, n6 := quicwire.ConsumeUint64(in)
		return n1 >= 0 && n2 >= 0 && n3 >= 0 && n4 >= 0 && n5 >= 0 && n6 >= 0
	}, Seeds: []seed{{"varintbytes", quicwire.AppendVarintBytes(nil, w.challenge), []field{{0, 2}}}}})

	add(target{Name: "util.UnmarshalTokenKey", Run: func(in []byte) bool {
		_, err := util.UnmarshalTokenKey(in)
		return err == nil
	}, Seeds: []seed{{"spki", w.spki, []field{{1, 3}, {5, 1}, {72, 3}}}}})

	add(target{Name: "ecdsa.VerifyASN1", Step: true, Run: func(in []byte) bool {
		return ecdsa.VerifyASN1(&w.ecKey.PublicKey, w.ecDigest, in)
	}, Seeds: []seed{{"ecdsa-der", w.ecSig, []field{{1, 1}, {3, 1}}}}})
	add(target{Name: "ecdsa.Verify(r||s=bytes)", Step: true, Run: func(in []byte) bool {
		h := len(in) / 2
		r := new(big.Int).SetBytes(in[:h])
		s := new(big.Int).SetBytes(in[h:])
		return ecdsa.Verify(&w.ecKey.PublicKey, w.ecDigest, r, s)
	}, Seeds: []seed{{"ecdsa-raw", w.req3.Signature, nil}}})
	add(target{Name: "ecdsa.Verify(digest=bytes)", Step: true, Run: func(in []byte) bool {
		return ecdsa.VerifyASN1(&w.ecKey.PublicKey, in, w.ecSig)
	}, Seeds: []seed{{"digest", w.ecDigest, nil}}})
	_ = p384

	add(target{Name: "ed25519.Verify(sig=bytes)", Step: true, Run: func(in []byte) bool {
		return ed25519.Verify(w.edPub, w.edMsg, in)
	}, Seeds: []seed{{"ed-sig", w.edSig, nil}}})
	add(target{Name: "ed25519.Verify(key32||msg=bytes)", Step: true, Run: func(in []byte) bool {
		if len(in) < 32 {
			return false // a key that is not 32 bytes panics by contract (like the standard library); out of scope
		}
		return ed25519.Verify(ed25519.PublicKey(in[:32]), in[32:], w.edSig)
	}, Seeds: []seed{{"ed-key-msg", append(append([]byte{}, w.edPub...), w.edMsg...), nil}}})
	add(target{Name: "ed25519.BlindPublicKeyWithContext(key=bytes)", Step: true, Run: func(in []byte) bool {
		bl := append([]byte(nil), w.a3.AnonOrigin...)
		_, err := ed25519.BlindPublicKeyWithContext(ed25519.PublicKey(in), bl[:32:32], []byte("ctx"))
		return err == nil
	}, Seeds: []seed{{"ed-key", w.edPub, nil}}})
	add(target{Name: "ed25519.UnblindPublicKeyWithContext(key=bytes)", Step: true, Run: func(in []byte) bool {
		bl := append([]byte(nil), w.a3.AnonOrigin...)
		_, err := ed25519.UnblindPublicKeyWithContext(ed25519.PublicKey(in), bl[:32:32], []byte("ctx"))
		return err == nil
	}, Seeds: []seed{{"ed-key", w.edPub, nil}}})
	add(target{Name: "ed25519.BlindPublicKeyWithContext(blind,ctx=bytes)", Step: true, StrL: 3, Run: func(in []byte) bool {
		h := len(in) / 2
		_, err := ed25519.BlindPublicKeyWithContext(w.edPub, in[:h:h], in[h:])
		return err == nil
	}, Seeds: []seed{{"ed-blind-ctx", append(append([]byte{}, w.a3.AnonOrigin...), []byte("context string, 32 bytes long ..")...), nil}}})

	_ = oprf.SuiteP384
	return ts
}
