// C03: no byte string from a peer can crash or exhaust a decoder or protocol step.
//
// Bounded exhaustive enumeration of byte strings (all strings over a 12-byte
// alphabet up to length L, every truncation / extension / field value / byte
// substitution / bit flip of valid messages) against every function that consumes
// peer bytes. Each call runs in a single-threaded worker subprocess under an
// address-space limit: a panic is recovered and reported, a fatal runtime error
// (out of memory) kills the worker and is attributed to the journaled case, the
// allocation of every call is measured, and a stuck worker is detected by the
// parent.
package main

import (
	"bytes"
	"encoding/binary"
	"encoding/hex"
	"encoding/json"
	"fmt"
	"os"
	"os/exec"
	"path/filepath"
	"runtime"
	"runtime/debug"
	"sort"
	"strconv"
	"strings"
	"sync"
	"sync/atomic"
	"time"

	"verif/bx"
	"verif/mc"
)

// genT enumerates the inputs of one target.
func genT(t *target, L int, thorough bool, emit func(g string, in []byte)) {
	if t.StrL > 0 && t.StrL < L {
		L = t.StrL + (L - 4) // thorough raises every cap by one
	}
	bx.Gen(t.Seeds, L, thorough || t.Step, thorough, emit)
}

// ---- worker ----

type vrec struct {
	Target string `json:"target"`
	Gen    string `json:"generator"`
	In     string `json:"input_hex"`
	Kind   string `json:"kind"` // panic | alloc | fatal | hang
	Detail string `json:"detail"`
	Idx    int64  `json:"idx"`
}

type tstat struct {
	Calls    int64            `json:"calls"`
	Accepted int64            `json:"accepted"`
	Rejected int64            `json:"rejected"`
	Panics   int64            `json:"panics"`
	MaxAlloc uint64           `json:"max_alloc"`
	ByGen    map[string]int64 `json:"by_gen"`
	Distinct int64            `json:"distinct"`
}

type wsummary struct {
	Stats map[string]*tstat `json:"stats"`
	Viols []vrec            `json:"viols"`
	Total int64             `json:"total"`
	Upto  int64             `json:"upto"` // partial summaries: every case index <= Upto of this shard is accounted for
}

func allocBound(step bool, n int) uint64 {
	if step {
		return 1<<20 + 64*uint64(n)
	}
	return 64<<10 + 16*uint64(n)
}

// execCase runs one call under recover and allocation measurement.
func execCase(t *target, in []byte, ms *runtime.MemStats, last *uint64) (accepted bool, pan string, alloc uint64) {
	runtime.ReadMemStats(ms)
	*last = ms.TotalAlloc
	pan = mc.Catch(func() { accepted = t.Run(in) })
	runtime.ReadMemStats(ms)
	alloc = ms.TotalAlloc - *last
	if alloc > 64<<20 {
		debug.FreeOSMemory()
	}
	return
}

func workerMain() {
	shard, _ := strconv.Atoi(os.Getenv("C03_SHARD"))
	nsh, _ := strconv.Atoi(os.Getenv("C03_NSHARDS"))
	startAfter, _ := strconv.ParseInt(os.Getenv("C03_START_AFTER"), 10, 64)
	seedv, _ := strconv.ParseInt(os.Getenv("VERIF_SEED"), 10, 64)
	L, _ := strconv.Atoi(os.Getenv("C03_L"))
	thorough := os.Getenv("C03_THOROUGH") == "1"
	only := os.Getenv("C03_ONLY_TARGET")
	onlyIn := os.Getenv("C03_ONLY_INPUT")
	jpath := os.Getenv("C03_JOURNAL")
	skip := map[int64]bool{}
	for _, f := range strings.Split(os.Getenv("C03_SKIP"), ",") {
		if v, err := strconv.ParseInt(f, 10, 64); err == nil {
			skip[v] = true
		}
	}
	runtime.GOMAXPROCS(1)
	mc.InstallDRBG(seedv)
	w := bx.BuildWorld(seedv)
	ts := targets(w)
	sum := wsummary{Stats: map[string]*tstat{}}
	var ms runtime.MemStats
	var last uint64

	if only != "" {
		in, _ := hex.DecodeString(onlyIn)
		for i := range ts {
			if ts[i].Name == only {
				mc.Entropy("c03-call")
				acc, pan, alloc := execCase(&ts[i], in, &ms, &last)
				st := &tstat{Calls: 1, MaxAlloc: alloc}
				sum.Stats[only] = st
				if acc {
					st.Accepted = 1
				}
				if pan != "" {
					sum.Viols = append(sum.Viols, vrec{Target: only, In: onlyIn, Kind: "panic", Detail: pan})
				} else if alloc > allocBound(ts[i].Step, len(in)) {
					sum.Viols = append(sum.Viols, vrec{Target: only, In: onlyIn, Kind: "alloc", Detail: fmt.Sprintf("allocated %d bytes for %d input bytes", alloc, len(in))})
				}
			}
		}
		json.NewEncoder(os.Stdout).Encode(sum)
		return
	}

	jf, err := os.OpenFile(jpath, os.O_CREATE|os.O_WRONLY, 0o644)
	if err != nil {
		fmt.Fprintln(os.Stderr, "journal:", err)
		os.Exit(3)
	}
	var idx int64 = -1
	var executed int64
	var jb [8]byte
	for ti := range ts {
		t := &ts[ti]
		st := &tstat{ByGen: map[string]int64{}}
		sum.Stats[t.Name] = st
		seen := map[string]struct{}{}
		genT(t, L, thorough, func(g string, in []byte) {
			idx++
			// first occurrence in the global enumeration order (same decision in every shard)
			_, dup := seen[string(in)]
			if !dup {
				seen[string(in)] = struct{}{}
			}
			if idx%int64(nsh) != int64(shard) || idx <= startAfter || skip[idx] {
				return
			}
			if executed++; executed%4000 == 0 {
				// partial summary: everything before this case is accounted for
				sum.Upto = idx - 1
				if b, err := json.Marshal(sum); err == nil {
					if os.WriteFile(jpath+".stats.tmp", b, 0o644) == nil {
						os.Rename(jpath+".stats.tmp", jpath+".stats")
					}
				}
			}
			binary.LittleEndian.PutUint64(jb[:], uint64(idx))
			jf.WriteAt(jb[:], 0)
			mc.Entropy("c03-call")
			acc, pan, alloc := execCase(t, in, &ms, &last)
			st.Calls++
			st.ByGen[g]++
			if !dup && (g != "strings" || len(in) >= 2) {
				st.Distinct++
			}
			if alloc > st.MaxAlloc {
				st.MaxAlloc = alloc
			}
			switch {
			case pan != "":
				st.Panics++
				if len(sum.Viols) < 400 {
					sum.Viols = append(sum.Viols, vrec{Target: t.Name, Gen: g, In: hex.EncodeToString(in), Kind: "panic", Detail: pan, Idx: idx})
				}
			case alloc > allocBound(t.Step, len(in)):
				if len(sum.Viols) < 400 {
					sum.Viols = append(sum.Viols, vrec{Target: t.Name, Gen: g, In: hex.EncodeToString(in), Kind: "alloc", Detail: fmt.Sprintf("allocated %d bytes for %d input bytes", alloc, len(in)), Idx: idx})
				}
			}
			if acc {
				st.Accepted++
			} else {
				st.Rejected++
			}
		})
	}
	sum.Total = idx + 1
	binary.LittleEndian.PutUint64(jb[:], uint64(1<<62))
	jf.WriteAt(jb[:], 0)
	json.NewEncoder(os.Stdout).Encode(sum)
}

// ---- parent ----

const vlimitKB = 4 << 20 // 4 GiB address space per worker

func spawn(env []string) *exec.Cmd {
	self, _ := os.Executable()
	cmd := exec.Command("/bin/bash", "-c", fmt.Sprintf("ulimit -v %d; exec %q", vlimitKB, self))
	cmd.Env = append(os.Environ(), env...)
	cmd.Env = append(cmd.Env, "C03_WORKER=1", "GOMAXPROCS=1", "GOTRACEBACK=none")
	return cmd
}

// panicSite reduces a panic message to a stable signature component.
func panicSite(p string) string {
	p = strings.SplitN(p, "\n", 2)[0]
	// strip numbers so that "index out of range [5] with length 3" is one site
	var b strings.Builder
	for _, c := range p {
		if c >= '0' && c <= '9' {
			if !strings.HasSuffix(b.String(), "N") {
				b.WriteByte('N')
			}
			continue
		}
		b.WriteRune(c)
	}
	s := b.String()
	if len(s) > 70 {
		s = s[:70]
	}
	return s
}

type single struct {
	Target string `json:"target"`
	In     string `json:"input_hex"`
	Gen    string `json:"generator,omitempty"`
}

// runSingle executes one (target, input) in a fresh worker; classification as in the sweep.
func runSingle(seedv int64, s single) *mc.Viol {
	cmd := spawn([]string{"C03_ONLY_TARGET=" + s.Target, "C03_ONLY_INPUT=" + s.In, fmt.Sprintf("VERIF_SEED=%d", seedv)})
	var out, errb bytes.Buffer
	cmd.Stdout, cmd.Stderr = &out, &errb
	done := make(chan error, 1)
	if err := cmd.Start(); err != nil {
		return nil
	}
	go func() { done <- cmd.Wait() }()
	select {
	case err := <-done:
		if err != nil {
			return &mc.Viol{Sig: s.Target + ": allocation out of proportion to input (or fatal out-of-memory)", What: fmt.Sprintf("input %s (%d bytes): worker died: %v; stderr: %s", trunc(s.In, 80), len(s.In)/2, err, trunc(errb.String(), 160))}
		}
	case <-time.After(120 * time.Second):
		cmd.Process.Kill()
		return &mc.Viol{Sig: s.Target + ": does not return", What: fmt.Sprintf("input %s: no return within 120 s", trunc(s.In, 80))}
	}
	var sum wsummary
	if json.Unmarshal(out.Bytes(), &sum) != nil || len(sum.Viols) == 0 {
		return nil
	}
	v := sum.Viols[0]
	return violOf(v)
}

func violOf(v vrec) *mc.Viol {
	switch v.Kind {
	case "panic":
		return &mc.Viol{Sig: v.Target + ": panic: " + panicSite(v.Detail), What: fmt.Sprintf("input %s (%d bytes, generator %s): %s", trunc(v.In, 120), len(v.In)/2, v.Gen, trunc(v.Detail, 200))}
	case "alloc", "fatal":
		// one site: whether an attacker-sized make() succeeds (and is measured) or kills the process
		// depends only on how much address space is left
		return &mc.Viol{Sig: v.Target + ": allocation out of proportion to input (or fatal out-of-memory)", What: fmt.Sprintf("input %s (%d bytes): %s: %s", trunc(v.In, 120), len(v.In)/2, v.Kind, trunc(v.Detail, 160))}
	case "hang":
		return &mc.Viol{Sig: v.Target + ": does not return", What: fmt.Sprintf("input %s", trunc(v.In, 120))}
	}
	return nil
}

func trunc(s string, n int) string {
	if len(s) > n {
		return s[:n] + "…"
	}
	return s
}

// hangLimit: how long a worker may show no progress before the journaled case counts as not
// returning. Generous for the first verdicts; once three cases of this run have been found hanging
// (the tree under test has a non-terminating path) the rest of the sweep uses a shorter limit, so
// that a change with many hanging inputs does not cost a minute each. Every recorded hang is
// confirmed in isolation with the 120 s limit anyway.
var hangsSeen atomic.Int32

func hangLimit() time.Duration {
	if hangsSeen.Load() >= 3 {
		return 15 * time.Second
	}
	return 60 * time.Second
}

func main() {
	if os.Getenv("C03_WORKER") == "1" {
		workerMain()
		return
	}
	r := mc.Start("C03", "exploration")
	r.DisableStallWatchdog() // workers are subprocesses with their own no-progress limit
	r.RegisterReplay("call", func(pj json.RawMessage) *mc.Viol {
		var s single
		json.Unmarshal(pj, &s)
		return runSingle(r.Seed, s)
	})
	r.RegisterArch386()
	if r.IsReplay() {
		r.DoReplay()
	}
	L := mc.Pick(r, 4, 5)
	nsh := runtime.NumCPU()
	if nsh > 16 {
		nsh = 16
	}
	tmp, err := os.MkdirTemp("", "c03-journal-")
	if err != nil {
		panic(err)
	}
	defer os.RemoveAll(tmp)

	type crash struct {
		shard int
		idx   int64
		kind  string
		err   string
	}
	var mu sync.Mutex
	var crashes []crash
	sums := make([]*wsummary, nsh)
	var wg sync.WaitGroup
	for sh := 0; sh < nsh; sh++ {
		wg.Add(1)
		go func(sh int) {
			defer wg.Done()
			startAfter := int64(-1)
			var skipList []string
			for attempt := 0; attempt < 200; attempt++ {
				jpath := filepath.Join(tmp, fmt.Sprintf("j%d", sh))
				os.Remove(jpath)
				os.Remove(jpath + ".stats")
				env := []string{fmt.Sprintf("C03_SHARD=%d", sh), fmt.Sprintf("C03_NSHARDS=%d", nsh), fmt.Sprintf("C03_START_AFTER=%d", startAfter),
					fmt.Sprintf("C03_L=%d", L), "C03_JOURNAL=" + jpath, fmt.Sprintf("VERIF_SEED=%d", r.Seed), "C03_SKIP=" + strings.Join(skipList, ",")}
				if r.Thorough() {
					env = append(env, "C03_THOROUGH=1")
				}
				cmd := spawn(env)
				var out, errb bytes.Buffer
				cmd.Stdout, cmd.Stderr = &out, &errb
				if err := cmd.Start(); err != nil {
					r.Note("cannot start worker: %v", err)
					r.NotExhaustive("worker %d could not be started", sh)
					return
				}
				done := make(chan error, 1)
				go func() { done <- cmd.Wait() }()
				readIdx := func() int64 {
					b, err := os.ReadFile(jpath)
					if err != nil || len(b) < 8 {
						return -1
					}
					return int64(binary.LittleEndian.Uint64(b))
				}
				var werr error
				hung := false
				lastIdx, lastChange := int64(-2), time.Now()
			wait:
				for {
					select {
					case werr = <-done:
						break wait
					case <-time.After(2 * time.Second):
						cur := readIdx()
						if cur != lastIdx {
							lastIdx, lastChange = cur, time.Now()
						} else if cur >= 0 && time.Since(lastChange) > hangLimit() {
							cmd.Process.Kill()
							<-done
							hung = true
							break wait
						}
						if r.OutOfTime() {
							cmd.Process.Kill()
							<-done
							r.NotExhaustive("time budget hit; shard %d stopped at case index %d", sh, cur)
							return
						}
					}
				}
				if werr == nil && !hung {
					var s wsummary
					if err := json.Unmarshal(out.Bytes(), &s); err != nil {
						r.Note("worker %d: unreadable summary: %v", sh, err)
						r.NotExhaustive("worker %d summary unreadable", sh)
						return
					}
					mu.Lock()
					if sums[sh] == nil {
						sums[sh] = &s
					} else {
						mergeSum(sums[sh], &s)
					}
					mu.Unlock()
					return
				}
				// worker died or hung: attribute to the journaled case and continue after it
				at := readIdx()
				if at < 0 || at >= 1<<62 {
					r.Note("worker %d died outside a case (%v): %s", sh, werr, trunc(errb.String(), 300))
					r.NotExhaustive("worker %d died outside a case", sh)
					return
				}
				kind := "fatal"
				if hung {
					kind = "hang"
					hangsSeen.Add(1)
				}
				mu.Lock()
				crashes = append(crashes, crash{sh, at, kind, trunc(strings.TrimSpace(errb.String()), 200)})
				mu.Unlock()
				// keep what the dead worker had flushed; the next worker resumes right after that point
				// and skips the crashed case
				if b, err := os.ReadFile(jpath + ".stats"); err == nil {
					var part wsummary
					if json.Unmarshal(b, &part) == nil {
						mu.Lock()
						if sums[sh] == nil {
							sums[sh] = &wsummary{Stats: map[string]*tstat{}}
						}
						mergeSum(sums[sh], &part)
						mu.Unlock()
						startAfter = part.Upto
					}
				}
				skipList = append(skipList, strconv.FormatInt(at, 10))
			}
			r.NotExhaustive("worker %d restarted 200 times", sh)
		}(sh)
	}
	wg.Wait()

	// resolve crashed indices to (target, input) by re-enumerating in-process (no calls made)
	total := &wsummary{Stats: map[string]*tstat{}}
	for _, s := range sums {
		if s != nil {
			mergeSum(total, s)
		}
	}
	mc.InstallDRBG(r.Seed)
	w := bx.BuildWorld(r.Seed)
	ts := targets(w)
	var allViols []vrec
	if len(crashes) > 0 {
		want := map[int64]crash{}
		for _, c := range crashes {
			want[c.idx] = c
		}
		var idx int64 = -1
		for ti := range ts {
			genT(&ts[ti], L, r.Thorough(), func(g string, in []byte) {
				idx++
				if c, ok := want[idx]; ok {
					allViols = append(allViols, vrec{Target: ts[ti].Name, Gen: g, In: hex.EncodeToString(in), Kind: c.kind, Detail: c.err, Idx: idx})
				}
			})
		}
	}
	for _, s := range sums {
		if s != nil {
			allViols = append(allViols, s.Viols...)
		}
	}
	sort.Slice(allViols, func(i, j int) bool { return allViols[i].Idx < allViols[j].Idx })
	for _, v := range allViols {
		r.Violation("call", single{Target: v.Target, In: v.In, Gen: v.Gen}, violOf(v))
	}

	// evidence
	names := make([]string, 0, len(total.Stats))
	for n := range total.Stats {
		names = append(names, n)
	}
	sort.Strings(names)
	per := map[string]any{}
	var maxAlloc uint64
	for _, n := range names {
		st := total.Stats[n]
		r.Bulk(st.Accepted, 0, "accepted")
		r.Bulk(st.Rejected-st.Panics, 0, "rejected")
		r.Bulk(st.Panics, 0, "panic")
		r.Bulk(0, st.Distinct, "accepted")
		per[n] = map[string]any{"calls": st.Calls, "accepted": st.Accepted, "rejected": st.Rejected, "panics": st.Panics, "max_alloc_bytes": st.MaxAlloc, "by_generator": st.ByGen}
		if st.MaxAlloc > maxAlloc {
			maxAlloc = st.MaxAlloc
		}
	}
	r.Set("targets", len(ts))
	r.Set("per_target", per)
	r.Set("string_alphabet", hex.EncodeToString(bx.Sigma))
	r.Set("max_string_len", L)
	r.Set("worker_deaths", len(crashes))
	r.Set("max_alloc_bytes_any_call", maxAlloc)
	r.Set("alloc_bound", "protocol step: 1 MiB + 64*len(input); decoder: 64 KiB + 16*len(input)")
	r.SetRule("per target: every string over the 12-byte alphabet up to length L; for every valid message of the target: every truncation, 6 extensions, every value of every length/count/tag field from the boundary set in every fixed-width and varint form (with and without the tail), every position x alphabet byte substitution (first 600 bytes), every single-bit flip (protocol steps; all targets in thorough). distinct_nontrivial = distinct inputs per target excluding strings shorter than 2 bytes")
	r.Assume("allocation is measured as runtime.MemStats.TotalAlloc delta in a single-threaded worker (GOMAXPROCS=1)",
		"non-termination is detected as 'no journal progress for 120 s' (calls normally take < 10 ms)",
		"workers run under ulimit -v 4 GiB so that an attacker-sized make() is fatal instead of swapping the machine",
		"ed25519.Verify with a public key that is not 32 bytes panics by contract (as in the standard library) and is not a target")
	r.Sample(map[string]any{"target": "type5.Request.Unmarshal+Evaluate", "generator": "field", "input_hex": "000500c0000000ffffffff"})
	r.Sample(map[string]any{"target": "batched.UnmarshalBatchedTokenResponses", "generator": "strings", "input_hex": "4000"})
	if r.Thorough() {
		r.RunArch386Tier("quick") // the quick sweep again as a 32-bit program (about ten times slower there)
	}
	os.RemoveAll(tmp) // Finish exits the process: the deferred removal would not run
	r.Finish()
}

func mergeSum(dst, src *wsummary) {
	for n, s := range src.Stats {
		d := dst.Stats[n]
		if d == nil {
			d = &tstat{ByGen: map[string]int64{}}
			dst.Stats[n] = d
		}
		d.Calls += s.Calls
		d.Accepted += s.Accepted
		d.Rejected += s.Rejected
		d.Panics += s.Panics
		d.Distinct += s.Distinct
		if s.MaxAlloc > d.MaxAlloc {
			d.MaxAlloc = s.MaxAlloc
		}
		for g, c := range s.ByGen {
			d.ByGen[g] += c
		}
	}
	dst.Viols = append(dst.Viols, src.Viols...)
	if src.Total > dst.Total {
		dst.Total = src.Total
	}
}
