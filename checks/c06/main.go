// C06: the attester accepts a rate-limited request only if it is authentic.
//
// Bounded exhaustive enumeration of requests handed to the real
// RateLimitedAttester.VerifyRequest: honest (request, blind, client key) triples and
// every single-bit corruption of every request field, of the blind and of the client
// key, signatures by other keys / over other contents, wrong blinds and client keys,
// malformed keys and every signature length 0..97. The reference verdict is computed
// with crypto/ecdsa and an independent key-blinding reference; on a rejected request
// the cache must not have been touched.
package main

import (
	"bytes"
	stdecdsa "crypto/ecdsa"
	"crypto/elliptic"
	"crypto/sha512"
	"encoding/hex"
	"encoding/json"
	"fmt"
	"math/big"
	"sort"
	"strings"

	"github.com/cloudflare/pat-go/tokens/type3"

	"verif/mc"
	"verif/px"
	"verif/refs"
)

// Case is fully materialised so that a replay does not depend on the world.
type Case struct {
	Class      string `json:"class"`
	AnonLen    *int   `json:"anonymous_origin_len,omitempty"` // default 32
	HonestCK   string `json:"honest_client_key,omitempty"`    // client key of the pre-verified honest request (default: the case's)
	RequestKey string `json:"request_key"`
	NameKeyID  string `json:"name_key_id"`
	Encrypted  string `json:"encrypted_token_request"`
	Signature  string `json:"signature"`
	Blind      string `json:"blind"`
	ClientKey  string `json:"client_key"`
	PreVerify  bool   `json:"client_already_registered"`                        // an honest request of the same client was verified before
	Cached     bool   `json:"request_object_marshalled_before_fields_were_set"` // the request object was decoded from the honest bytes and Marshal() was called on it before the fields of this case were stored into it
	HonestReq  string `json:"honest_request_hex,omitempty"`
	HonestBl   string `json:"honest_blind,omitempty"`
}

func unhex(s string) []byte { b, _ := hex.DecodeString(s); return b }

// refAccept: signature valid under requestKey over the exact contents AND requestKey == blind(clientKey, blind).
func refAccept(c Case) (bool, string) {
	curve := elliptic.P384()
	rk, ck, sig := unhex(c.RequestKey), unhex(c.ClientKey), unhex(c.Signature)
	x, y := elliptic.UnmarshalCompressed(curve, rk)
	if x == nil {
		return false, "request key is not a valid compressed P-384 point"
	}
	if len(sig) != 96 {
		return false, "signature is not 96 bytes"
	}
	msg := []byte{0x00, 0x03}
	msg = append(msg, rk...)
	msg = append(msg, unhex(c.NameKeyID)...)
	enc := unhex(c.Encrypted)
	msg = append(msg, byte(len(enc)>>8), byte(len(enc)))
	msg = append(msg, enc...)
	d := sha512.Sum384(msg)
	r := new(big.Int).SetBytes(sig[:48])
	s := new(big.Int).SetBytes(sig[48:])
	if !stdecdsa.Verify(&stdecdsa.PublicKey{Curve: curve, X: x, Y: y}, d[:], r, s) {
		return false, "signature does not verify under the request key (crypto/ecdsa)"
	}
	cx, _ := elliptic.UnmarshalCompressed(curve, ck)
	if cx == nil {
		return false, "client key is not a valid compressed P-384 point"
	}
	f := refs.BlindFactor(new(big.Int).SetBytes(unhex(c.Blind)), "ClientBlind")
	want, err := refs.MulCompressed(ck, f)
	if err != nil {
		return false, "blinding the client key fails"
	}
	if hex.EncodeToString(want) != c.RequestKey {
		return false, "request key is not the client key blinded with the supplied blind"
	}
	return true, "authentic"
}

func dumpCache(c *px.MemCache) string {
	var keys []string
	for k := range c.M {
		keys = append(keys, k)
	}
	sort.Strings(keys)
	var sb strings.Builder
	for _, k := range keys {
		a, b, n := c.M[k].VerifDump()
		sb.WriteString(k + "{")
		for _, m := range []map[string]string{a, b} {
			var ks []string
			for kk := range m {
				ks = append(ks, kk)
			}
			sort.Strings(ks)
			for _, kk := range ks {
				sb.WriteString(kk + "=" + m[kk] + ",")
			}
			sb.WriteString("|")
		}
		var ks []string
		for kk := range n {
			ks = append(ks, kk)
		}
		sort.Strings(ks)
		for _, kk := range ks {
			fmt.Fprintf(&sb, "%s=%d,", kk, n[kk])
		}
		sb.WriteString("}")
	}
	return sb.String()
}

func anonOf(c Case) []byte {
	if c.AnonLen == nil {
		return make([]byte, 32)
	}
	return mc.Fill(seedv, "c06-anon", *c.AnonLen)
}

func run(c Case) (string, *mc.Viol) {
	cache := px.NewMemCache()
	att := type3.NewRateLimitedAttester(cache)
	blindArg, ckArg := unhex(c.Blind), unhex(c.ClientKey)
	var inPlace *type3.RateLimitedTokenRequest
	if c.PreVerify {
		hr := new(type3.RateLimitedTokenRequest)
		if !hr.Unmarshal(unhex(c.HonestReq)) {
			return "harness", nil
		}
		hbl, hck := unhex(c.HonestBl), unhex(c.ClientKey)
		if c.HonestCK != "" {
			hck = unhex(c.HonestCK)
		}
		if err := att.VerifyRequest(*hr, hbl, hck, make([]byte, 32)); err != nil {
			// the client key itself may be the mutated argument; then there is nothing registered, fine
			_ = err
		}
		// the attester's caller keeps ONE request object and ONE blind / key buffer: the next request
		// (this case) is written over the accepted one in place
		put := func(dst *[]byte, src []byte) {
			if len(*dst) == len(src) {
				copy(*dst, src)
			} else {
				*dst = src
			}
		}
		put(&hr.RequestKey, unhex(c.RequestKey))
		put(&hr.NameKeyID, unhex(c.NameKeyID))
		put(&hr.EncryptedTokenRequest, unhex(c.Encrypted))
		put(&hr.Signature, unhex(c.Signature))
		put(&hbl, unhex(c.Blind))
		put(&hck, unhex(c.ClientKey))
		inPlace, blindArg, ckArg = hr, hbl, hck
	}
	before := dumpCache(cache)
	puts := cache.Puts
	req := type3.RateLimitedTokenRequest{RequestKey: unhex(c.RequestKey), NameKeyID: unhex(c.NameKeyID), EncryptedTokenRequest: unhex(c.Encrypted), Signature: unhex(c.Signature)}
	if inPlace != nil {
		req = *inPlace
	}
	if c.Cached {
		// the attester's caller decoded the honest request, looked at its encoding (which the
		// object caches) and then holds an object whose fields are those of this case
		var o type3.RateLimitedTokenRequest
		if !o.Unmarshal(unhex(c.HonestReq)) {
			return "harness", nil
		}
		_ = o.Marshal()
		o.RequestKey, o.NameKeyID, o.EncryptedTokenRequest, o.Signature = req.RequestKey, req.NameKeyID, req.EncryptedTokenRequest, req.Signature
		req = o
	}
	var err error
	if p := mc.Catch(func() { err = att.VerifyRequest(req, blindArg, ckArg, anonOf(c)) }); p != "" {
		if len(req.EncryptedTokenRequest) > 65535 && cache.Puts == puts && dumpCache(cache) == before {
			// a request that has no wire encoding can only be built in the attester's own process; the
			// statement is about requests, i.e. what a peer can send: not accepting it is what counts
			return "unencodable-request-not-accepted(panic)", nil
		}
		return "panic", &mc.Viol{Sig: "VerifyRequest panics: " + c.Class, What: p}
	}
	want, why := refAccept(c)
	if len(req.EncryptedTokenRequest) > 65535 {
		want, why = false, "the ciphertext does not fit its 16-bit length prefix: the request has no encoding a signature could cover"
	}
	switch {
	case err == nil && !want:
		return "accept/ref-reject", &mc.Viol{Sig: "VerifyRequest accepts a request that is not authentic: " + why, What: fmt.Sprintf("class %s: VerifyRequest returned nil; reference: %s", c.Class, why)}
	case err != nil && want && c.AnonLen != nil:
		// the statement is an "only if": refusing an authentic request because of an anonymous origin
		// id of unusual length is not forbidden - but a refused request must not leave state behind
		if cache.Puts != puts || dumpCache(cache) != before {
			return "reject-but-state-changed", &mc.Viol{Sig: "a rejected request created or altered client state in the cache", What: fmt.Sprintf("class %s: puts %d -> %d (%v)", c.Class, puts, cache.Puts, err)}
		}
		return "reject:anonymous origin id of unusual length refused, no state touched", nil
	case err != nil && want:
		return "reject/ref-accept", &mc.Viol{Sig: "VerifyRequest rejects an authentic request", What: fmt.Sprintf("class %s: %v", c.Class, err)}
	}
	if !want {
		if cache.Puts != puts || dumpCache(cache) != before {
			return "reject-but-state-changed", &mc.Viol{Sig: "a rejected request created or altered client state in the cache", What: fmt.Sprintf("class %s: puts %d -> %d", c.Class, puts, cache.Puts)}
		}
		return "reject:" + why, nil
	}
	// accepted: the client must now be registered
	if len(cache.M) == 0 {
		return "accept-unregistered", &mc.Viol{Sig: "an accepted request did not register the client", What: c.Class}
	}
	return "accept", nil
}

var seedv int64

func p384Scalar(kind int, label string) []byte {
	n := elliptic.P384().Params().N
	out := make([]byte, 48)
	switch kind {
	case 1:
		out[47] = 1
	case 2:
		out[47] = 2
	case 3:
		new(big.Int).Sub(n, big.NewInt(1)).FillBytes(out)
	case 4:
		copy(out[1:], mc.Fill(seedv, "lz-"+label, 47))
	case 6: // 2^384-1: a legal blind (a byte string that is hashed), not a scalar below N
		return bytes.Repeat([]byte{0xff}, 48)
	case 7: // a 64-byte blind
		return mc.Fill(seedv, "blind64-"+label, 64)
	case 8: // 49 bytes, first byte non-zero: just above 2^384
		return append([]byte{0x01}, mc.Fill(seedv, "blind49-"+label, 48)...)
	default:
		v := new(big.Int).SetBytes(mc.Fill(seedv, "sc-"+label, 56))
		v.Mod(v, new(big.Int).Sub(n, big.NewInt(1)))
		v.Add(v, big.NewInt(1))
		v.FillBytes(out)
	}
	return out
}

type honest struct {
	req       type3.RateLimitedTokenRequest
	reqBytes  []byte
	blind     []byte
	clientKey []byte
	secret    []byte
}

func mk(h honest, class string) Case {
	return Case{Class: class, RequestKey: hex.EncodeToString(h.req.RequestKey), NameKeyID: hex.EncodeToString(h.req.NameKeyID), Encrypted: hex.EncodeToString(h.req.EncryptedTokenRequest),
		Signature: hex.EncodeToString(h.req.Signature), Blind: hex.EncodeToString(h.blind), ClientKey: hex.EncodeToString(h.clientKey)}
}

func flip(b []byte, i int) []byte {
	o := append([]byte{}, b...)
	o[i/8] ^= 1 << (i % 8)
	return o
}

func main() {
	r := mc.Start("C06", "exploration")
	seedv = r.Seed
	mc.InstallDRBG(r.Seed)
	r.RegisterReplay("verify", func(pj json.RawMessage) *mc.Viol {
		var c Case
		json.Unmarshal(pj, &c)
		_, v := run(c)
		return v
	})
	if r.IsReplay() {
		r.DoReplay()
	}

	mc.Entropy("c06-world")
	w := px.NewW3(0)
	if err := w.Issuer.AddOrigin("origin.example"); err != nil {
		panic(err)
	}
	H := mc.Pick(r, 2, 6)
	var hs []honest
	// client secret kinds x blind kinds; clients 0/1 share nothing, (2,3) share the client secret
	secK := []int{5, 4, 1, 5, 5, 4}
	blK := []int{5, 6, 3, 4, 7, 1}
	for i := 0; i < H; i++ {
		a := px.T3Args{Secret: p384Scalar(secK[i], fmt.Sprintf("sec%d", i)), Blind: p384Scalar(blK[i], fmt.Sprintf("bl%d", i)), Challenge: mc.Fill(seedv, "chal", 32+i), Nonce: mc.Fill(seedv, fmt.Sprintf("nonce%d", i), 32), Origin: "origin.example"}
		st, err := w.Create(a)
		if err != nil {
			panic(err)
		}
		h := honest{reqBytes: append([]byte{}, st.Request().Marshal()...), blind: a.Blind, clientKey: append([]byte{}, st.ClientKey()...), secret: a.Secret}
		if !h.req.Unmarshal(h.reqBytes) {
			panic("honest request does not decode")
		}
		hs = append(hs, h)
	}
	// a second request of client 0 with the same blind (for "honest signature over another request")
	a0 := px.T3Args{Secret: hs[0].secret, Blind: hs[0].blind, Challenge: mc.Fill(seedv, "chal-b", 32), Nonce: mc.Fill(seedv, "nonce-b", 32), Origin: "origin.example"}
	st0b, err := w.Create(a0)
	if err != nil {
		panic(err)
	}
	var req0b type3.RateLimitedTokenRequest
	req0b.Unmarshal(st0b.Request().Marshal())

	var cases []Case
	add := func(c Case) { cases = append(cases, c) }
	for hi, h := range hs {
		tag := fmt.Sprintf("h%d:", hi)
		add(mk(h, tag+"honest"))
		pre := mk(h, tag+"honest-again")
		pre.PreVerify, pre.HonestReq, pre.HonestBl = true, hex.EncodeToString(h.reqBytes), hex.EncodeToString(h.blind)
		add(pre)
		fields := []struct {
			name string
			get  func(*Case) *string
			val  []byte
		}{
			{"request-key", func(c *Case) *string { return &c.RequestKey }, h.req.RequestKey},
			{"name-key-id", func(c *Case) *string { return &c.NameKeyID }, h.req.NameKeyID},
			{"encrypted-request", func(c *Case) *string { return &c.Encrypted }, h.req.EncryptedTokenRequest},
			{"signature", func(c *Case) *string { return &c.Signature }, h.req.Signature},
			{"blind", func(c *Case) *string { return &c.Blind }, h.blind},
			{"client-key", func(c *Case) *string { return &c.ClientKey }, h.clientKey},
		}
		for _, f := range fields {
			for i := 0; i < len(f.val)*8; i++ {
				c := mk(h, tag+"bitflip:"+f.name)
				*f.get(&c) = hex.EncodeToString(flip(f.val, i))
				// also with the client already registered by an honest request: a rejected call must not alter it
				if i%8 == 0 && hi == 0 {
					c2 := c
					c2.Class += ":registered"
					c2.PreVerify, c2.HonestReq, c2.HonestBl = true, hex.EncodeToString(h.reqBytes), hex.EncodeToString(h.blind)
					add(c2)
				}
				if i%8 == 3 && f.name != "blind" && f.name != "client-key" {
					c3 := c
					c3.Class += ":encoding-cached"
					c3.Cached, c3.HonestReq = true, hex.EncodeToString(h.reqBytes)
					add(c3)
				}
				add(c)
			}
		}
		// signature lengths 0..97
		for n := 0; n <= 97; n++ {
			c := mk(h, tag+"signature-length")
			s := append(append([]byte{}, h.req.Signature...), 0x00)
			c.Signature = hex.EncodeToString(s[:n])
			add(c)
		}
		// boundary values of r and s (the range checks of the verifier)
		{
			n := elliptic.P384().Params().N
			one := big.NewInt(1)
			var sc [][]byte
			for _, v := range []*big.Int{big.NewInt(0), one, new(big.Int).Sub(n, one), n, new(big.Int).Add(n, one), new(big.Int).Sub(new(big.Int).Lsh(one, 384), one)} {
				sc = append(sc, v.FillBytes(make([]byte, 48)))
			}
			sc = append(sc, h.req.Signature[:48], h.req.Signature[48:])
			// n - s*: the other valid s for the same r
			ns := new(big.Int).Sub(n, new(big.Int).SetBytes(h.req.Signature[48:]))
			sc = append(sc, ns.FillBytes(make([]byte, 48)))
			for i, rr := range sc {
				for j, ss := range sc {
					if i == 6 && j == 7 {
						continue // the honest signature itself
					}
					c := mk(h, tag+"signature-boundary-values")
					c.Signature = hex.EncodeToString(append(append([]byte{}, rr...), ss...))
					add(c)
				}
			}
		}
		// encrypted request lengths: empty, 1, truncated by one, extended by one
		for _, e := range [][]byte{{}, h.req.EncryptedTokenRequest[:1], h.req.EncryptedTokenRequest[:len(h.req.EncryptedTokenRequest)-1], append(append([]byte{}, h.req.EncryptedTokenRequest...), 0)} {
			c := mk(h, tag+"encrypted-length")
			c.Encrypted = hex.EncodeToString(e)
			add(c)
		}
		// foreign material from the other honest triples
		for oi, o := range hs {
			if oi == hi {
				continue
			}
			c := mk(h, tag+"signature-by-other-key")
			c.Signature = hex.EncodeToString(o.req.Signature)
			add(c)
			c = mk(h, tag+"wrong-blind")
			c.Blind = hex.EncodeToString(o.blind)
			add(c)
			c = mk(h, tag+"wrong-client-key")
			c.ClientKey = hex.EncodeToString(o.clientKey)
			add(c)
			c = mk(h, tag+"request-key-of-other-client")
			c.RequestKey = hex.EncodeToString(o.req.RequestKey)
			add(c)
			// the other client's whole request with this client's blind and key
			c = mk(o, tag+"other-request-with-own-blind-and-key")
			c.Blind, c.ClientKey = hex.EncodeToString(h.blind), hex.EncodeToString(h.clientKey)
			add(c)
		}
		// the anonymous origin id is the attester's own bookkeeping value and has no bearing on whether
		// the request is authentic: honest requests under ids of other lengths, corrupted ones too
		for _, n := range []int{0, 1, 31, 33, 64} {
			n := n
			c := mk(h, tag+fmt.Sprintf("honest:anonymous-origin-of-%d-bytes", n))
			c.AnonLen = &n
			add(c)
			c = mk(h, tag+fmt.Sprintf("bitflip:signature:anonymous-origin-of-%d-bytes", n))
			c.AnonLen = &n
			c.Signature = hex.EncodeToString(flip(h.req.Signature, 77))
			add(c)
		}
		// after the honest request was accepted: the same bytes of client key and blind cut at another
		// place (client key takes the first blind byte)
		{
			c := mk(h, tag+"client-key-and-blind-cut-differently:registered")
			c.ClientKey = hex.EncodeToString(append(append([]byte{}, h.clientKey...), h.blind[0]))
			c.Blind = hex.EncodeToString(h.blind[1:])
			c.PreVerify, c.HonestReq, c.HonestBl = true, hex.EncodeToString(h.reqBytes), hex.EncodeToString(h.blind)
			c.HonestCK = hex.EncodeToString(h.clientKey)
			add(c)
			c2 := mk(h, tag+"client-key-and-blind-cut-differently:registered")
			c2.ClientKey = hex.EncodeToString(h.clientKey[:len(h.clientKey)-1])
			c2.Blind = hex.EncodeToString(append([]byte{h.clientKey[len(h.clientKey)-1]}, h.blind...))
			c2.PreVerify, c2.HonestReq, c2.HonestBl = true, hex.EncodeToString(h.reqBytes), hex.EncodeToString(h.blind)
			c2.HonestCK = hex.EncodeToString(h.clientKey)
			add(c2)
		}
		// fields of another length than the wire format gives them (the request is handed over as a
		// struct): whatever is carried is what the signature must cover
		for _, d := range []struct {
			name string
			f    func(c *Case)
		}{
			{"name-key-id-extended-by-1", func(c *Case) { c.NameKeyID += "00" }},
			{"name-key-id-extended-by-32", func(c *Case) { c.NameKeyID += hex.EncodeToString(mc.Fill(seedv, "c06-nkid-ext", 32)) }},
			{"name-key-id-31-bytes", func(c *Case) { c.NameKeyID = c.NameKeyID[:62] }},
			{"name-key-id-empty", func(c *Case) { c.NameKeyID = "" }},
			{"request-key-extended-by-1", func(c *Case) { c.RequestKey += "00" }},
			{"request-key-48-bytes", func(c *Case) { c.RequestKey = c.RequestKey[:96] }},
			{"signature-extended-by-1", func(c *Case) { c.Signature += "00" }},
		} {
			c := mk(h, tag+"field-length:"+d.name)
			d.f(&c)
			add(c)
			c2 := c
			c2.Class += ":registered"
			c2.PreVerify, c2.HonestReq, c2.HonestBl = true, hex.EncodeToString(h.reqBytes), hex.EncodeToString(h.blind)
			add(c2)
		}
		// ciphertext at the limit of its 16-bit length prefix: 65535 bytes signed by the request key is
		// authentic; 65536 bytes cannot be encoded, so no signature over "the request's exact contents"
		// exists and the request must not be accepted (with the honest signature of the original, and
		// with a signature over the message whose length prefix wrapped around to 0)
		if hi == 0 {
			f := refs.BlindFactor(new(big.Int).SetBytes(h.blind), "ClientBlind")
			d := new(big.Int).Mul(new(big.Int).SetBytes(h.secret), f)
			d.Mod(d, elliptic.P384().Params().N)
			sign := func(enc []byte, declared int) []byte {
				msg := append([]byte{0x00, 0x03}, h.req.RequestKey...)
				msg = append(msg, h.req.NameKeyID...)
				msg = append(msg, byte(declared>>8), byte(declared))
				msg = append(msg, enc...)
				dg := sha512.Sum384(msg)
				priv := &stdecdsa.PrivateKey{D: d}
				priv.Curve = elliptic.P384()
				priv.X, priv.Y = priv.Curve.ScalarBaseMult(d.Bytes())
				rr, ss, err := stdecdsa.Sign(mc.NewStream(seedv, "c06-big-sign"), priv, dg[:])
				if err != nil {
					panic(err)
				}
				return append(rr.FillBytes(make([]byte, 48)), ss.FillBytes(make([]byte, 48))...)
			}
			// the request key is the client's own (unblinded) public key, the contents are signed with the
			// client secret, and the blind handed over is empty / nil / zero: the blind is hashed (its
			// factor is never 1), so the request key is NOT the client key blinded with that blind
			{
				sec := new(big.Int).SetBytes(h.secret)
				priv := &stdecdsa.PrivateKey{D: sec}
				priv.Curve = elliptic.P384()
				priv.X, priv.Y = priv.Curve.ScalarBaseMult(sec.Bytes())
				msg := append([]byte{0x00, 0x03}, h.clientKey...)
				msg = append(msg, h.req.NameKeyID...)
				msg = append(msg, byte(len(h.req.EncryptedTokenRequest)>>8), byte(len(h.req.EncryptedTokenRequest)))
				msg = append(msg, h.req.EncryptedTokenRequest...)
				dg := sha512.Sum384(msg)
				rr, ss, err := stdecdsa.Sign(mc.NewStream(seedv, "c06-unblinded-sign"), priv, dg[:])
				if err != nil {
					panic(err)
				}
				sig := append(rr.FillBytes(make([]byte, 48)), ss.FillBytes(make([]byte, 48))...)
				for _, bl := range []string{"", "00", hex.EncodeToString(make([]byte, 48)), "01"} {
					c := mk(h, tag+"request-key-is-the-client-key-itself:signed-with-the-client-secret:degenerate-blind")
					c.RequestKey = hex.EncodeToString(h.clientKey)
					c.Signature = hex.EncodeToString(sig)
					c.Blind = bl
					add(c)
				}
			}
			// a foreign request key in the request, the contents signed by the CLIENT's blinded key (the key
			// the attester computes itself): the signature does not verify under the key the request carries
			{
				signWith := func(rk, enc []byte) []byte {
					msg := append([]byte{0x00, 0x03}, rk...)
					msg = append(msg, h.req.NameKeyID...)
					msg = append(msg, byte(len(enc)>>8), byte(len(enc)))
					msg = append(msg, enc...)
					dg := sha512.Sum384(msg)
					priv := &stdecdsa.PrivateKey{D: d}
					priv.Curve = elliptic.P384()
					priv.X, priv.Y = priv.Curve.ScalarBaseMult(d.Bytes())
					rr, ss, err := stdecdsa.Sign(mc.NewStream(seedv, "c06-foreign-rk-sign"), priv, dg[:])
					if err != nil {
						panic(err)
					}
					return append(rr.FillBytes(make([]byte, 48)), ss.FillBytes(make([]byte, 48))...)
				}
				for oi, o := range hs {
					if oi == hi {
						continue
					}
					c := mk(h, tag+"foreign-request-key:contents-signed-by-the-client's-blinded-key")
					c.RequestKey = hex.EncodeToString(o.req.RequestKey)
					c.Signature = hex.EncodeToString(signWith(o.req.RequestKey, h.req.EncryptedTokenRequest))
					add(c)
				}
				// and the generator itself as request key
				gx, gy := elliptic.P384().Params().Gx, elliptic.P384().Params().Gy
				g := elliptic.MarshalCompressed(elliptic.P384(), gx, gy)
				c := mk(h, tag+"foreign-request-key:contents-signed-by-the-client's-blinded-key")
				c.RequestKey = hex.EncodeToString(g)
				c.Signature = hex.EncodeToString(signWith(g, h.req.EncryptedTokenRequest))
				add(c)
			}
			for _, n := range []int{65535, 65536, 65537} {
				enc := mc.Fill(seedv, "c06-big-ciphertext", n)
				c := mk(h, tag+fmt.Sprintf("ciphertext-of-%d-bytes:signed-by-the-request-key", n))
				c.Encrypted = hex.EncodeToString(enc)
				c.Signature = hex.EncodeToString(sign(enc, n&0xffff))
				add(c)
				c = mk(h, tag+fmt.Sprintf("ciphertext-of-%d-bytes:honest-signature-of-the-original", n))
				c.Encrypted = hex.EncodeToString(enc)
				add(c)
			}
		}
		// blind alphabet (incl. encodings of the same scalar with a leading zero byte: same scalar => still authentic)
		for k := 1; k <= 8; k++ {
			c := mk(h, tag+"blind-alphabet")
			c.Blind = hex.EncodeToString(p384Scalar(k, "alt"))
			add(c)
		}
		c := mk(h, tag+"blind-with-leading-zero-byte")
		c.Blind = "00" + hex.EncodeToString(h.blind)
		add(c)
		c = mk(h, tag+"blind-empty")
		c.Blind = ""
		add(c)
		// malformed keys
		x := h.clientKey[1:]
		bads := map[string][]byte{
			"prefix-00": append([]byte{0x00}, x...), "prefix-04": append([]byte{0x04}, x...), "prefix-05": append([]byte{0x05}, x...),
			"other-parity": append([]byte{h.clientKey[0] ^ 1}, x...), "short": h.clientKey[:48], "long": append(append([]byte{}, h.clientKey...), 0), "empty": {},
			"x-ge-p": append([]byte{0x02}, bytesFF(48)...), "x-zero": append([]byte{0x02}, make([]byte, 48)...), "uncompressed": uncompressed(h.clientKey),
		}
		var names []string
		for n := range bads {
			names = append(names, n)
		}
		sort.Strings(names)
		for _, n := range names {
			c := mk(h, tag+"malformed-client-key:"+n)
			c.ClientKey = hex.EncodeToString(bads[n])
			add(c)
			c = mk(h, tag+"malformed-request-key:"+n)
			rk := append([]byte{}, bads[n]...)
			if len(rk) > 1 && n != "uncompressed" {
				copy(rk[1:], h.req.RequestKey[1:min(len(rk), 49)])
				if n == "x-ge-p" {
					rk = append([]byte{0x02}, bytesFF(48)...)
				}
				if n == "x-zero" {
					rk = append([]byte{0x02}, make([]byte, 48)...)
				}
			}
			c.RequestKey = hex.EncodeToString(rk)
			add(c)
		}
	}
	// honest signature over another request of the same client and blind
	c := mk(hs[0], "h0:honest-signature-over-other-request")
	c.Signature = hex.EncodeToString(req0b.Signature)
	add(c)
	c = mk(hs[0], "h0:other-request-same-client-same-blind")
	c.NameKeyID, c.Encrypted, c.Signature = hex.EncodeToString(req0b.NameKeyID), hex.EncodeToString(req0b.EncryptedTokenRequest), hex.EncodeToString(req0b.Signature)
	add(c) // this one is authentic (same request key)

	r.SetRule("honest triples; every single-bit flip of each of the six inputs (request key, name key id, encrypted request, signature, blind, client key); signature lengths 0..97; foreign signatures/blinds/keys from the other honest triples; blind alphabet; 10 malformed key encodings for client key and request key. Every case is a distinct input; non-trivial = reaches VerifyRequest with a decodable request structure (all)")
	r.Assume("reference verdict = crypto/ecdsa.Verify over the hand-rebuilt message AND request key == client key multiplied by hash_to_field(blind||00||0003ClientBlind) (refs package, crypto/elliptic)",
		"the request is handed over as a struct (as the API takes it); wire decoding of requests is C03/C04's subject",
		"honest triples use client secrets and blinds from the boundary-scalar alphabet")
	r.Set("honest_triples", H)
	r.Par(len(cases), func(i int) {
		out, v := run(cases[i])
		if v != nil {
			r.Violation("verify", cases[i], v)
		}
		r.Case(fmt.Sprintf("%d|%s", i, cases[i].Class), true, out)
		if i%1500 == 7 {
			r.Sample(map[string]any{"class": cases[i].Class, "outcome": out, "signature": cases[i].Signature[:min(32, len(cases[i].Signature))] + "…"})
		}
	})
	r.Finish()
}

func bytesFF(n int) []byte {
	b := make([]byte, n)
	for i := range b {
		b[i] = 0xff
	}
	return b
}

func uncompressed(comp []byte) []byte {
	c := elliptic.P384()
	x, y := elliptic.UnmarshalCompressed(c, comp)
	return elliptic.Marshal(c, x, y)
}
