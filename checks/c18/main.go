// C18: token keys encode canonically and key identifiers are derived from them.
//
// Bounded exhaustive enumeration on the real util / issuer / client code against
// hand-assembled DER (own TLV encoder, literal RSASSA-PSS AlgorithmIdentifier),
// SHA-256 over independently serialised public keys, and a hand-serialised name key.
package main

import (
	"bytes"
	"crypto/elliptic"
	"crypto/rsa"
	"crypto/sha256"
	"encoding/hex"
	"encoding/json"
	"encoding/pem"
	"fmt"
	"math/big"

	hpke "github.com/cisco/go-hpke"
	"github.com/cloudflare/circl/oprf"
	"github.com/cloudflare/pat-go/tokens/type1"
	"github.com/cloudflare/pat-go/tokens/type2"
	"github.com/cloudflare/pat-go/tokens/type3"
	"github.com/cloudflare/pat-go/tokens/type5"
	"github.com/cloudflare/pat-go/util"

	"verif/mc"
	"verif/px"
)

var seedBase int64

func trunc(s string, n int) string {
	if len(s) > n {
		return s[:n]
	}
	return s
}

// ---- hand DER ----------------------------------------------------------------------------

// derLen is the minimal definite length form of X.690 section 8.1.3.
func derLen(n int) []byte {
	if n < 128 {
		return []byte{byte(n)}
	}
	var v []byte
	for x := n; x > 0; x /= 256 {
		v = append([]byte{byte(x % 256)}, v...)
	}
	return append([]byte{0x80 + byte(len(v))}, v...)
}

func tlv(tag byte, content []byte) []byte {
	out := []byte{tag}
	out = append(out, derLen(len(content))...)
	return append(out, content...)
}

// derUint is INTEGER for a non-negative value given as big-endian magnitude:
// leading zero bytes removed, one zero byte kept/added when the value is zero or
// its top bit is set (two's complement sign).
func derUint(mag []byte) []byte {
	i := 0
	for i < len(mag) && mag[i] == 0 {
		i++
	}
	mag = mag[i:]
	if len(mag) == 0 || mag[0] >= 0x80 {
		mag = append([]byte{0}, mag...)
	}
	return tlv(0x02, mag)
}

func uintMag(v uint64) []byte {
	var out []byte
	for ; v > 0; v /= 256 {
		out = append([]byte{byte(v % 256)}, out...)
	}
	return out
}

// pssAlgID is the AlgorithmIdentifier of RFC 9578 section 8.2.2, written out by
// hand from RFC 4055 (id-RSASSA-PSS with explicit hashAlgorithm sha384 without
// parameters, maskGenAlgorithm mgf1 with sha384 without parameters, saltLength
// 48; trailerField left at its default):
//
//	30 3d                                    SEQUENCE (61)
//	   06 09 2a 86 48 86 f7 0d 01 01 0a      OID 1.2.840.113549.1.1.10 id-RSASSA-PSS
//	   30 30                                 SEQUENCE (48) RSASSA-PSS-params
//	      a0 0d 30 0b 06 09 60 86 48 01 65 03 04 02 02                   [0] sha384
//	      a1 1a 30 18 06 09 2a 86 48 86 f7 0d 01 01 08                   [1] mgf1
//	                  30 0b 06 09 60 86 48 01 65 03 04 02 02                  sha384
//	      a2 03 02 01 30                                                 [2] 48
const pssAlgIDHex = "303d" + "06092a864886f70d01010a" + "3030" +
	"a00d300b0609608648016503040202" +
	"a11a301806092a864886f70d010108" + "300b0609608648016503040202" +
	"a203020130"

// rsaEncryption OID 1.2.840.113549.1.1.1 (content bytes)
const rsaEncOIDHex = "2a864886f70d010101"

func mustHex(s string) []byte {
	b, err := hex.DecodeString(s)
	if err != nil {
		panic(err)
	}
	return b
}

// handPSSSPKI is SEQUENCE{ algId, BIT STRING{ 00 || SEQUENCE{INTEGER n, INTEGER e} } }.
func handPSSSPKI(nMag []byte, e uint64) []byte {
	rsapub := tlv(0x30, append(derUint(nMag), derUint(uintMag(e))...))
	bits := tlv(0x03, append([]byte{0x00}, rsapub...))
	return tlv(0x30, append(mustHex(pssAlgIDHex), bits...))
}

// readTLV is a tiny reader for the legacy-form check (definite lengths only).
func readTLV(b []byte) (tag byte, content, rest []byte, ok bool) {
	if len(b) < 2 {
		return
	}
	tag = b[0]
	n := int(b[1])
	off := 2
	if n >= 128 {
		k := n - 128
		if k == 0 || k > 3 || len(b) < 2+k {
			return
		}
		n = 0
		for i := 0; i < k; i++ {
			n = n*256 + int(b[2+i])
		}
		off = 2 + k
	}
	if len(b) < off+n {
		return
	}
	return tag, b[off : off+n], b[off+n:], true
}

// ---- RSA key alphabet --------------------------------------------------------------------

type rsaCase struct {
	Bits    int    `json:"modulus_bits"`
	Pattern int    `json:"pattern"` // 0: 2^(bits-1)+1  1: 0x80 bytes  2: all ones  3: DRBG filler
	E       uint64 `json:"exponent"`
}

var patternNames = []string{"topbit+1", "0x80..", "0xff..", "drbg", "contains PEM blocks of a tiny key"}

// modulus returns the big-endian magnitude of an odd integer of exactly `bits` bits.
func modulus(bits, pattern int) []byte {
	n := (bits + 7) / 8
	b := make([]byte, n)
	switch pattern {
	case 1:
		for i := range b {
			b[i] = 0x80
		}
	case 2:
		for i := range b {
			b[i] = 0xff
		}
	case 3:
		copy(b, mc.Fill(seedBase, fmt.Sprintf("c18-modulus-%d", bits), n))
	case 4:
		// the modulus bytes contain text that a lenient reader would take for the key itself: a complete
		// PEM block with the SubjectPublicKeyInfo of a tiny RSA key, a newline in front of it
		copy(b, mc.Fill(seedBase, fmt.Sprintf("c18-modulus-pem-%d", bits), n))
		small := handPSSSPKI([]byte{0xc5, 0x3b, 0x0f, 0x11}, 3)
		legacy := tlv(0x30, append(append([]byte{}, mustHex("300d06092a864886f70d0101010500")...), tlv(0x03, append([]byte{0x00}, tlv(0x30, append(derUint([]byte{0xc5, 0x3b, 0x0f, 0x11}), derUint([]byte{3})...))...))...))
		txt := "\n" + string(pem.EncodeToMemory(&pem.Block{Type: "PUBLIC KEY", Bytes: legacy})) + string(pem.EncodeToMemory(&pem.Block{Type: "PUBLIC KEY", Bytes: small}))
		if len(txt)+8 < n {
			copy(b[4:], txt)
		}
	}
	top := uint((bits - 1) % 8) // position of the top bit inside byte 0
	b[0] &= byte(1<<(top+1) - 1)
	b[0] |= 1 << top
	b[n-1] |= 1
	return b
}

func lenForm(n int) string {
	switch {
	case n < 128:
		return "short"
	case n < 256:
		return "81"
	}
	return "82"
}

func checkRSA(c rsaCase) (v *mc.Viol, class string) {
	mag := modulus(c.Bits, c.Pattern)
	N := new(big.Int).SetBytes(mag)
	if N.BitLen() != c.Bits || N.Bit(0) != 1 {
		panic("harness: modulus construction")
	}
	key := &rsa.PublicKey{N: N, E: int(c.E)}
	want := handPSSSPKI(mag, c.E)
	id := fmt.Sprintf("bits=%d pattern=%s e=%d", c.Bits, patternNames[c.Pattern], c.E)
	bad := func(sig, what string) (*mc.Viol, string) {
		return &mc.Viol{Sig: sig, What: id + ": " + what}, sig
	}

	var pss, legacy, viaF, viaT []byte
	var e1, e2, e3, e4 error
	if p := mc.Catch(func() {
		pss, e1 = util.MarshalTokenKeyPSSOID(key)
		legacy, e2 = util.MarshalTokenKeyRSAEncryptionOID(key)
		viaF, e3 = util.MarshalTokenKey(key, false)
		viaT, e4 = util.MarshalTokenKey(key, true)
	}); p != "" {
		return bad("MarshalTokenKey* panics", p)
	}
	for _, e := range []error{e1, e2, e3, e4} {
		if e != nil {
			return bad("MarshalTokenKey* returns an error for a well-formed key", e.Error())
		}
	}
	if key.N.Cmp(N) != 0 || key.E != int(c.E) {
		return bad("MarshalTokenKey* changes the key it was given", "")
	}
	if !bytes.Equal(pss, want) {
		d := 0
		for d < len(pss) && d < len(want) && pss[d] == want[d] {
			d++
		}
		_, content, _, _ := readTLV(want)
		h := len(want) - len(content)
		where := "public key part"
		if d < h {
			where = "outer header"
		} else if d < h+63 {
			where = "AlgorithmIdentifier"
		}
		return bad("RSASSA-PSS SubjectPublicKeyInfo differs from the prescribed DER in "+where,
			fmt.Sprintf("first difference at byte %d; got %d bytes %s... want %d bytes %s...", d, len(pss), trunc(hex.EncodeToString(pss), 160), len(want), trunc(hex.EncodeToString(want), 160)))
	}
	if !bytes.Equal(viaF, pss) {
		return bad("MarshalTokenKey(k,false) is not the RSASSA-PSS form", "")
	}
	if !bytes.Equal(viaT, legacy) {
		return bad("MarshalTokenKey(k,true) is not the rsaEncryption form", "")
	}
	// the legacy form names rsaEncryption (only the OID is looked at, nothing else is pinned)
	okOID := false
	if t, outer, _, ok := readTLV(legacy); ok && t == 0x30 {
		if t, alg, _, ok := readTLV(outer); ok && t == 0x30 {
			if t, oid, _, ok := readTLV(alg); ok && t == 0x06 && bytes.Equal(oid, mustHex(rsaEncOIDHex)) {
				okOID = true
			}
		}
	}
	if !okOID {
		return bad("rsaEncryption form does not carry the rsaEncryption OID", hex.EncodeToString(legacy[:min(len(legacy), 40)]))
	}
	for _, enc := range []struct {
		name string
		b    []byte
	}{{"RSASSA-PSS form", pss}, {"rsaEncryption form", legacy}, {"hand-assembled RSASSA-PSS DER", want}} {
		var got *rsa.PublicKey
		var err error
		if p := mc.Catch(func() { got, err = util.UnmarshalTokenKey(append([]byte{}, enc.b...)) }); p != "" {
			return bad("UnmarshalTokenKey panics on "+enc.name, p)
		}
		if err != nil {
			return bad("UnmarshalTokenKey rejects "+enc.name, err.Error())
		}
		if got == nil || got.N == nil || got.N.Cmp(N) != 0 {
			return bad("UnmarshalTokenKey of "+enc.name+" returns another modulus", "")
		}
		if got.E != int(c.E) {
			return bad("UnmarshalTokenKey of "+enc.name+" returns another exponent", fmt.Sprintf("got %d", got.E))
		}
	}
	npad, epad := 0, 0
	if mag[0] >= 0x80 {
		npad = 1
	}
	if m := uintMag(c.E); len(m) > 0 && m[0] >= 0x80 {
		epad = 1
	}
	_, outer, _, _ := readTLV(want)
	return nil, fmt.Sprintf("rsa: round-trip+DER ok outer-len=%s n-signpad=%d e-signpad=%d", lenForm(len(outer)), npad, epad)
}

// checkWalk: ONE key object whose modulus integer (and exponent) the caller changes in place
// between encodings - a key slot that is refilled: every encoding must be that of the value the
// key holds at the time of the call.
type walkCase struct {
	Bits int `json:"modulus_bits"`
}

func checkWalk(c walkCase) *mc.Viol {
	mag := modulus(c.Bits, 3)
	N := new(big.Int).SetBytes(mag)
	key := &rsa.PublicKey{N: N, E: 65537}
	type decoded struct {
		key *rsa.PublicKey
		n   *big.Int
		e   int
	}
	var earlier []decoded
	for step := 0; step < 6; step++ {
		if step > 0 {
			N.Add(N, big.NewInt(2)) // in place: the same *big.Int
			if step == 3 {
				key.E = 3
			}
		}
		want := handPSSSPKI(N.Bytes(), uint64(key.E))
		var pss, legacy []byte
		var e1, e2 error
		if p := mc.Catch(func() {
			pss, e1 = util.MarshalTokenKeyPSSOID(key)
			legacy, e2 = util.MarshalTokenKeyRSAEncryptionOID(key)
		}); p != "" || e1 != nil || e2 != nil {
			return &mc.Viol{Sig: "MarshalTokenKey* fails on a key object that is refilled in place", What: fmt.Sprintf("bits=%d step %d: %s %v %v", c.Bits, step, p, e1, e2)}
		}
		if !bytes.Equal(pss, want) {
			return &mc.Viol{Sig: "RSASSA-PSS encoding of a key object refilled in place is not the encoding of its current value", What: fmt.Sprintf("bits=%d step %d (modulus advanced in place %d times)", c.Bits, step, step)}
		}
		for _, enc := range [][]byte{pss, legacy} {
			got, err := util.UnmarshalTokenKey(enc)
			if err != nil || got.N.Cmp(N) != 0 || got.E != key.E {
				return &mc.Viol{Sig: "decoding does not invert encoding for a key object refilled in place", What: fmt.Sprintf("bits=%d step %d: %v", c.Bits, step, err)}
			}
			// keys decoded earlier are the caller's: decoding another key must not change them
			for _, e := range earlier {
				if e.key.N.Cmp(e.n) != 0 || e.key.E != e.e {
					return &mc.Viol{Sig: "a token key decoded earlier changes when another key is decoded", What: fmt.Sprintf("bits=%d step %d", c.Bits, step)}
				}
			}
			earlier = append(earlier, decoded{got, new(big.Int).Set(got.N), got.E})
		}
	}
	return nil
}

func checkRSASafe(c rsaCase) (v *mc.Viol, class string) {
	if p := mc.CatchStack(func() { v, class = checkRSA(c) }); p != "" {
		// only harness code can panic here (target calls are guarded individually)
		panic("harness: " + p)
	}
	return
}

// ---- key identifiers -----------------------------------------------------------------------

type idCase struct {
	T     int `json:"type"`
	Key   int `json:"key"`
	Entry int `json:"entry"` // 0 issuer TokenKeyID; 1 client CreateTokenRequest; 2 client ...WithBlind(s)
	Batch int `json:"batch,omitempty"`
}

func (c idCase) label() string {
	return fmt.Sprintf("id-t%d-k%d-e%d-b%d", c.T, c.Key, c.Entry, c.Batch)
}

// refKeyID is SHA-256 over the public key serialised without pat-go.
func refKeyID(c idCase) []byte {
	var ser []byte
	switch c.T {
	case 1:
		kb := px.OPRFKeyBytes(oprf.SuiteP384, c.Key)
		cv := elliptic.P384()
		x, y := cv.ScalarBaseMult(kb)
		ser = elliptic.MarshalCompressed(cv, x, y)
		if other := px.PubKeyBytes(oprf.SuiteP384, kb); !bytes.Equal(ser, other) {
			panic("harness: crypto/elliptic and circl disagree on k*G")
		}
	case 5:
		ser = px.PubKeyBytes(oprf.SuiteRistretto255, px.OPRFKeyBytes(oprf.SuiteRistretto255, c.Key))
	case 2, 3:
		k := px.RSAKeys()[c.Key]
		ser = handPSSSPKI(k.N.Bytes(), uint64(k.E))
	}
	h := sha256.Sum256(ser)
	return h[:]
}

func p384Scalar(label string) []byte {
	n := elliptic.P384().Params().N
	v := new(big.Int).SetBytes(mc.Fill(seedBase, "sc-"+label, 56))
	v.Mod(v, new(big.Int).Sub(n, big.NewInt(1)))
	v.Add(v, big.NewInt(1))
	return v.FillBytes(make([]byte, 48))
}

func checkID(c idCase) (v *mc.Viol, class string) {
	mc.Entropy("c18-" + c.label())
	want := refKeyID(c)
	bad := func(sig, what string) (*mc.Viol, string) {
		return &mc.Viol{Sig: sig, What: c.label() + ": " + what}, sig
	}
	rel := "last!=first"
	if want[0] == want[31] {
		rel = "last==first"
	}
	chal := mc.Fill(seedBase, "chal-"+c.label(), 40)
	nonce := mc.Fill(seedBase, "nonce-"+c.label(), 32)

	if c.Entry == 0 {
		var got, again []byte
		if p := mc.Catch(func() {
			var id func() []byte
			switch c.T {
			case 1:
				id = px.NewW1(c.Key).Issuer.TokenKeyID
			case 2:
				id = px.NewW2(c.Key).Issuer.TokenKeyID
			case 3:
				id = px.NewW3(c.Key).Issuer.TokenKeyID
			case 5:
				id = px.NewW5(c.Key).Issuer.TokenKeyID
			}
			first := id()
			got = append([]byte{}, first...)
			// the caller owns what it was handed: it wipes / reuses the returned slice, then asks again
			for i := range first {
				first[i] = 0
			}
			again = id()
		}); p != "" {
			return bad(fmt.Sprintf("type%d TokenKeyID panics", c.T), p)
		}
		if !bytes.Equal(got, want) {
			return bad(fmt.Sprintf("type%d issuer TokenKeyID is not SHA-256 of the serialized public key", c.T), fmt.Sprintf("got %x want %x", got, want))
		}
		if !bytes.Equal(again, want) {
			return bad(fmt.Sprintf("type%d issuer TokenKeyID changes after the caller overwrote a previously returned id", c.T), fmt.Sprintf("second call %x want %x", again, want))
		}
		return nil, fmt.Sprintf("type%d issuer id ok", c.T)
	}

	// requests: the client is handed the reference id and the public key decoded from bytes
	var field uint8
	var wire []byte
	var err error
	if p := mc.CatchStack(func() {
		switch c.T {
		case 1:
			w := px.NewW1(c.Key)
			var st type1.BasicPrivateTokenRequestState
			if c.Entry == 1 {
				st, err = type1.NewBasicPrivateClient().CreateTokenRequest(chal, nonce, want, w.ClientPub())
			} else {
				st, err = type1.NewBasicPrivateClient().CreateTokenRequestWithBlind(chal, nonce, want, w.ClientPub(), p384Scalar(c.label()))
			}
			if err == nil {
				field, wire = st.Request().TokenKeyID, st.Request().Marshal()
			}
		case 2:
			w := px.NewW2(c.Key)
			var st type2.BasicPublicTokenRequestState
			if c.Entry == 1 {
				st, err = type2.NewBasicPublicClient().CreateTokenRequest(chal, nonce, want, w.ClientPub())
			} else {
				bl := new(big.Int).SetBytes(mc.Fill(seedBase, "rb-"+c.label(), 300))
				bl.Mod(bl, w.Key.N)
				st, err = type2.NewBasicPublicClient().CreateTokenRequestWithBlind(chal, nonce, want, w.ClientPub(), bl.Bytes(), mc.Fill(seedBase, "salt-"+c.label(), 48))
			}
			if err == nil {
				field, wire = st.Request().TokenKeyID, st.Request().Marshal()
			}
		case 5:
			w := px.NewW5(c.Key)
			nonces := make([][]byte, c.Batch)
			var blinds [][]byte
			for i := range nonces {
				nonces[i] = mc.Fill(seedBase, fmt.Sprintf("nonce-%s-%d", c.label(), i), 32)
				s := oprf.SuiteRistretto255.Group().HashToScalar(mc.Fill(seedBase, fmt.Sprintf("rs-%s-%d", c.label(), i), 32), []byte("verif"))
				sb, _ := s.MarshalBinary()
				blinds = append(blinds, sb)
			}
			var st type5.BatchedPrivateTokenRequestState
			if c.Entry == 1 {
				st, err = type5.NewBatchedPrivateClient().CreateTokenRequest(chal, nonces, want, w.ClientPub())
			} else {
				st, err = type5.NewBatchedPrivateClient().CreateTokenRequestWithBlinds(chal, nonces, want, w.ClientPub(), blinds)
			}
			if err == nil {
				field, wire = st.Request().TokenKeyID, st.Request().Marshal()
			}
		}
	}); p != "" {
		return bad(fmt.Sprintf("type%d client request creation panics", c.T), p)
	}
	if err != nil {
		return bad(fmt.Sprintf("type%d client request creation fails", c.T), err.Error())
	}
	if field != want[31] {
		return bad(fmt.Sprintf("type%d request field TokenKeyID is not the last byte of the key id", c.T), fmt.Sprintf("got %02x, id %x", field, want))
	}
	if len(wire) < 3 || wire[0] != 0 || int(wire[1]) != c.T || wire[2] != want[31] {
		return bad(fmt.Sprintf("type%d marshalled request does not carry the last byte of the key id at offset 2", c.T), fmt.Sprintf("request starts %x, id %x", wire[:min(len(wire), 4)], want))
	}
	return nil, fmt.Sprintf("type%d request carries last id byte (%s)", c.T, rel)
}

func checkIDSafe(c idCase) (v *mc.Viol, class string) {
	if p := mc.CatchStack(func() { v, class = checkID(c) }); p != "" {
		panic("harness: " + p)
	}
	return
}

// ---- type-3 name key id ------------------------------------------------------------------

type nkCase struct {
	Source int   `json:"source"` // 0 issuer-drawn name key; 1 CreatePrivateEncapKeyFromSeed; 2 decoded from hand-built bytes
	Idx    int   `json:"index"`
	RSA    int   `json:"rsa_key"`
	ID     uint8 `json:"key_id,omitempty"` // source 2
	KEM    int   `json:"kem,omitempty"`    // source 2: 0x20 X25519, 0x10 P-256
	KDF    int   `json:"kdf,omitempty"`
	AEAD   int   `json:"aead,omitempty"`
	NameL  int   `json:"origin_len"`
}

func (c nkCase) label() string {
	return fmt.Sprintf("nk-s%d-i%d-r%d-id%d-kem%x-kdf%d-aead%d-o%d", c.Source, c.Idx, c.RSA, c.ID, c.KEM, c.KDF, c.AEAD, c.NameL)
}

func u16(v uint16) []byte { return []byte{byte(v >> 8), byte(v)} }

// handNameKey: id(1) || kem_id(2) || public key || kdf_id(2) || aead_id(2)
func handNameKey(k type3.EncapKey) []byte {
	id, suite, pk := k.VerifParts()
	out := []byte{id}
	out = append(out, u16(uint16(suite.KEM.ID()))...)
	out = append(out, suite.KEM.SerializePublicKey(pk)...)
	out = append(out, u16(uint16(suite.KDF.ID()))...)
	out = append(out, u16(uint16(suite.AEAD.ID()))...)
	return out
}

func checkNK(c nkCase) (v *mc.Viol, class string) {
	mc.Entropy("c18-" + c.label())
	bad := func(sig, what string) (*mc.Viol, string) {
		return &mc.Viol{Sig: sig, What: c.label() + ": " + what}, sig
	}
	w := px.NewW3(c.RSA) // draws the issuer's name key from this case's stream
	var nk type3.EncapKey
	var built []byte
	switch c.Source {
	case 0:
		var err error
		if nk, err = w.ClientNameKey(); err != nil { // decoded from NameKey().Marshal() as a client would
			return bad("client cannot decode the issuer's name key", err.Error())
		}
	case 1:
		pk, err := type3.CreatePrivateEncapKeyFromSeed(mc.Fill(seedBase, fmt.Sprintf("nkseed-%d", c.Idx), 32))
		if err != nil {
			return bad("CreatePrivateEncapKeyFromSeed fails on a 32-byte seed", err.Error())
		}
		nk = pk.Public()
	case 2:
		var pub []byte
		switch c.KEM {
		case 0x20:
			s, err := hpke.AssembleCipherSuite(hpke.DHKEM_X25519, hpke.KDF_HKDF_SHA256, hpke.AEAD_AESGCM128)
			if err != nil {
				panic(err)
			}
			_, p, err := s.KEM.DeriveKeyPair(mc.Fill(seedBase, fmt.Sprintf("nkx-%d", c.Idx), 32))
			if err != nil {
				panic(err)
			}
			pub = s.KEM.SerializePublicKey(p)
		case 0x10:
			cv := elliptic.P256()
			x, y := cv.ScalarBaseMult(append([]byte{1}, mc.Fill(seedBase, fmt.Sprintf("nkp-%d", c.Idx), 30)...))
			pub = elliptic.Marshal(cv, x, y)
		}
		built = append([]byte{c.ID}, u16(uint16(c.KEM))...)
		built = append(built, pub...)
		built = append(built, u16(uint16(c.KDF))...)
		built = append(built, u16(uint16(c.AEAD))...)
		var err error
		if nk, err = type3.UnmarshalEncapKey(append([]byte{}, built...)); err != nil {
			return bad("UnmarshalEncapKey rejects a well-formed name key", fmt.Sprintf("%x: %v", built, err))
		}
	}
	ser := handNameKey(nk)
	if built != nil {
		// the serialized name key is what the issuer published: the bytes this key was decoded from
		if !bytes.Equal(ser, built) {
			return bad("a decoded name key does not serialize to the bytes it was decoded from", fmt.Sprintf("published %x, fields after decoding %x", built, ser))
		}
		ser = built
	}
	want := sha256.Sum256(ser)

	name := string(bytes.Repeat([]byte("n"), c.NameL))
	cl := type3.NewRateLimitedClientFromSecret(p384Scalar("sec-" + c.label()))
	var st type3.RateLimitedTokenRequestState
	var err error
	var field, wire []byte
	if p := mc.CatchStack(func() {
		st, err = cl.CreateTokenRequest(mc.Fill(seedBase, "chal-"+c.label(), 32), mc.Fill(seedBase, "nonce-"+c.label(), 32),
			p384Scalar("bl-"+c.label()), w.KeyID, w.ClientPub(), name, nk)
		if err == nil {
			field, wire = st.Request().NameKeyID, st.Request().Marshal()
		}
	}); p != "" {
		return bad("type3 client request creation panics", p)
	}
	if err != nil {
		return bad("type3 client request creation fails", err.Error())
	}
	if !bytes.Equal(field, want[:]) {
		return bad("type3 request NameKeyID is not SHA-256 of the serialized name key", fmt.Sprintf("got %x want %x (name key %x)", field, want, ser))
	}
	if len(wire) < 83 || !bytes.Equal(wire[51:83], want[:]) {
		return bad("type3 marshalled request does not carry SHA-256 of the name key at bytes 51..82", fmt.Sprintf("%d bytes", len(wire)))
	}
	// the SAME client object talks to a second issuer next (its own name key, the same one-byte key
	// id as every issuer-drawn name key has) and then to the first one again
	w2 := px.NewW3((c.RSA + 1) % len(px.RSAKeys()))
	nk2, err := w2.ClientNameKey()
	if err != nil {
		return bad("client cannot decode the issuer's name key", err.Error())
	}
	want2 := sha256.Sum256(handNameKey(nk2))
	for round, tc := range []struct {
		k    type3.EncapKey
		w    *px.W3
		want [32]byte
	}{{nk2, w2, want2}, {nk, w, want}} {
		var f2 []byte
		if p := mc.CatchStack(func() {
			st, err = cl.CreateTokenRequest(mc.Fill(seedBase, "chal-"+c.label(), 32), mc.Fill(seedBase, fmt.Sprintf("nonce%d-%s", round, c.label()), 32),
				p384Scalar("bl-"+c.label()), tc.w.KeyID, tc.w.ClientPub(), name, tc.k)
			if err == nil {
				f2 = st.Request().NameKeyID
			}
		}); p != "" {
			return bad("type3 client request creation panics", p)
		}
		if err != nil {
			return bad("type3 client request creation fails", err.Error())
		}
		if !bytes.Equal(f2, tc.want[:]) {
			return bad("type3 request NameKeyID is not SHA-256 of the serialized name key when one client object uses several name keys in turn", fmt.Sprintf("request %d of the client: got %x want %x", round+2, f2, tc.want))
		}
	}
	return nil, fmt.Sprintf("type3 name key id ok (source %d kem %04x)", c.Source, uint16(nk0(nk)))
}

func nk0(k type3.EncapKey) hpke.KEMID {
	_, s, _ := k.VerifParts()
	return s.KEM.ID()
}

func checkNKSafe(c nkCase) (v *mc.Viol, class string) {
	if p := mc.CatchStack(func() { v, class = checkNK(c) }); p != "" {
		panic("harness: " + p)
	}
	return
}

// ---- main ----------------------------------------------------------------------------------

func main() {
	r := mc.Start("C18", "exploration")
	seedBase = r.Seed
	mc.InstallDRBG(r.Seed)
	r.RegisterReplay("rsa", func(pj json.RawMessage) *mc.Viol {
		var c rsaCase
		json.Unmarshal(pj, &c)
		v, _ := checkRSASafe(c)
		return v
	})
	r.RegisterReplay("walk", func(pj json.RawMessage) *mc.Viol {
		var c walkCase
		json.Unmarshal(pj, &c)
		return checkWalk(c)
	})
	r.RegisterReplay("keyid", func(pj json.RawMessage) *mc.Viol {
		var c idCase
		json.Unmarshal(pj, &c)
		v, _ := checkIDSafe(c)
		return v
	})
	r.RegisterReplay("namekey", func(pj json.RawMessage) *mc.Viol {
		var c nkCase
		json.Unmarshal(pj, &c)
		v, _ := checkNKSafe(c)
		return v
	})
	if r.IsReplay() {
		r.DoReplay()
	}
	px.RSAKeys()

	// --- RSA public keys
	named := []int{512, 1023, 1024, 2047, 2048, 2049, 3072, 4096, 8192, 16383, 16384, 16385, 20000}
	// plus every bit length of a range, so that each DER length form (short, 0x81, 0x82) of
	// the INTEGER, the RSAPublicKey SEQUENCE, the BIT STRING and the outer SEQUENCE is crossed
	lo, hi := 16, mc.Pick(r, 2100, 4104)
	seen := map[int]bool{}
	var bitLens []int
	for b := lo; b <= hi; b++ {
		bitLens = append(bitLens, b)
		seen[b] = true
	}
	for _, b := range named {
		if !seen[b] {
			bitLens = append(bitLens, b)
		}
	}
	exps := []uint64{0, 1, 2, 3, 17, 255, 65537, 1<<31 - 1, 1<<31 + 1}
	// exponents whose DER ends in a byte that text handling treats specially (the exponent is the last
	// field of the key): TAB, VT, CR, NEL as the low byte, LF CR as the low two; on a subset of lengths
	expsTail := []uint64{9, 11, 13, 133, 269, 0x0a0d, 65549, 0x2021, 0x3d3d, 0x0001_0000_0d}
	var rsaCases []rsaCase
	for _, b := range []int{2048, 2049, 3072, 4096} {
		for _, e := range []uint64{3, 65537} {
			rsaCases = append(rsaCases, rsaCase{Bits: b, Pattern: 4, E: e})
		}
	}
	for _, b := range bitLens {
		for p := 0; p < 4; p++ {
			for _, e := range exps {
				rsaCases = append(rsaCases, rsaCase{Bits: b, Pattern: p, E: e})
			}
			if b%64 == 0 || b%64 == 63 || b < 80 {
				for _, e := range expsTail {
					rsaCases = append(rsaCases, rsaCase{Bits: b, Pattern: p, E: e})
				}
			}
		}
	}
	r.Par(len(rsaCases), func(i int) {
		c := rsaCases[i]
		v, class := checkRSASafe(c)
		if v != nil {
			r.Violation("rsa", c, v)
		}
		r.Case(fmt.Sprintf("rsa-%d-%d-%d", c.Bits, c.Pattern, c.E), v == nil, class)
		if i%(len(rsaCases)/5+1) == 0 {
			r.Sample(c)
		}
	})

	for _, b := range []int{64, 512, 2048, 2049} {
		c := walkCase{Bits: b}
		if v := checkWalk(c); v != nil {
			r.Violation("walk", c, v)
		}
		r.Case(fmt.Sprintf("walk-%d", b), true, "rsa: key object refilled in place: every encoding is that of the current value")
	}

	// --- key identifiers
	nOPRF := mc.Pick(r, 6, 24)
	var idCases []idCase
	for _, t := range []int{1, 5} {
		for k := 0; k < nOPRF; k++ {
			idCases = append(idCases, idCase{T: t, Key: k, Entry: 0})
			batches := []int{0}
			if t == 5 {
				batches = mc.Pick(r, []int{1, 3}, []int{1, 2, 3, 4})
			}
			for _, b := range batches {
				idCases = append(idCases, idCase{T: t, Key: k, Entry: 1, Batch: b}, idCase{T: t, Key: k, Entry: 2, Batch: b})
			}
		}
	}
	// keys found by search whose serialised public key has a zero byte where a big-integer based
	// encoder would drop it (leading byte of the P-384 x coordinate; first / last byte of the
	// ristretto255 encoding), and keys whose id ends in 00 / ff
	for _, sp := range []struct {
		t   int
		key int
	}{{1, px.FindOPRFKeyPubZero(oprf.SuiteP384, 1)}, {1, px.FindOPRFKeyPubZero(oprf.SuiteP384, -1)}, {5, px.FindOPRFKeyPubZero(oprf.SuiteRistretto255, 0)}, {5, px.FindOPRFKeyPubZero(oprf.SuiteRistretto255, -1)},
		{1, px.FindOPRFKey(oprf.SuiteP384, 0x00)}, {1, px.FindOPRFKey(oprf.SuiteP384, 0xff)}, {5, px.FindOPRFKey(oprf.SuiteRistretto255, 0x00)}, {5, px.FindOPRFKey(oprf.SuiteRistretto255, 0xff)}} {
		b := 0
		if sp.t == 5 {
			b = 2
		}
		idCases = append(idCases, idCase{T: sp.t, Key: sp.key, Entry: 0}, idCase{T: sp.t, Key: sp.key, Entry: 1, Batch: b}, idCase{T: sp.t, Key: sp.key, Entry: 2, Batch: b})
	}
	for k := range px.RSAKeys() {
		idCases = append(idCases, idCase{T: 2, Key: k, Entry: 0}, idCase{T: 2, Key: k, Entry: 1}, idCase{T: 2, Key: k, Entry: 2}, idCase{T: 3, Key: k, Entry: 0})
	}
	r.Par(len(idCases), func(i int) {
		c := idCases[i]
		v, class := checkIDSafe(c)
		if v != nil {
			r.Violation("keyid", c, v)
		}
		r.Case(c.label(), v == nil, class)
		if i%(len(idCases)/3+1) == 0 {
			r.Sample(c)
		}
	})

	// --- type-3 name keys
	var nkCases []nkCase
	nIdx := mc.Pick(r, 3, 8)
	nameLens := mc.Pick(r, []int{0, 14}, []int{0, 14, 32, 33})
	for rk := range px.RSAKeys() {
		for i := 0; i < nIdx; i++ {
			for _, nl := range nameLens {
				nkCases = append(nkCases, nkCase{Source: 0, Idx: i, RSA: rk, NameL: nl}, nkCase{Source: 1, Idx: i, RSA: rk, NameL: nl})
			}
		}
	}
	for _, id := range []uint8{0x00, 0x01, 0x7f, 0x80, 0xff} {
		for _, kem := range []int{0x20, 0x10} {
			for _, kdf := range []int{1, 2, 3} {
				for _, aead := range []int{1, 2, 3} {
					for i := 0; i < mc.Pick(r, 1, 3); i++ {
						nkCases = append(nkCases, nkCase{Source: 2, Idx: i, RSA: i % 4, ID: id, KEM: kem, KDF: kdf, AEAD: aead, NameL: 14})
					}
				}
			}
		}
	}
	r.Par(len(nkCases), func(i int) {
		c := nkCases[i]
		v, class := checkNKSafe(c)
		if v != nil {
			r.Violation("namekey", c, v)
		}
		r.Case(c.label(), v == nil, class)
		if i%(len(nkCases)/3+1) == 0 {
			r.Sample(c)
		}
	})

	r.SetRule("three products, every tuple distinct: (a) RSA public keys = modulus bit length x value pattern x exponent, each marshalled in both forms, decoded back, and compared byte for byte with hand-assembled DER; (b) token type x issuer key x entry point {issuer TokenKeyID, CreateTokenRequest, CreateTokenRequestWithBlind(s)} (x batch size for type 5); (c) name key source {issuer-drawn, seed-derived, decoded from hand-built bytes: key id x KEM x KDF x AEAD} x RSA key x origin length. Non-trivial = the case ran to the final comparison")
	r.Assume("RSA public keys are built directly as {N,E} with N odd and of exact bit length; the value dimension is four patterns per bit length, not all integers",
		"reference DER: own TLV encoder plus the literal 63-byte RSASSA-PSS AlgorithmIdentifier of RFC 9578 8.2.2 / RFC 4055; encoding/asn1 is not used by the reference",
		"reference key ids: SHA-256 over compressed k*G from crypto/elliptic (P-384, cross-checked with circl) or circl group arithmetic (ristretto255), and over the hand DER for RSA",
		"the legacy form is only required to round-trip and to name the rsaEncryption OID; its bytes are not pinned",
		"the type-3 inner request's one-byte token key id is not part of this property and is not examined",
		"name keys read through the verif hook EncapKey.VerifParts; KEM public keys serialised by go-hpke",
		"crypto/rand.Reader is replaced by a per-goroutine SHA-256 counter DRBG")
	r.Set("dimensions", map[string]any{"modulus_bit_lengths": fmt.Sprintf("%d..%d (every value) plus %v", lo, hi, named), "modulus_patterns": patternNames, "exponents": exps, "exponents_with_special_last_bytes": expsTail,
		"oprf_keys_per_suite": nOPRF, "rsa_keys": len(px.RSAKeys()), "name_key_cases": len(nkCases), "rsa_cases": len(rsaCases), "key_id_cases": len(idCases)})
	r.Finish()
}
