// C05: generic batch issuance keeps order and count and isolates failures.
//
// Bounded exhaustive enumeration of batch compositions: every sequence of length
// 1..n over {type 1, type 2} x {known key A, known key B, unknown truncated key id,
// malformed blinded element} for every issuer configuration, run through the real
// client -> bytes -> decoder -> EvaluateBatch -> bytes -> response decoder ->
// per-request finalization path and compared with a per-request reference model.
package main

import (
	"bytes"
	"encoding/hex"
	"encoding/json"
	"fmt"
	"math/big"

	"github.com/cloudflare/circl/oprf"
	"github.com/cloudflare/pat-go/tokens"
	"github.com/cloudflare/pat-go/tokens/batched"
	"github.com/cloudflare/pat-go/tokens/type1"
	"github.com/cloudflare/pat-go/tokens/type2"

	"verif/bx"
	"verif/mc"
	"verif/px"
)

// letters of the request alphabet
const (
	t1A       = iota // type 1, issuer key A
	t1B              // type 1, issuer key B
	t1Unknown        // type 1, truncated key id that no configured issuer has
	t1Bad            // type 1, key A, blinded element of the right length that is not a curve point
	t2A
	t2B
	t2Unknown
	t2Bad // type 2, key A, blinded message >= modulus
	t1C   // type 1, issuer key C: its truncated key id EQUALS that of the type-2 key A (legal: the types differ)
	nLetters
	// type-2 keys D and E share their truncated key id (N_D < N_E). Not part of the sequence alphabet;
	// used with the configurations that hold both issuers.
	t2D      = nLetters     // request for key D
	t2Esmall = nLetters + 1 // request for key E whose blinded message is below N_D: issuer D can sign it too
	t2Ebig   = nLetters + 2 // request for key E whose blinded message is not below N_D: only issuer E can
)

var letterName = []string{"t1/keyA", "t1/keyB", "t1/unknown-key-id", "t1/malformed-element", "t2/keyA", "t2/keyB", "t2/unknown-key-id", "t2/malformed-element", "t1/keyC(same truncated id as t2/keyA)",
	"t2/keyD", "t2/keyE(blinded message below N_D)", "t2/keyE(blinded message not below N_D)"}

// issuer configurations: which issuers are handed to NewBasicBatchedIssuer, in order
var configs = [][]string{
	{"1A", "2A"},             // both types
	{"1A"},                   // only type 1
	{"2A"},                   // only type 2
	{},                       // none
	{"1A", "1B", "2A", "2B"}, // two issuers per type
	{"1B", "1A", "2B", "2A"}, // the same in the other order
	{"2A", "1A"},
	{"1C", "2A"}, // a type-1 and a type-2 issuer whose truncated key ids coincide
	{"2A", "1C", "1A"},
	{"1C"},
}

// nBase hand-picked configurations come first; behind them init() appends every ordered
// arrangement of every subset of {1A,1B,1C,2A,2B} (the issuer list is variadic: its order and
// interleaving of types is the operator's choice) and the configurations with a rotating issuer.
var nBase, nColl, nArr int

func init() {
	nBase = len(configs)
	all := []string{"1A", "1B", "1C", "2A", "2B"}
	var rec func(cur []string, used int)
	rec = func(cur []string, used int) {
		configs = append(configs, append([]string{}, cur...))
		for i, n := range all {
			if used&(1<<i) == 0 {
				rec(append(cur, n), used|1<<i)
			}
		}
	}
	rec(nil, 0)
	nColl = len(configs)
	configs = append(configs, []string{"2D", "2E"}, []string{"2E", "2D"}, []string{"2E"}, []string{"2D"}, []string{"1A", "2D", "2A", "2E"}, []string{"2E", "1C", "2D"})
	nArr = len(configs)
	// "1R": one type-1 issuer OBJECT whose key is A during the previous batch and B from then on
	configs = append(configs, []string{"1R", "2A"}, []string{"2A", "1R"}, []string{"1R"}, []string{"1C", "1R", "2B"})
}

// rotIssuer is an issuer whose token key is rotated by its operator between two batches.
type rotIssuer struct {
	cur  *int
	a, b bx.Issuer1
}

func (x rotIssuer) pick() bx.Issuer1 {
	if *x.cur == 0 {
		return x.a
	}
	return x.b
}
func (x rotIssuer) Evaluate(req tokens.TokenRequest) ([]byte, error) { return x.pick().Evaluate(req) }
func (x rotIssuer) TokenKeyID() []byte                               { return x.pick().TokenKeyID() }
func (x rotIssuer) Type() uint16                                     { return 1 }

type Case struct {
	Config  int   `json:"config"`
	Letters []int `json:"letters"`
	Prev    []int `json:"previous_batch_on_the_same_issuer_object,omitempty"`
	Dup     bool  `json:"first_request_repeated_at_the_end,omitempty"` // the very same request (same object, same bytes) occurs twice in the batch
}

type worldT struct {
	w1 [3]*px.W1 // A, B, C (C collides with the type-2 key A on the truncated id)
	w2 [4]*px.W2 // A, B, and D, E whose truncated key ids coincide
}

var keyCIndex = -1 // index into the OPRF key alphabet, found once

var seedv int64

func buildWorld() *worldT {
	w := &worldT{}
	// choose OPRF keys whose truncated ids differ from each other and from the "unknown" id
	w.w1[0], w.w1[1] = px.NewW1(0), px.NewW1(1)
	w.w2[0], w.w2[1] = px.NewW2(0), px.NewW2(1)
	ck := px.CollidingRSAKeys()
	w.w2[2], w.w2[3] = px.NewW2Key(ck[0]), px.NewW2Key(ck[1])
	if keyCIndex < 0 {
		for i := 6; i < 6+4096; i++ {
			c := px.NewW1(i)
			if last(c.KeyID) == last(w.w2[0].KeyID) && last(c.KeyID) != last(w.w1[0].KeyID) && last(c.KeyID) != last(w.w1[1].KeyID) {
				keyCIndex = i
				break
			}
		}
		if keyCIndex < 0 {
			panic("no type-1 key with the wanted truncated id found")
		}
	}
	w.w1[2] = px.NewW1(keyCIndex)
	return w
}

func last(b []byte) byte { return b[len(b)-1] }

// unknownID returns a truncated id no issuer of that type has. Where possible it is
// the FIRST byte of issuer A's key id (requests carry the last byte), so that a lookup
// by the wrong end of the id is visible.
func (w *worldT) unknownID(typ int) byte {
	first := w.w1[0].KeyID[0]
	if typ == 2 {
		first = w.w2[0].KeyID[0]
	}
	if typ == 1 && first != last(w.w1[0].KeyID) && first != last(w.w1[1].KeyID) && first != last(w.w1[2].KeyID) {
		return first
	}
	if typ == 2 && first != last(w.w2[0].KeyID) && first != last(w.w2[1].KeyID) && first != last(w.w2[2].KeyID) {
		return first
	}
	for c := 0; c < 256; c++ {
		b := byte(c*37 + 11)
		if typ == 1 && b != last(w.w1[0].KeyID) && b != last(w.w1[1].KeyID) && b != last(w.w1[2].KeyID) {
			return b
		}
		if typ == 2 && b != last(w.w2[0].KeyID) && b != last(w.w2[1].KeyID) && b != last(w.w2[2].KeyID) {
			return b
		}
	}
	panic("no unknown id")
}

type slot struct {
	letter int
	req    tokens.TokenRequestWithDetails
	st1    *type1.BasicPrivateTokenRequestState
	st2    *type2.BasicPublicTokenRequestState
	key    int // 0 = A, 1 = B (type 2 also 2 = D, 3 = E)
	nonce  []byte
	chal   []byte
}

func (w *worldT) makeSlot(letter, pos int, lbl string) slot {
	s := slot{letter: letter}
	s.nonce = mc.Fill(seedv, fmt.Sprintf("nonce-%s-%d", lbl, pos), 32)
	s.chal = mc.Fill(seedv, fmt.Sprintf("chal-%s-%d", lbl, pos), 16+pos)
	switch letter {
	case t1A, t1B, t1Unknown, t1Bad, t1C:
		if letter == t1B {
			s.key = 1
		}
		if letter == t1C {
			s.key = 2
		}
		st, err := w.w1[s.key].Create(s.chal, s.nonce, nil)
		if err != nil {
			panic(err)
		}
		s.st1 = &st
		r := st.Request()
		if letter == t1Unknown {
			r.TokenKeyID = w.unknownID(1)
		}
		if letter == t1Bad {
			r.BlindedReq = append([]byte{0x02}, bytes.Repeat([]byte{0xff}, 48)...)
		}
		s.req = r
	default:
		if letter == t2B {
			s.key = 1
		}
		if letter == t2D {
			s.key = 2
		}
		if letter == t2Esmall || letter == t2Ebig {
			s.key = 3
		}
		st, err := w.w2[s.key].Create(s.chal, s.nonce, nil, nil)
		if err != nil {
			panic(err)
		}
		if letter == t2Esmall || letter == t2Ebig {
			// draw nonces until the blinded message lies on the wanted side of N_D
			nd := w.w2[2].Key.N
			for try := 0; ; try++ {
				below := new(big.Int).SetBytes(st.Request().BlindedReq).Cmp(nd) < 0
				if below == (letter == t2Esmall) {
					break
				}
				if try > 400 {
					panic("no blinded message on the wanted side of N_D")
				}
				s.nonce = mc.Fill(seedv, fmt.Sprintf("nonce-%s-%d-try%d", lbl, pos, try), 32)
				if st, err = w.w2[3].Create(s.chal, s.nonce, nil, nil); err != nil {
					panic(err)
				}
			}
		}
		s.st2 = &st
		r := st.Request()
		if letter == t2Unknown {
			r.TokenKeyID = w.unknownID(2)
		}
		if letter == t2Bad {
			r.BlindedReq = bytes.Repeat([]byte{0xff}, 256)
		}
		s.req = r
	}
	return s
}

func has(cfg []string, name string) bool {
	for _, c := range cfg {
		if c == name {
			return true
		}
	}
	return false
}

// expectPresent is the reference model: some configured issuer of the request's type
// and truncated key id evaluates the request successfully when asked alone.
func expectPresent(cfg []string, letter int) bool {
	switch letter {
	case t1A:
		return has(cfg, "1A") // a rotating issuer has left key A behind when the judged batch arrives
	case t1B:
		return has(cfg, "1B") || has(cfg, "1R")
	case t1C:
		return has(cfg, "1C")
	case t2A:
		return has(cfg, "2A")
	case t2B:
		return has(cfg, "2B")
	case t2D, t2Esmall:
		return has(cfg, "2D") || has(cfg, "2E") // both issuers carry the request's truncated id and both can sign it
	case t2Ebig:
		return has(cfg, "2E") // issuer D fails on it (message not below its modulus): the other issuer of that id must be asked
	}
	return false // unknown key id, malformed element
}

func run(c Case) (string, *mc.Viol) {
	lbl := fmt.Sprintf("c%d-%v-after-%v", c.Config, c.Letters, c.Prev)
	mc.Entropy("c05-" + lbl)
	w := buildWorld()
	cfg := configs[c.Config]
	var issuers []batched.Issuer
	rot := 0
	for _, name := range cfg {
		switch name {
		case "1R":
			issuers = append(issuers, rotIssuer{cur: &rot, a: bx.Issuer1{I: w.w1[0].Issuer}, b: bx.Issuer1{I: w.w1[1].Issuer}})
		case "1A":
			issuers = append(issuers, bx.Issuer1{I: w.w1[0].Issuer})
		case "1B":
			issuers = append(issuers, bx.Issuer1{I: w.w1[1].Issuer})
		case "1C":
			issuers = append(issuers, bx.Issuer1{I: w.w1[2].Issuer})
		case "2A":
			issuers = append(issuers, bx.Issuer2{I: w.w2[0].Issuer})
		case "2B":
			issuers = append(issuers, bx.Issuer2{I: w.w2[1].Issuer})
		case "2D":
			issuers = append(issuers, bx.Issuer2{I: w.w2[2].Issuer})
		case "2E":
			issuers = append(issuers, bx.Issuer2{I: w.w2[3].Issuer})
		}
	}
	bi := batched.NewBasicBatchedIssuer(issuers...)
	var prevResp, prevCopy []byte
	if len(c.Prev) > 0 {
		// the issuer object has served another batch before: nothing of it may show in this one
		var pl []tokens.TokenRequestWithDetails
		for i, l := range c.Prev {
			pl = append(pl, w.makeSlot(l, 100+i, lbl).req)
		}
		if pb, err := batched.NewBasicClient().CreateTokenRequest(pl); err == nil {
			pd := new(batched.BatchedTokenRequest)
			if pd.Unmarshal(append([]byte{}, pb.Marshal()...)) {
				prevResp, _ = bi.EvaluateBatch(pd)
				prevCopy = append([]byte{}, prevResp...)
			}
		}
	}
	rot = 1
	slots := make([]slot, len(c.Letters))
	var list []tokens.TokenRequestWithDetails
	for i, l := range c.Letters {
		slots[i] = w.makeSlot(l, i, lbl)
		list = append(list, slots[i].req)
	}
	v := func(site, what string) (string, *mc.Viol) {
		return site, &mc.Viol{Sig: site, What: fmt.Sprintf("config %v batch %s: %s", cfg, names(c.Letters), what)}
	}
	if c.Dup && len(slots) > 0 {
		slots = append(slots, slots[0])
		list = append(list, slots[0].req)
		c.Letters = append(append([]int{}, c.Letters...), c.Letters[0])
	}
	// ONE client object builds this batch and then another one before this one is put on the wire
	cl := batched.NewBasicClient()
	breq, err := cl.CreateTokenRequest(list)
	if err != nil {
		return v("client cannot build the batch", err.Error())
	}
	{
		var decoy []tokens.TokenRequestWithDetails
		for i := 0; i < len(list)+1; i++ {
			decoy = append(decoy, w.makeSlot(t2A, 200+i, lbl).req)
		}
		if _, err := cl.CreateTokenRequest(decoy); err != nil {
			return v("client cannot build a second batch", err.Error())
		}
	}
	wire := append([]byte{}, breq.Marshal()...)
	dec := new(batched.BatchedTokenRequest)
	if !dec.Unmarshal(wire) {
		return v("issuer-side decoder rejects an honest batch encoding", hex.EncodeToString(wire[:min(len(wire), 40)]))
	}
	resp, err := bi.EvaluateBatch(dec)
	if err != nil {
		return v("EvaluateBatch fails as a whole", err.Error())
	}
	if !bytes.Equal(prevResp, prevCopy) {
		return v("the response of an earlier batch changed when the next batch was evaluated", fmt.Sprintf("previous batch %s", names(c.Prev)))
	}
	// the caller is done with the earlier response and reuses its memory
	for i := range prevResp {
		prevResp[i] = 0xEE
	}
	entries, err := batched.UnmarshalBatchedTokenResponses(append([]byte{}, resp...))
	if err != nil {
		anyFail := false
		for _, l := range c.Letters {
			if !expectPresent(cfg, l) {
				anyFail = true
			}
		}
		site := "batch response does not decode"
		if anyFail {
			site = "batch response does not decode when a request of the batch fails"
		}
		return v(site, fmt.Sprintf("%v; response %s…", err, hex.EncodeToString(resp[:min(len(resp), 24)])))
	}
	if len(entries) != len(c.Letters) {
		return v("response list does not have one entry per request", fmt.Sprintf("%d entries for %d requests", len(entries), len(c.Letters)))
	}
	pattern := ""
	for i, s := range slots {
		want := expectPresent(cfg, s.letter)
		got := len(entries[i]) > 0
		if want {
			pattern += "P"
		} else {
			pattern += "a"
		}
		if got != want {
			if got {
				return v("entry present for a request no configured issuer can evaluate", fmt.Sprintf("position %d (%s): %d bytes", i, letterName[s.letter], len(entries[i])))
			}
			return v("entry absent for a request a configured issuer evaluates", fmt.Sprintf("position %d (%s)", i, letterName[s.letter]))
		}
		if !got {
			continue
		}
		// finalize under the request's own state and verify independently
		if s.st1 != nil {
			tok, err := s.st1.FinalizeToken(entries[i])
			if err != nil {
				return v("present type-1 entry does not finalize under its own request", fmt.Sprintf("position %d: %v", i, err))
			}
			tb := tok.Marshal()
			if err := px.CheckLayout(tb, 1, s.nonce, s.chal, w.w1[s.key].KeyID); err != nil {
				return v("token of a batch entry is not bound to its request", fmt.Sprintf("position %d: %v", i, err))
			}
			if err := px.VerifyOPRFToken(oprf.SuiteP384, w.w1[s.key].KeyBytes, tb); err != nil {
				return v("token of a batch entry does not verify", fmt.Sprintf("position %d: %v", i, err))
			}
		} else {
			// with two issuers of one truncated id the first configured one that can sign answers
			signer := s.key
			if s.key >= 2 {
				for _, name := range cfg {
					if name == "2D" && s.letter != t2Ebig {
						signer = 2
						break
					}
					if name == "2E" {
						signer = 3
						break
					}
				}
			}
			if signer != s.key {
				alone, err := w.w2[signer].Issuer.Evaluate(s.st2.Request())
				if err != nil || !bytes.Equal(alone, entries[i]) {
					return v("type-2 entry differs from the evaluation of the same request alone by the first configured issuer of its truncated key id", fmt.Sprintf("position %d", i))
				}
				continue // signed by the other key of that id: the protocol cannot tell them apart, the token is not judged
			}
			tok, err := s.st2.FinalizeToken(entries[i])
			if err != nil {
				return v("present type-2 entry does not finalize under its own request", fmt.Sprintf("position %d: %v", i, err))
			}
			tb := tok.Marshal()
			if err := px.CheckLayout(tb, 2, s.nonce, s.chal, w.w2[s.key].KeyID); err != nil {
				return v("token of a batch entry is not bound to its request", fmt.Sprintf("position %d: %v", i, err))
			}
			if err := px.VerifyRSAToken(&w.w2[s.key].Key.PublicKey, tb); err != nil {
				return v("token of a batch entry does not verify", fmt.Sprintf("position %d: %v", i, err))
			}
			// type 2 is deterministic: the entry must be exactly what the issuer returns for this request alone
			alone, err := w.w2[s.key].Issuer.Evaluate(s.st2.Request())
			if err != nil || !bytes.Equal(alone, entries[i]) {
				return v("type-2 entry differs from the evaluation of the same request alone", fmt.Sprintf("position %d", i))
			}
		}
	}
	return "ok:" + pattern, nil
}

func names(ls []int) string {
	if len(ls) > 12 {
		cnt := map[int]int{}
		for _, l := range ls {
			cnt[l]++
		}
		s := fmt.Sprintf("[%d requests:", len(ls))
		for l := 0; l < nLetters; l++ {
			if cnt[l] > 0 {
				s += fmt.Sprintf(" %dx %s", cnt[l], letterName[l])
			}
		}
		return s + fmt.Sprintf("; position %d is %s]", len(ls)/2, letterName[ls[len(ls)/2]])
	}
	s := "["
	for i, l := range ls {
		if i > 0 {
			s += " "
		}
		s += letterName[l]
	}
	return s + "]"
}

func main() {
	r := mc.Start("C05", "exploration")
	seedv = r.Seed
	mc.InstallDRBG(r.Seed)
	r.RegisterReplay("batch", func(pj json.RawMessage) *mc.Viol {
		var c Case
		json.Unmarshal(pj, &c)
		var v *mc.Viol
		if p := mc.CatchStack(func() { _, v = run(c) }); p != "" {
			return &mc.Viol{Sig: "batch issuance panics", What: p}
		}
		return v
	})
	if r.IsReplay() {
		r.DoReplay()
	}
	// sanity of the alphabet: truncated ids of A and B differ per type (colliding configurations are
	// excluded by design: there the protocol itself cannot tell which key the client meant)
	w := buildWorld()
	if last(w.w1[0].KeyID) == last(w.w1[1].KeyID) || last(w.w2[0].KeyID) == last(w.w2[1].KeyID) {
		r.Note("key alphabet has colliding truncated ids; configurations with two issuers per type are skipped")
		r.NotExhaustive("colliding truncated key ids in the key alphabet")
		configs = [][]string{configs[0], configs[1], configs[2], configs[3], configs[6], configs[7], configs[9]}
		nBase, nColl, nArr = len(configs), len(configs), len(configs)
	}
	n := mc.Pick(r, 3, 4)
	var cases []Case
	var build func(cur []int)
	build = func(cur []int) {
		if len(cur) > 0 {
			for ci := 0; ci < nBase; ci++ {
				cases = append(cases, Case{Config: ci, Letters: append([]int{}, cur...)})
			}
		}
		if len(cur) == n {
			return
		}
		for l := 0; l < nLetters; l++ {
			build(append(cur, l))
		}
	}
	build(nil)
	// two consecutive batches on ONE issuer object: every ordered pair of batches of length 1..2 over
	// a reduced alphabet
	{
		red := []int{t1A, t2A, t1Unknown, t2Bad, t1C}
		var small [][]int
		for _, a := range red {
			small = append(small, []int{a})
			for _, b := range red {
				small = append(small, []int{a, b})
			}
		}
		for _, cfg := range []int{0, 7} {
			for _, prev := range small {
				for _, cur := range small {
					cases = append(cases, Case{Config: cfg, Letters: cur, Prev: prev})
				}
			}
		}
	}
	// every arrangement of every issuer subset: one probe batch with a request for each key (and the
	// same reversed, and each request alone) must reach exactly the configured issuers
	// two type-2 issuers whose truncated key ids coincide: every sequence of length 1..2 (3 thorough) over
	// {request for D, request for E that D can sign too, request for E that only E can sign, unknown id, key A}
	for ci := nColl; ci < nArr; ci++ {
		al := []int{t2D, t2Esmall, t2Ebig, t2Unknown, t2A, t1A}
		var rec func(cur []int)
		rec = func(cur []int) {
			if len(cur) > 0 {
				cases = append(cases, Case{Config: ci, Letters: append([]int{}, cur...)})
			}
			if len(cur) == mc.Pick(r, 2, 3) {
				return
			}
			for _, l := range al {
				rec(append(cur, l))
			}
		}
		rec(nil)
	}
	for ci := nBase; ci < nColl; ci++ {
		probe := []int{t1A, t1B, t1C, t2A, t2B}
		cases = append(cases, Case{Config: ci, Letters: probe}, Case{Config: ci, Letters: []int{t2B, t2A, t1C, t1B, t1A}})
		if r.Thorough() {
			for _, l := range probe {
				cases = append(cases, Case{Config: ci, Letters: []int{l}})
			}
		}
	}
	// an issuer object whose key was rotated after an earlier batch: the batch issuer must select by
	// the key id the issuer reports NOW
	for ci := nArr; ci < len(configs); ci++ {
		for _, prev := range [][]int{{t1A}, {t1A, t2A}, {t1B}, {t1Unknown}} {
			for _, cur := range [][]int{{t1B}, {t1A}, {t1B, t1A}, {t1A, t2A, t1B}, {t1C, t1B}} {
				cases = append(cases, Case{Config: ci, Letters: cur, Prev: prev})
			}
		}
	}
	// large homogeneous batches: the encoded response list crosses the varint class boundaries
	// (16383/16384 bytes at 64 type-2 / 113 type-1 entries) and 2^16 (254 type-2 / 449 type-1)
	big := map[int][]int{t2A: mc.Pick(r, []int{63, 64, 254}, []int{63, 64, 65, 253, 254, 255, 300}), t1A: mc.Pick(r, []int{112, 113, 449}, []int{112, 113, 114, 448, 449, 450})}
	for _, letter := range []int{t2A, t1A} {
		for _, nb := range big[letter] {
			ls := make([]int, nb)
			for i := range ls {
				ls[i] = letter
			}
			ls[nb/2] = map[int]int{t2A: t2Unknown, t1A: t1Unknown}[letter] // one failing request in the middle
			cases = append(cases, Case{Config: 0, Letters: ls})
		}
	}
	// the very same request twice in one batch
	for _, ls := range [][]int{{t1A}, {t2A}, {t1A, t2A}, {t2A, t1Unknown, t1A}, {t1A, t1B, t2A, t2B}} {
		for _, cfg := range []int{0, 4} {
			cases = append(cases, Case{Config: cfg, Letters: ls, Dup: true})
		}
	}
	// response lists of EXACTLY a given byte length (present type-2 entry = 259 bytes, absent = 1 byte):
	// both sides of every varint class boundary of the list's length prefix
	for _, target := range mc.Pick(r, []int{63, 64, 65, 16383, 16384, 16385}, []int{62, 63, 64, 65, 16382, 16383, 16384, 16385, 65535, 65536, 65537}) {
		k := target / 259
		if k > 2 && target%259 < 3 {
			k-- // keep some absent entries in every batch
		}
		var ls []int
		for i := 0; i < k; i++ {
			ls = append(ls, t2A)
		}
		for i := 0; i < target-259*k; i++ {
			ls = append(ls, t2Unknown)
		}
		// interleave: absent entries first, in the middle and last
		if len(ls) > 4 && k > 0 {
			ls[0], ls[len(ls)-1] = ls[len(ls)-1], ls[0]
		}
		cases = append(cases, Case{Config: 0, Letters: ls})
	}
	r.SetRule(fmt.Sprintf("every sequence of length 1..%d over the 9-letter request alphabet {type1,type2} x {key A, key B, unknown truncated key id, malformed blinded element} plus a type-1 key C whose truncated id equals that of the type-2 key A x every one of %d hand-picked issuer configurations (both types, one type, none, two issuers per type in both orders); every ordered arrangement of every subset of five issuers x a probe batch with one request per key; issuer objects whose key was rotated between two batches; unsupported type = configuration lacking that type. Cases are distinct tuples; non-trivial = batch with at least one request", n, nBase))
	r.Assume("two type-2 issuers D, E sharing a truncated key id: an entry is present iff one of them can sign the request (D cannot when the blinded message is not below its modulus); it must equal the stand-alone evaluation by the first configured issuer that can; its token is judged only when that issuer holds the request's own key",
		"reference model: entry present iff a configured issuer of the request's type and truncated key id exists and the blinded element is well-formed",
		"issuers are adapted to the batch Issuer interface exactly as the repository's tests do")
	r.Set("dimensions", map[string]any{"max_batch": n, "letters": letterName, "configs": configs[:nBase], "arrangement_configs": nColl - nBase, "colliding_type2_issuer_configs": configs[nColl:nArr], "rotating_issuer_configs": configs[nArr:]})
	r.Par(len(cases), func(i int) {
		if r.OutOfTime() {
			r.NotExhaustive("time budget")
			return
		}
		c := cases[i]
		var out string
		var v *mc.Viol
		if p := mc.CatchStack(func() { out, v = run(c) }); p != "" {
			out, v = "panic", &mc.Viol{Sig: "batch issuance panics", What: fmt.Sprintf("%v %v: %s", configs[c.Config], names(c.Letters), p)}
		}
		if v != nil {
			r.Violation("batch", c, v)
		}
		if len(out) > 3 && out[:3] == "ok:" {
			// outcome class: number of present / absent entries
			p, a := 0, 0
			for _, ch := range out[3:] {
				if ch == 'P' {
					p++
				} else {
					a++
				}
			}
			out = fmt.Sprintf("ok:%d-present-%d-absent", p, a)
		}
		r.Case(fmt.Sprintf("%d-%v-%v-%v", c.Config, c.Letters, c.Prev, c.Dup), true, out)
		if i%1200 == 5 {
			r.Sample(map[string]any{"config": configs[c.Config], "batch": names(c.Letters), "outcome": out})
		}
	})
	r.Finish()
}
