// C11: issuance with fixed blinds is reproducible and the token ignores the blind.
//
// Part 1 (pairs): for types 1, 2 and 5, every (key, input[, salt]) x every ordered pair
// (i, j) of the blind alphabet runs, on ONE client value and with every message
// crossing the wire as bytes:
//
//	A1 = create(blind i); A2 = create(blind i)      -> request bytes identical
//	unrelated random request; token(A2)
//	B = create(blind j); token(A1)                  -> token(A1) == token(A2)
//	A3 = create(blind i)                            -> request(A3) == request(A1)
//	token(B)                                        -> == token(A1)
//	token(A3) under another issuer randomness       -> == token(A1)
//
// (states are deliberately finalized after later requests were created; the same
// argument slices are handed to every call of a case).
//
// Part 2 (vectors): every issuance vector shipped in the repository that carries
// blinds (the three Rust batched vectors, the Go batched vectors, the per-type files)
// is re-created from its blinds: request bytes == token_request, finalizing the
// vector's token_response == token(s), and finalizing a response of the real issuer
// == token(s), all byte-for-byte.
package main

import (
	"bytes"
	"crypto/elliptic"
	"crypto/rsa"
	"crypto/sha256"
	"encoding/binary"
	"encoding/hex"
	"encoding/json"
	"fmt"
	"math/big"
	"os"
	"path/filepath"
	"strings"

	"github.com/cloudflare/circl/group"
	"github.com/cloudflare/circl/oprf"
	"github.com/cloudflare/pat-go/tokens"
	"github.com/cloudflare/pat-go/tokens/batched"
	"github.com/cloudflare/pat-go/tokens/type1"
	"github.com/cloudflare/pat-go/tokens/type2"
	"github.com/cloudflare/pat-go/tokens/type5"
	"github.com/cloudflare/pat-go/util"

	"verif/mc"
	"verif/px"
)

var repoRoot = "/repo"

// ---- part 1: pairs of blinds -------------------------------------------------------------

type P struct {
	T     int   `json:"type"`
	Key   int   `json:"key"`
	In    int   `json:"input"`
	Salt  int   `json:"salt,omitempty"`  // type 2
	Batch int   `json:"batch,omitempty"` // type 5
	I     int   `json:"blind_i"`
	J     int   `json:"blind_j"`
	Seed  int64 `json:"seed"`
}

func (p P) label() string {
	return fmt.Sprintf("t%d-k%d-in%d-salt%d-n%d-bl%d-bl%d", p.T, p.Key, p.In, p.Salt, p.Batch, p.I, p.J)
}

// blind alphabets (index -> bytes) -------------------------------------------------------

var blindNames = []string{"1", "2", "N-1", "leading-zero-byte", "drbg-a", "drbg-b", "high-bit", "leading-zero-byte scalar in its minimal encoding (type 1: 47 bytes)"}

// degenerate blinds (kinds >= 100): what the call does with them is its own business (an error
// is fine), but it must do the same thing every time
var degenerateNames = map[int]string{100: "nil", 101: "empty", 102: "zero", 103: "the group order / modulus itself", 104: "one byte short", 105: "one byte long", 106: "twice the order / modulus"}

func p384Blind(seed int64, kind int, label string) []byte {
	n := elliptic.P384().Params().N
	out := make([]byte, 48)
	switch kind {
	case 100:
		return nil
	case 101:
		return []byte{}
	case 102:
		return out
	case 103:
		return n.FillBytes(out)
	case 104:
		return mc.Fill(seed, "c11-short-"+label, 47)
	case 105:
		return append([]byte{1}, mc.Fill(seed, "c11-long-"+label, 48)...)
	case 106:
		return new(big.Int).Lsh(n, 1).FillBytes(make([]byte, 49))
	case 0:
		out[47] = 1
	case 1:
		out[47] = 2
	case 2:
		new(big.Int).Sub(n, big.NewInt(1)).FillBytes(out)
	case 3: // most significant byte zero
		copy(out[1:], mc.Fill(seed, "c11-lz-"+label, 47))
		out[1] |= 0x80
	case 6: // 2^383
		out[0] = 0x80
	case 7: // the scalar of kind 3 in its minimal 47-byte encoding (leading zero byte left out)
		return p384Blind(seed, 3, label)[1:]
	default:
		v := new(big.Int).SetBytes(mc.Fill(seed, fmt.Sprintf("c11-sc%d-%s", kind, label), 56))
		v.Mod(v, new(big.Int).Sub(n, big.NewInt(1)))
		v.Add(v, big.NewInt(1))
		v.FillBytes(out)
	}
	return out
}

// ristBlind returns a canonical 32-byte little-endian scalar.
func ristBlind(seed int64, kind int, label string) []byte {
	g := group.Ristretto255
	var s group.Scalar
	if kind == 7 {
		kind = 3 // fixed-width little-endian encoding: no shorter spelling
	}
	switch kind {
	case 100:
		return nil
	case 101:
		return []byte{}
	case 102:
		return make([]byte, 32)
	case 103: // L, little endian
		l, _ := new(big.Int).SetString("7237005577332262213973186563042994240857116359379907606001950938285454250989", 10)
		be := l.FillBytes(make([]byte, 32))
		for i, j := 0, 31; i < j; i, j = i+1, j-1 {
			be[i], be[j] = be[j], be[i]
		}
		return be
	case 104:
		return mc.Fill(seed, "c11-rshort-"+label, 31)
	case 105:
		return append(mc.Fill(seed, "c11-rlong-"+label, 32), 0)
	case 106:
		return bytes.Repeat([]byte{0xff}, 32)
	case 0:
		s = g.NewScalar().SetUint64(1)
	case 1:
		s = g.NewScalar().SetUint64(2)
	case 2:
		s = g.NewScalar()
		s.Sub(s, g.NewScalar().SetUint64(1)) // L-1
	case 3: // most significant byte zero and least significant byte zero: < 2^248 < L, canonical as is
		out := make([]byte, 32)
		copy(out[1:31], mc.Fill(seed, "c11-rlz-"+label, 30))
		out[30] |= 0x80
		return out
	case 6: // 2^252
		out := make([]byte, 32)
		out[31] = 0x10
		return out
	default:
		s = g.HashToScalar(mc.Fill(seed, fmt.Sprintf("c11-rs%d-%s", kind, label), 32), []byte("verif c11"))
	}
	b, _ := s.MarshalBinary()
	return b
}

func rsaBlind(seed int64, kind int, n *big.Int, label string) []byte {
	switch kind {
	case 100:
		return nil
	case 101:
		return []byte{}
	case 102:
		return []byte{0}
	case 103:
		return n.Bytes()
	case 104:
		return make([]byte, 255)
	case 105:
		return append([]byte{0}, n.Bytes()...)
	case 106:
		return new(big.Int).Lsh(n, 1).Bytes()
	case 0:
		return []byte{1}
	case 1:
		return []byte{2}
	case 2:
		return []byte{3}
	case 3:
		return []byte{1, 0, 1}
	case 6: // the value of kind 4, spelled with a leading zero byte in front of 256 bytes (257 bytes)
		v := new(big.Int).SetBytes(mc.Fill(seed, fmt.Sprintf("c11-rb%d-%s", 4, label), 300))
		v.Mod(v, n)
		return append([]byte{0}, v.FillBytes(make([]byte, 256))...)
	case 7:
		return new(big.Int).Sub(n, big.NewInt(1)).Bytes()
	case 8: // 2 spelled in 256 bytes
		return big.NewInt(2).FillBytes(make([]byte, 256))
	default:
		v := new(big.Int).SetBytes(mc.Fill(seed, fmt.Sprintf("c11-rb%d-%s", kind, label), 300))
		v.Mod(v, n)
		return v.Bytes()
	}
}

var rsaBlindNames = []string{"1", "2", "3", "65537", "drbg-a mod N", "drbg-b mod N", "drbg-a mod N with a leading zero byte (257 bytes)", "N-1", "2 in 256 bytes"}

// flow abstracts one (type, key, input) over the blind index.
type made struct {
	req      []byte
	finalize func(resp []byte) ([]byte, error)
}

type flow struct {
	create    func(blind int) (made, error)
	unrelated func() error
	evaluate  func(req []byte) ([]byte, error)
}

func inputOf(p P) (chal, nonce []byte) {
	switch p.In {
	case 0:
		return mc.Fill(p.Seed, fmt.Sprintf("c11-chal-%d-%d", p.T, p.Key), 32), mc.Fill(p.Seed, fmt.Sprintf("c11-nonce-%d-%d", p.T, p.Key), 32)
	case 1:
		return mc.Fill(p.Seed, fmt.Sprintf("c11-chal1-%d-%d", p.T, p.Key), 65), bytes.Repeat([]byte{0xff}, 32)
	}
	return []byte{}, make([]byte, 32)
}

func catTokens(ts []tokens.Token) []byte {
	var out []byte
	for _, t := range ts {
		out = append(out, t.Marshal()...)
	}
	return out
}

// scratch / scribble model a caller that keeps challenge, nonce and key id in buffers it
// reuses as soon as the call has returned.
func scratch(b []byte) []byte { return append(make([]byte, 0, len(b)+8), b...) }

func scribble(bufs ...[]byte) {
	for _, b := range bufs {
		b = b[:cap(b)]
		for i := range b {
			b[i] = 0xEE
		}
	}
}

func wipeTokens(ts []tokens.Token) {
	for _, t := range ts {
		for _, b := range [][]byte{t.Nonce, t.Context, t.KeyID, t.Authenticator} {
			for i := range b {
				b[i] = 0xDD
			}
		}
	}
}

func buildFlow(p P) flow {
	chal, nonce := inputOf(p)
	oc, on := mc.Fill(p.Seed, "c11-unrelated-chal", 40), mc.Fill(p.Seed, "c11-unrelated-nonce", 32)
	if len(chal) > 0 {
		oc = oc[:0]
		oc = append(oc, mc.Fill(p.Seed, "c11-unrelated-chal-same-length", len(chal))...) // same length as the judged challenge, other bytes
	}
	// the caller keeps ONE challenge buffer and refills it for every request (the unrelated request
	// in between carries another challenge): what was in it for an earlier call must not matter
	chalBuf := make([]byte, 0, len(chal)+len(oc)+8)
	inBuf := func(b []byte) []byte {
		chalBuf = chalBuf[:len(b)]
		copy(chalBuf, b)
		return chalBuf
	}
	switch p.T {
	case 1:
		w := px.NewW1(p.Key)
		c := type1.NewBasicPrivateClient()
		bl := map[int][]byte{} // one slice per blind index, handed to every call of the case
		for _, b := range []int{p.I, p.J} {
			bl[b] = p384Blind(p.Seed, b, fmt.Sprintf("k%d-in%d", p.Key, p.In))
		}
		return flow{
			create: func(b int) (made, error) {
				// challenge and nonce live in caller buffers that are reused right after the call
				ch, no, kid := inBuf(chal), scratch(nonce), scratch(w.KeyID)
				st, err := c.CreateTokenRequestWithBlind(ch, no, kid, w.ClientPub(), bl[b])
				scribble(ch, no, kid)
				if err != nil {
					return made{}, err
				}
				return made{req: append([]byte{}, st.Request().Marshal()...), finalize: func(resp []byte) ([]byte, error) {
					t, err := st.FinalizeToken(resp)
					if err != nil {
						return nil, err
					}
					out := t.Marshal()
					// "on every run": the caller overwrites the token it was given and finalizes the same
					// response again; the second token must be byte-identical to the first
					wipeTokens([]tokens.Token{t})
					t2, err := st.FinalizeToken(resp)
					if err != nil || !bytes.Equal(t2.Marshal(), out) {
						return nil, fmt.Errorf("a second finalization (after the caller overwrote the first token) does not reproduce the token: %v", err)
					}
					return out, nil
				}}, nil
			},
			unrelated: func() error {
				_, err := c.CreateTokenRequest(inBuf(oc), on, w.KeyID, w.ClientPub())
				return err
			},
			evaluate: func(req []byte) ([]byte, error) { return wireErr(w.EvaluateWire(req)) },
		}
	case 2:
		w := px.NewW2(p.Key)
		c := type2.NewBasicPublicClient()
		salts := [][]byte{mc.Fill(p.Seed, "c11-salt-0", 48), mc.Fill(p.Seed, "c11-salt-1", 48), nil, {}, mc.Fill(p.Seed, "c11-salt-short", 47)} // 2..4: degenerate salts (consistency only)
		rb := map[int][]byte{}
		for _, b := range []int{p.I, p.J} {
			rb[b] = rsaBlind(p.Seed, b, w.Key.N, fmt.Sprintf("k%d", p.Key))
		}
		mk := func(b, salt int) (made, error) {
			ch, no, kid := inBuf(chal), scratch(nonce), scratch(w.KeyID)
			st, err := c.CreateTokenRequestWithBlind(ch, no, kid, w.ClientPub(), rb[b], salts[salt])
			scribble(ch, no, kid)
			if err != nil {
				return made{}, err
			}
			return made{req: append([]byte{}, st.Request().Marshal()...), finalize: func(resp []byte) ([]byte, error) {
				t, err := st.FinalizeToken(resp)
				if err != nil {
					return nil, err
				}
				out := t.Marshal()
				wipeTokens([]tokens.Token{t})
				t2, err := st.FinalizeToken(resp)
				if err != nil || !bytes.Equal(t2.Marshal(), out) {
					return nil, fmt.Errorf("a second finalization (after the caller overwrote the first token) does not reproduce the token: %v", err)
				}
				return out, nil
			}}, nil
		}
		ev := func(req []byte) ([]byte, error) { return wireErr(w.EvaluateWire(req)) }
		return flow{
			create: func(b int) (made, error) { return mk(b, p.Salt) },
			unrelated: func() error {
				_, err := c.CreateTokenRequest(inBuf(oc), on, w.KeyID, w.ClientPub())
				return err
			},
			evaluate: ev,
		}
	default:
		w := px.NewW5(p.Key)
		c := type5.NewBatchedPrivateClient()
		nonces := make([][]byte, p.Batch)
		for i := range nonces {
			nonces[i] = mc.Fill(p.Seed, fmt.Sprintf("c11-n5-%d-%d-%d", p.Key, p.In, i), 32)
		}
		if p.In == 1 && p.Batch > 1 {
			nonces[1] = append([]byte{}, nonces[0]...) // the same nonce twice in one batch
		}
		// blind vector b: position m carries scalar kind (b+m) mod alphabet size
		bv := map[int][][]byte{}
		for _, b := range []int{p.I, p.J} {
			v := make([][]byte, p.Batch)
			for m := range v {
				v[m] = ristBlind(p.Seed, (b+m)%len(blindNames), fmt.Sprintf("k%d-in%d-pos%d", p.Key, p.In, m))
			}
			if b >= 100 && len(v) > 0 {
				v[len(v)-1] = ristBlind(p.Seed, b, "degenerate")
			}
			if b == 200 && len(v) > 1 {
				// legal: the same blind at the first and the last position of the batch
				v[len(v)-1] = append([]byte{}, v[0]...)
			}
			switch b {
			case 110: // no blinds at all
				v = nil
			case 111: // one blind too few
				v = v[:len(v)-1]
			case 112: // one blind too many
				v = append(v, ristBlind(p.Seed, 4, "surplus"))
			}
			bv[b] = v
		}
		return flow{
			create: func(b int) (made, error) {
				ch, kid := inBuf(chal), scratch(w.KeyID)
				ns := make([][]byte, len(nonces))
				for i := range nonces {
					ns[i] = scratch(nonces[i])
				}
				st, err := c.CreateTokenRequestWithBlinds(ch, ns, kid, w.ClientPub(), bv[b])
				scribble(append([][]byte{ch, kid}, ns...)...)
				if err != nil {
					return made{}, err
				}
				return made{req: append([]byte{}, st.Request().Marshal()...), finalize: func(resp []byte) ([]byte, error) {
					ts, err := st.FinalizeTokens(resp)
					if err != nil {
						return nil, err
					}
					if len(ts) != p.Batch {
						return nil, fmt.Errorf("%d tokens for %d nonces", len(ts), p.Batch)
					}
					out := catTokens(ts)
					wipeTokens(ts)
					ts2, err := st.FinalizeTokens(resp)
					if err != nil || !bytes.Equal(catTokens(ts2), out) {
						return nil, fmt.Errorf("a second finalization (after the caller overwrote the first tokens) does not reproduce the tokens: %v", err)
					}
					return out, nil
				}}, nil
			},
			unrelated: func() error {
				_, err := c.CreateTokenRequest(inBuf(oc), [][]byte{on}, w.KeyID, w.ClientPub())
				return err
			},
			evaluate: func(req []byte) ([]byte, error) { return wireErr(w.EvaluateWire(req)) },
		}
	}
}

func wireErr(b []byte, se *px.StageErr) ([]byte, error) {
	if se != nil {
		return nil, se
	}
	return b, nil
}

func diffAt(got, want []byte) string {
	n := len(got)
	if len(want) < n {
		n = len(want)
	}
	at := -1
	for i := 0; i < n; i++ {
		if got[i] != want[i] {
			at = i
			break
		}
	}
	if at < 0 {
		if len(got) == len(want) {
			return "identical"
		}
		return fmt.Sprintf("lengths differ (got %d, want %d bytes), common prefix identical", len(got), len(want))
	}
	return fmt.Sprintf("got %d bytes, want %d bytes, first difference at offset %d (got %02x, want %02x)", len(got), len(want), at, got[at], want[at])
}

func hx(b []byte, n int) string {
	s := hex.EncodeToString(b)
	if len(s) > 2*n {
		return s[:2*n] + "…"
	}
	return s
}

func trunc(s string, n int) string {
	if len(s) > n {
		return s[:n]
	}
	return s
}

func runPair(p P) (outcome string, v *mc.Viol) {
	mc.Entropy(fmt.Sprintf("c11-%d-%s", p.Seed, p.label()))
	f := buildFlow(p)
	fail := func(step string, err error) (string, *mc.Viol) {
		return "step-fails:" + step, &mc.Viol{Sig: fmt.Sprintf("type%d fixed-blind issuance fails at %s: %s", p.T, step, trunc(err.Error(), 50)),
			What: fmt.Sprintf("case %s: %s: %v", p.label(), step, err)}
	}
	differ := func(what string, got, want []byte) (string, *mc.Viol) {
		return "DIFFERS:" + what, &mc.Viol{Sig: fmt.Sprintf("type%d %s", p.T, what),
			What: fmt.Sprintf("case %s: %s: %s; first %s second %s", p.label(), what, diffAt(got, want), hx(want, 24), hx(got, 24))}
	}
	issue := func(step string, m made) ([]byte, string, *mc.Viol) {
		resp, err := f.evaluate(m.req)
		if err != nil {
			o, v := fail("issuer evaluate ("+step+")", err)
			return nil, o, v
		}
		tok, err := m.finalize(append([]byte{}, resp...))
		if err != nil {
			o, v := fail("finalize ("+step+")", err)
			return nil, o, v
		}
		return tok, "", nil
	}
	// the client has just made an unrelated request (another challenge of the same length, held in
	// the same caller buffer)
	if err := f.unrelated(); err != nil {
		return fail("unrelated random request on the same client", err)
	}
	a1, err := f.create(p.I)
	if err != nil {
		return fail("create(blind i) #1", err)
	}
	a2, err := f.create(p.I)
	if err != nil {
		return fail("create(blind i) #2", err)
	}
	if !bytes.Equal(a1.req, a2.req) {
		return differ("request bytes differ between two identical WithBlind calls", a2.req, a1.req)
	}
	if err := f.unrelated(); err != nil {
		return fail("unrelated random request on the same client", err)
	}
	tokA2, o, v := issue("second state of blind i, after an unrelated request was created", a2)
	if v != nil {
		return o, v
	}
	b, err := f.create(p.J)
	if err != nil {
		return fail("create(blind j)", err)
	}
	// first state of blind i, finalized after a request with blind j was created; the
	// issuer's randomness has moved on, so this is a second run with the same arguments
	tokA1, o, v := issue("first state of blind i, after a request with blind j was created", a1)
	if v != nil {
		return o, v
	}
	if !bytes.Equal(tokA1, tokA2) {
		return differ("token bytes differ between two issuances with the same arguments", tokA1, tokA2)
	}
	{
		// every token carries SHA-256 of the challenge it was requested for (whatever the client did before)
		chalNow, _ := inputOf(p)
		want := sha256.Sum256(chalNow)
		tl := map[int]int{1: 98 + 48, 2: 98 + 256, 5: 98 + 64}[p.T]
		for off := 0; off+tl <= len(tokA1); off += tl {
			if !bytes.Equal(tokA1[off+34:off+66], want[:]) {
				return differ("the token context is not SHA-256 of the challenge of this request", tokA1[off+34:off+66], want[:])
			}
		}
	}
	a3, err := f.create(p.I)
	if err != nil {
		return fail("create(blind i) #3", err)
	}
	if !bytes.Equal(a1.req, a3.req) {
		return differ("request bytes differ after unrelated calls on the same client", a3.req, a1.req)
	}
	tokB, o, v := issue("state of blind j, after blind i was requested again", b)
	if v != nil {
		return o, v
	}
	if !bytes.Equal(tokA1, tokB) {
		return differ("token bytes depend on the blind", tokB, tokA1)
	}
	mc.Entropy(fmt.Sprintf("c11-%d-%s-second-run", p.Seed, p.label()))
	tokA3, o, v := issue("third state of blind i, other issuer randomness stream", a3)
	if v != nil {
		return o, v
	}
	if !bytes.Equal(tokA1, tokA3) {
		return differ("token bytes differ between two issuances with the same arguments", tokA3, tokA1)
	}
	same := "distinct"
	if bytes.Equal(a1.req, b.req) {
		same = "equal"
	}
	if p.T == 1 && (p.I == 3 && p.J == 7 || p.I == 7 && p.J == 3) && same != "equal" {
		return differ("request bytes depend on how the blind is spelled (same scalar with and without its leading zero byte)", b.req, a1.req)
	}
	if p.T == 2 && p.I != p.J {
		n := px.RSAKeys()[p.Key].N
		lbl := fmt.Sprintf("k%d", p.Key)
		if new(big.Int).SetBytes(rsaBlind(p.Seed, p.I, n, lbl)).Cmp(new(big.Int).SetBytes(rsaBlind(p.Seed, p.J, n, lbl))) == 0 && same != "equal" {
			return differ("request bytes depend on how the blind is spelled (same integer, leading zero bytes)", b.req, a1.req)
		}
	}
	if p.I == p.J {
		return "same blind twice: requests " + same + ", tokens identical", nil
	}
	return "two blinds: requests " + same + ", tokens identical", nil
}

// runDegenerate: the same degenerate blind three times (an unrelated random request on the same
// client in between): error or request, the outcome must be the same each time.
func runDegenerate(p P) (string, *mc.Viol) {
	mc.Entropy(fmt.Sprintf("c11-%d-%s", p.Seed, p.label()))
	f := buildFlow(p)
	outcome := func() string {
		var m made
		var err error
		if pn := mc.Catch(func() { m, err = f.create(p.I) }); pn != "" {
			return "panic: " + trunc(pn, 80)
		}
		if err != nil {
			return "error: " + err.Error()
		}
		return "request " + hex.EncodeToString(m.req)
	}
	o1 := outcome()
	o2 := outcome()
	_ = f.unrelated()
	o3 := outcome()
	name := degenerateNames[p.I]
	if p.T == 2 && p.Salt >= 2 {
		name = map[int]string{2: "nil salt", 3: "empty salt", 4: "47-byte salt"}[p.Salt]
	}
	if name == "" {
		name = map[int]string{110: "no blinds", 111: "one blind too few", 112: "one blind too many"}[p.I]
	}
	if o1 != o2 || o1 != o3 {
		return "degenerate-not-reproducible", &mc.Viol{Sig: fmt.Sprintf("type%d request creation with a caller-supplied degenerate blind or salt (%s) is not reproducible", p.T, name),
			What: fmt.Sprintf("%s: first %s, second %s, third %s", p.label(), trunc(o1, 90), trunc(o2, 90), trunc(o3, 90))}
	}
	return "degenerate blind: same outcome every time (" + strings.SplitN(o1, " ", 2)[0] + ")", nil
}

func runPairSafe(p P) (out string, v *mc.Viol) {
	if p.I >= 100 && p.I < 200 || p.T == 2 && p.Salt >= 2 {
		if pn := mc.CatchStack(func() { out, v = runDegenerate(p) }); pn != "" {
			return "panic", &mc.Viol{Sig: fmt.Sprintf("type%d fixed-blind issuance panics: %s", p.T, trunc(pn, 50)), What: p.label() + ": " + pn}
		}
		return
	}
	if pn := mc.CatchStack(func() { out, v = runPair(p) }); pn != "" {
		return "panic", &mc.Viol{Sig: fmt.Sprintf("type%d fixed-blind issuance panics: %s", p.T, trunc(pn, 50)), What: p.label() + ": " + pn}
	}
	return out, v
}

// ---- part 2: shipped vectors -------------------------------------------------------------

type VP struct {
	File  string `json:"file"` // relative to the repository root
	Index int    `json:"index"`
}

type rawIssuance struct {
	Type      string   `json:"type"`
	SkS       string   `json:"skS"`
	PkS       string   `json:"pkS"`
	Challenge string   `json:"token_challenge"`
	Nonce     *string  `json:"nonce"`
	Nonces    []string `json:"nonces"`
	Blind     *string  `json:"blind"`
	Blinds    []string `json:"blinds"`
	Salt      *string  `json:"salt"`
	Token     *string  `json:"token"`
	Tokens    []string `json:"tokens"`
	// per-type files carry these on the issuance itself
	TokenRequest  string `json:"token_request"`
	TokenResponse string `json:"token_response"`
}

type rawBatched struct {
	Issuance      []rawIssuance `json:"issuance"`
	TokenRequest  string        `json:"token_request"`
	TokenResponse string        `json:"token_response"`
}

func unh(s string) []byte {
	b, err := hex.DecodeString(s)
	if err != nil {
		panic(fmt.Sprintf("vector hex: %v", err))
	}
	return b
}

func unhp(s *string) []byte {
	if s == nil {
		return nil
	}
	return unh(*s)
}

// vstate is one re-created inner request: two independent states from the same arguments.
type vstate struct {
	typ      uint16
	req      tokens.TokenRequestWithDetails
	reqBytes []byte
	fin      func(resp []byte) ([][]byte, error) // finalize with the first state
	own      func() ([][]byte, error)            // evaluate with the real issuer, finalize with the second state
	want     [][]byte
}

type vfail struct{ step, what string }

func (e *vfail) Error() string { return e.step + ": " + e.what }

func recreate(e rawIssuance, typ uint16) (vs *vstate, err error) {
	chal, skS, pkS := unh(e.Challenge), unh(e.SkS), unh(e.PkS)
	keyID := sha256.Sum256(pkS)
	one := func(t tokens.Token, err error) ([][]byte, error) {
		if err != nil {
			return nil, err
		}
		return [][]byte{t.Marshal()}, nil
	}
	switch typ {
	case 1:
		if e.Nonce == nil || e.Blind == nil || e.Token == nil {
			return nil, &vfail{"read-vector", "type-1 entry without nonce/blind/token"}
		}
		sk := new(oprf.PrivateKey)
		if err := sk.UnmarshalBinary(oprf.SuiteP384, skS); err != nil {
			return nil, &vfail{"decode-skS", err.Error()}
		}
		mkpk := func() (*oprf.PublicKey, error) {
			pk := new(oprf.PublicKey)
			return pk, pk.UnmarshalBinary(oprf.SuiteP384, pkS)
		}
		pk1, err := mkpk()
		if err != nil {
			return nil, &vfail{"decode-pkS", err.Error()}
		}
		pk2, _ := mkpk()
		c := type1.NewBasicPrivateClient()
		s1, err := c.CreateTokenRequestWithBlind(chal, unhp(e.Nonce), keyID[:], pk1, unhp(e.Blind))
		if err != nil {
			return nil, &vfail{"create-request", err.Error()}
		}
		s2, err := c.CreateTokenRequestWithBlind(chal, unhp(e.Nonce), keyID[:], pk2, unhp(e.Blind))
		if err != nil {
			return nil, &vfail{"create-request", err.Error()}
		}
		return &vstate{typ: 1, req: s1.Request(), reqBytes: append([]byte{}, s1.Request().Marshal()...), want: [][]byte{unhp(e.Token)},
			fin: func(resp []byte) ([][]byte, error) { return one(s1.FinalizeToken(resp)) },
			own: func() ([][]byte, error) {
				dec := new(type1.BasicPrivateTokenRequest)
				if !dec.Unmarshal(s2.Request().Marshal()) {
					return nil, fmt.Errorf("issuer cannot decode the request")
				}
				resp, err := type1.NewBasicPrivateIssuer(sk).Evaluate(dec)
				if err != nil {
					return nil, err
				}
				return one(s2.FinalizeToken(resp))
			}}, nil
	case 2:
		if e.Nonce == nil || e.Blind == nil || e.Salt == nil || e.Token == nil {
			return nil, &vfail{"read-vector", "type-2 entry without nonce/blind/salt/token"}
		}
		var sk *rsa.PrivateKey
		if pn := mc.Catch(func() { sk = util.MustUnmarshalPrivateKey(skS) }); pn != "" {
			return nil, &vfail{"decode-skS", pn}
		}
		pk, err := util.UnmarshalTokenKey(pkS)
		if err != nil {
			return nil, &vfail{"decode-pkS", err.Error()}
		}
		c := type2.NewBasicPublicClient()
		s1, err := c.CreateTokenRequestWithBlind(chal, unhp(e.Nonce), keyID[:], pk, unhp(e.Blind), unhp(e.Salt))
		if err != nil {
			return nil, &vfail{"create-request", err.Error()}
		}
		s2, err := c.CreateTokenRequestWithBlind(chal, unhp(e.Nonce), keyID[:], pk, unhp(e.Blind), unhp(e.Salt))
		if err != nil {
			return nil, &vfail{"create-request", err.Error()}
		}
		return &vstate{typ: 2, req: s1.Request(), reqBytes: append([]byte{}, s1.Request().Marshal()...), want: [][]byte{unhp(e.Token)},
			fin: func(resp []byte) ([][]byte, error) { return one(s1.FinalizeToken(resp)) },
			own: func() ([][]byte, error) {
				dec := new(type2.BasicPublicTokenRequest)
				if !dec.Unmarshal(s2.Request().Marshal()) {
					return nil, fmt.Errorf("issuer cannot decode the request")
				}
				resp, err := type2.NewBasicPublicIssuer(sk).Evaluate(dec)
				if err != nil {
					return nil, err
				}
				return one(s2.FinalizeToken(resp))
			}}, nil
	case 5:
		if len(e.Nonces) == 0 || len(e.Blinds) != len(e.Nonces) || len(e.Tokens) != len(e.Nonces) {
			return nil, &vfail{"read-vector", "type-5 entry without matching nonces/blinds/tokens"}
		}
		sk := new(oprf.PrivateKey)
		if err := sk.UnmarshalBinary(oprf.SuiteRistretto255, skS); err != nil {
			return nil, &vfail{"decode-skS", err.Error()}
		}
		pk1, pk2 := new(oprf.PublicKey), new(oprf.PublicKey)
		if err := pk1.UnmarshalBinary(oprf.SuiteRistretto255, pkS); err != nil {
			return nil, &vfail{"decode-pkS", err.Error()}
		}
		_ = pk2.UnmarshalBinary(oprf.SuiteRistretto255, pkS)
		var nonces, blinds, want [][]byte
		for i := range e.Nonces {
			nonces, blinds, want = append(nonces, unh(e.Nonces[i])), append(blinds, unh(e.Blinds[i])), append(want, unh(e.Tokens[i]))
		}
		c := type5.NewBatchedPrivateClient()
		s1, err := c.CreateTokenRequestWithBlinds(chal, nonces, keyID[:], pk1, blinds)
		if err != nil {
			return nil, &vfail{"create-request", err.Error()}
		}
		s2, err := c.CreateTokenRequestWithBlinds(chal, nonces, keyID[:], pk2, blinds)
		if err != nil {
			return nil, &vfail{"create-request", err.Error()}
		}
		many := func(ts []tokens.Token, err error) ([][]byte, error) {
			if err != nil {
				return nil, err
			}
			var out [][]byte
			for _, t := range ts {
				out = append(out, t.Marshal())
			}
			return out, nil
		}
		return &vstate{typ: 5, reqBytes: append([]byte{}, s1.Request().Marshal()...), want: want,
			fin: func(resp []byte) ([][]byte, error) { return many(s1.FinalizeTokens(resp)) },
			own: func() ([][]byte, error) {
				dec := new(type5.BatchedPrivateTokenRequest)
				if !dec.Unmarshal(s2.Request().Marshal()) {
					return nil, fmt.Errorf("issuer cannot decode the request")
				}
				resp, err := type5.NewBatchedPrivateIssuer(sk).Evaluate(dec)
				if err != nil {
					return nil, err
				}
				return many(s2.FinalizeTokens(resp))
			}}, nil
	}
	return nil, &vfail{"read-vector", fmt.Sprintf("token type %d not handled", typ)}
}

func cmpTokens(step string, got, want [][]byte) *vfail {
	if len(got) != len(want) {
		return &vfail{step, fmt.Sprintf("%d tokens, vector has %d", len(got), len(want))}
	}
	for i := range got {
		if !bytes.Equal(got[i], want[i]) {
			return &vfail{step, fmt.Sprintf("token %d differs from the vector: %s; got %s want %s", i, diffAt(got[i], want[i]), hx(got[i], 160), hx(want[i], 160))}
		}
	}
	return nil
}

func typeOfFile(file string) uint16 {
	switch filepath.Base(filepath.Dir(file)) {
	case "type1":
		return 1
	case "type2":
		return 2
	case "type5":
		return 5
	}
	return 0 // batched
}

// runVector re-creates one vector; it returns the outcome and the failing step.
func runVector(vp VP) (string, *vfail) {
	mc.Entropy("c11-vector-" + vp.File + fmt.Sprint(vp.Index))
	raw, err := os.ReadFile(filepath.Join(repoRoot, vp.File))
	if err != nil {
		return "", &vfail{"harness:read-file", err.Error()}
	}
	ft := typeOfFile(vp.File)
	if ft != 0 {
		var all []rawIssuance
		if err := json.Unmarshal(raw, &all); err != nil || vp.Index >= len(all) {
			return "", &vfail{"harness:parse-file", fmt.Sprint(err)}
		}
		e := all[vp.Index]
		vs, err := recreate(e, ft)
		if err != nil {
			return "", err.(*vfail)
		}
		if want := unh(e.TokenRequest); !bytes.Equal(vs.reqBytes, want) {
			return "", &vfail{"token_request", fmt.Sprintf("re-created request differs from the vector: %s; got %s want %s", diffAt(vs.reqBytes, want), hx(vs.reqBytes, 120), hx(want, 120))}
		}
		got, ferr := vs.fin(unh(e.TokenResponse))
		if ferr != nil {
			return "", &vfail{"finalize-vector-response", ferr.Error()}
		}
		if f := cmpTokens("token-from-vector-response", got, vs.want); f != nil {
			return "", f
		}
		got, ferr = vs.own()
		if ferr != nil {
			return "", &vfail{"own-issuance", ferr.Error()}
		}
		if f := cmpTokens("token-from-own-issuance", got, vs.want); f != nil {
			return "", f
		}
		return fmt.Sprintf("reproduced: type-%d request, %d token(s) from the vector's response and from own issuance", ft, len(vs.want)), nil
	}
	var all []rawBatched
	if err := json.Unmarshal(raw, &all); err != nil || vp.Index >= len(all) {
		return "", &vfail{"harness:parse-file", fmt.Sprint(err)}
	}
	bv := all[vp.Index]
	var states []*vstate
	var reqs []tokens.TokenRequestWithDetails
	var innerCat []byte
	shape := ""
	for i, e := range bv.Issuance {
		tb := unh(e.Type)
		if len(tb) != 2 {
			return "", &vfail{"read-vector", "type field is not 2 bytes"}
		}
		typ := binary.BigEndian.Uint16(tb)
		if typ != 1 && typ != 2 {
			return "", &vfail{"read-vector", fmt.Sprintf("batched entry %d has type %d", i, typ)}
		}
		vs, err := recreate(e, typ)
		if err != nil {
			f := err.(*vfail)
			return "", &vfail{f.step, fmt.Sprintf("entry %d: %s", i, f.what)}
		}
		states = append(states, vs)
		reqs = append(reqs, vs.req)
		innerCat = append(innerCat, vs.reqBytes...)
		shape += fmt.Sprint(typ)
	}
	breq, err := batched.NewBasicClient().CreateTokenRequest(reqs)
	if err != nil {
		return "", &vfail{"batched-create-request", err.Error()}
	}
	got, want := breq.Marshal(), unh(bv.TokenRequest)
	if !bytes.Equal(got, want) {
		// say which inner request is off, if it is one of them
		detail := ""
		if len(want) > len(innerCat) {
			off := len(want) - len(innerCat)
			pos := 0
			for i, s := range states {
				if off+pos+len(s.reqBytes) <= len(want) && !bytes.Equal(want[off+pos:off+pos+len(s.reqBytes)], s.reqBytes) {
					detail += fmt.Sprintf(" inner request %d (type %d) differs: %s;", i, s.typ, diffAt(s.reqBytes, want[off+pos:off+pos+len(s.reqBytes)]))
				}
				pos += len(s.reqBytes)
			}
		}
		return "", &vfail{"token_request", fmt.Sprintf("batched request differs from the vector: %s;%s got %s want %s", diffAt(got, want), detail, hx(got, 120), hx(want, 120))}
	}
	var resps [][]byte
	var derr error
	if pn := mc.Catch(func() { resps, derr = batched.UnmarshalBatchedTokenResponses(unh(bv.TokenResponse)) }); pn != "" {
		return "", &vfail{"decode-vector-response", "panic: " + pn}
	}
	if derr != nil {
		return "", &vfail{"decode-vector-response", derr.Error()}
	}
	if len(resps) != len(states) {
		return "", &vfail{"decode-vector-response", fmt.Sprintf("%d responses for %d requests", len(resps), len(states))}
	}
	n := 0
	for i, s := range states {
		gt, ferr := s.fin(append([]byte{}, resps[i]...))
		if ferr != nil {
			return "", &vfail{"finalize-vector-response", fmt.Sprintf("entry %d (type %d, response of %d bytes): %v", i, s.typ, len(resps[i]), ferr)}
		}
		if f := cmpTokens("token-from-vector-response", gt, s.want); f != nil {
			return "", &vfail{f.step, fmt.Sprintf("entry %d (type %d): %s", i, s.typ, f.what)}
		}
		gt, ferr = s.own()
		if ferr != nil {
			return "", &vfail{"own-issuance", fmt.Sprintf("entry %d (type %d): %v", i, s.typ, ferr)}
		}
		if f := cmpTokens("token-from-own-issuance", gt, s.want); f != nil {
			return "", &vfail{f.step, fmt.Sprintf("entry %d (type %d): %s", i, s.typ, f.what)}
		}
		n++
	}
	return fmt.Sprintf("reproduced: batched request of inner types %s, %d token(s) from the vector's response and from own issuance", shape, n), nil
}

func runVectorSafe(vp VP) (out string, v *mc.Viol, harness string) {
	var f *vfail
	if pn := mc.CatchStack(func() { out, f = runVector(vp) }); pn != "" {
		return "panic", &mc.Viol{Sig: fmt.Sprintf("vector %s: re-creation panics: %s", filepath.Base(vp.File), trunc(pn, 50)), What: fmt.Sprintf("%s[%d]: %s", vp.File, vp.Index, pn)}, ""
	}
	if f == nil {
		return out, nil, ""
	}
	if len(f.step) > 8 && f.step[:8] == "harness:" {
		return "harness", nil, f.Error()
	}
	return "MISMATCH:" + f.step, &mc.Viol{Sig: fmt.Sprintf("vector %s not reproduced at step %s", filepath.Base(vp.File), f.step),
		What: fmt.Sprintf("%s[%d]: step %s: %s", vp.File, vp.Index, f.step, f.what)}, ""
}

var vectorFiles = []string{
	"tokens/batched/batched-issuance-test-vectors-rust.json",
	"tokens/batched/batched-issuance-test-vectors.json",
	"tokens/type1/type1-issuance-test-vectors.json",
	"tokens/type2/type2-issuance-test-vectors.json",
	"tokens/type5/type5-issuance-test-vectors.json",
}

func main() {
	r := mc.Start("C11", "exploration")
	repoRoot = r.Repo
	mc.InstallDRBG(r.Seed)
	r.RegisterReplay("pair", func(pj json.RawMessage) *mc.Viol {
		var p P
		if err := json.Unmarshal(pj, &p); err != nil {
			return &mc.Viol{Sig: "bad-params", What: err.Error()}
		}
		_, v := runPairSafe(p)
		return v
	})
	r.RegisterReplay("vector", func(pj json.RawMessage) *mc.Viol {
		var p VP
		if err := json.Unmarshal(pj, &p); err != nil {
			return &mc.Viol{Sig: "bad-params", What: err.Error()}
		}
		_, v, _ := runVectorSafe(p)
		return v
	})
	if r.IsReplay() {
		r.DoReplay()
	}

	// ---- pairs ----
	oprfKeys := mc.Pick(r, []int{0, 3, 5}, []int{0, 1, 2, 3, 4, 5})
	rsaKeys := mc.Pick(r, []int{0, 1}, []int{0, 1, 2, 3})
	nBlinds := 8                  // group scalars: 1, 2, N-1, leading zero byte, DRBG (+ DRBG, 2^k), minimal spelling of the leading-zero one
	nRSABlinds := 9               // 1, 2, 3, 65537, two DRBG values mod N, respellings with leading zero bytes, N-1
	inputs := mc.Pick(r, 2, 3)    // types 1, 5
	rsaInputs := mc.Pick(r, 1, 2) // type 2
	batches := mc.Pick(r, []int{1, 2, 3}, []int{1, 2, 3, 4})
	var cases []P
	for _, k := range oprfKeys {
		for in := 0; in < inputs; in++ {
			for i := 0; i < nBlinds; i++ {
				for j := 0; j < nBlinds; j++ {
					cases = append(cases, P{T: 1, Key: k, In: in, I: i, J: j, Seed: r.Seed})
					for _, b := range batches {
						cases = append(cases, P{T: 5, Key: k, In: in, Batch: b, I: i, J: j, Seed: r.Seed})
					}
				}
			}
		}
	}
	for _, k := range rsaKeys {
		for in := 0; in < rsaInputs; in++ {
			for salt := 0; salt < 2; salt++ {
				for i := 0; i < nRSABlinds; i++ {
					for j := 0; j < nRSABlinds; j++ {
						cases = append(cases, P{T: 2, Key: k, In: in, Salt: salt, I: i, J: j, Seed: r.Seed})
					}
				}
			}
		}
	}

	// degenerate blinds: nil, empty, zero, the order / modulus, wrong lengths, wrong counts
	for _, kind := range []int{100, 101, 102, 103, 104, 105, 106} {
		cases = append(cases, P{T: 1, Key: oprfKeys[0], In: 0, I: kind, J: kind, Seed: r.Seed})
		cases = append(cases, P{T: 5, Key: oprfKeys[0], In: 0, Batch: 2, I: kind, J: kind, Seed: r.Seed})
		for salt := 0; salt < 2; salt++ {
			cases = append(cases, P{T: 2, Key: rsaKeys[0], In: 0, Salt: salt, I: kind, J: kind, Seed: r.Seed})
		}
	}
	for salt := 2; salt <= 4; salt++ {
		cases = append(cases, P{T: 2, Key: rsaKeys[0], In: 0, Salt: salt, I: 4, J: 4, Seed: r.Seed}, P{T: 2, Key: rsaKeys[0], In: 0, Salt: salt, I: 0, J: 0, Seed: r.Seed})
	}
	for _, kind := range []int{110, 111, 112} {
		cases = append(cases, P{T: 5, Key: oprfKeys[0], In: 0, Batch: 2, I: kind, J: kind, Seed: r.Seed})
	}
	// a blind vector that repeats a blind is as good as any other: same tokens as under distinct blinds
	for _, k := range oprfKeys {
		for _, b := range []int{2, 3} {
			cases = append(cases, P{T: 5, Key: k, In: 0, Batch: b, I: 200, J: 1, Seed: r.Seed}, P{T: 5, Key: k, In: 1, Batch: b, I: 4, J: 200, Seed: r.Seed})
		}
	}

	// ---- vectors ----
	var vcases []VP
	for _, f := range vectorFiles {
		raw, err := os.ReadFile(filepath.Join(repoRoot, f))
		if err != nil {
			r.Note("vector file %s cannot be read: %v", f, err)
			r.NotExhaustive("a vector file is missing")
			continue
		}
		var arr []json.RawMessage
		if err := json.Unmarshal(raw, &arr); err != nil {
			r.Note("vector file %s is not a JSON array: %v", f, err)
			r.NotExhaustive("a vector file cannot be parsed")
			continue
		}
		for i := range arr {
			vcases = append(vcases, VP{File: f, Index: i})
		}
	}

	r.SetRule("pairs: (type in {1,2,5}) x key x input (challenge, nonce[s]) [x salt for type 2] [x batch size for type 5] x every ordered pair (i,j) of the blind alphabet, diagonal included; each case creates the request of blind i three times (twice in a row, once more after an unrelated random request and a request with blind j on the same client value), finalizes the first state last-created-first, the state of blind j, and the third state under a different issuer randomness stream, and compares request and token bytes; vectors: every entry of every shipped vector file that carries blinds; every case is a distinct tuple; non-trivial = all tokens of the case were produced and compared")
	r.Assume("blinds come from a fixed alphabet of canonical in-range scalars (1, 2, N-1, a value whose most significant byte is zero, DRBG values, a power of two); RSA blinds from {1, 2, 3, 65537, two DRBG values reduced mod N}; nothing is claimed for blinds outside [1, N-1] or for all 2^384 blinds",
		"'on every run' is observed inside one process as two issuances of the same request under different issuer randomness (different DLEQ proof nonces); runs of the check under different VERIF_SEED change fillers only",
		"vectors are read from the repository at run time; the Rust file is the independent implementation's output, the other four files were produced by pat-go itself at an earlier commit",
		"crypto/rand.Reader is replaced by a per-goroutine SHA-256 counter DRBG")
	r.Set("dimensions", map[string]any{"oprf_keys": oprfKeys, "rsa_keys": rsaKeys, "group_blinds": blindNames[:nBlinds], "rsa_blinds": rsaBlindNames, "salts": 2,
		"inputs_types_1_5": inputs, "inputs_type_2": rsaInputs, "type5_batch_sizes": batches, "vector_files": vectorFiles, "vector_entries": len(vcases)})

	r.Par(len(cases)+len(vcases), func(i int) {
		if r.OutOfTime() {
			r.NotExhaustive("time budget")
			return
		}
		if i < len(vcases) {
			vp := vcases[i]
			out, v, harness := runVectorSafe(vp)
			if harness != "" {
				r.Note("vector %s[%d]: %s", vp.File, vp.Index, harness)
				r.NotExhaustive("a vector could not be loaded")
				return
			}
			if v != nil {
				r.Violation("vector", vp, v)
			}
			r.Case(fmt.Sprintf("vector %s[%d]", vp.File, vp.Index), v == nil, "vector "+filepath.Base(vp.File)+": "+out)
			if vp.Index == 0 {
				r.Sample(map[string]any{"vector": vp, "outcome": out})
			}
			return
		}
		p := cases[i-len(vcases)]
		out, v := runPairSafe(p)
		if v != nil {
			r.Violation("pair", p, v)
		}
		r.Case(p.label(), v == nil, fmt.Sprintf("type%d %s", p.T, out))
		if i%211 == 0 {
			r.Sample(map[string]any{"pair": p, "outcome": out})
		}
	})
	r.Finish()
}
