// Harness of C17: built with -race and the vinstr overlay, run as a worker process by
// the C17 driver. It explores the schedules of one scenario by stateless depth-first
// search with a pre-emption bound, reads the race detector's log after every
// execution and validates the results of every call against sequential results.
package main

import (
	"bufio"
	"crypto/rand"
	"encoding/json"
	"flag"
	"fmt"
	"os"
	"path/filepath"
	"strings"

	"verif/vsched"
)

type violation struct {
	Scenario string  `json:"scenario"`
	Kind     string  `json:"kind"` // race | result | deadlock | panic
	Detail   string  `json:"detail"`
	Schedule []int16 `json:"schedule"`
	Frames   string  `json:"frames,omitempty"`
}

// ---- per-thread DRBG (no cross-thread state: no accidental happens-before edges) ----

type stream struct {
	key  [32]byte
	ctr  uint64
	buf  []byte
	side uint64
}

var streams [vsched.MaxThreads + 1]stream

type threadReader struct{}

func (threadReader) Read(p []byte) (int, error) {
	s := &streams[vsched.Me()]
	return s.read(p)
}

func resetStreams(label string) {
	for i := range streams {
		streams[i] = stream{}
		copy(streams[i].key[:], hash([]byte(fmt.Sprintf("%s/%d", label, i))))
	}
}

var raceLogDir string

func raceLogSize() int64 {
	var n int64
	fs, _ := filepath.Glob(filepath.Join(raceLogDir, "race.*"))
	for _, f := range fs {
		if st, err := os.Stat(f); err == nil {
			n += st.Size()
		}
	}
	return n
}

func raceLogTail(from int64) string {
	var sb strings.Builder
	fs, _ := filepath.Glob(filepath.Join(raceLogDir, "race.*"))
	for _, f := range fs {
		b, _ := os.ReadFile(f)
		if int64(len(b)) > from {
			sb.Write(b[from:])
		} else if from == 0 {
			sb.Write(b)
		}
	}
	return sb.String()
}

// topFrames extracts a stable signature from a race report: the function names of the
// two conflicting accesses (top 2 frames each).
func topFrames(report string) string {
	var out []string
	lines := strings.Split(report, "\n")
	for i, l := range lines {
		t := strings.TrimSpace(l)
		if strings.HasPrefix(t, "Write at ") || strings.HasPrefix(t, "Read at ") || strings.HasPrefix(t, "Previous write at ") || strings.HasPrefix(t, "Previous read at ") {
			kind := strings.Fields(t)[0]
			if kind == "Previous" {
				kind = "prev-" + strings.Fields(t)[1]
			}
			var fr []string
			for j := i + 1; j < len(lines) && len(fr) < 2; j++ {
				f := strings.TrimSpace(lines[j])
				if f == "" {
					break
				}
				if strings.HasPrefix(f, "/") || strings.HasPrefix(f, "goroutine") {
					continue
				}
				if k := strings.Index(f, "("); k > 0 {
					f = f[:k]
				}
				fr = append(fr, f)
			}
			out = append(out, strings.ToLower(kind)+":"+strings.Join(fr, "<"))
		}
		if len(out) == 2 {
			break
		}
	}
	return strings.Join(out, " | ")
}

type request struct {
	Scenario string  `json:"scenario"`
	Prefix   []int16 `json:"prefix"`
	Free     bool    `json:"free,omitempty"` // free-running cross-check pass instead of a scheduled execution
}

type point struct {
	R int32  `json:"r"` // running thread
	E uint16 `json:"e"` // enabled mask
	C int16  `json:"c"` // choice
	S int32  `json:"s"` // site
	F bool   `json:"f,omitempty"`
}

type reply struct {
	Points    []point    `json:"points"`
	Outcome   string     `json:"outcome"`
	Violation *violation `json:"violation,omitempty"`
	Diverged  bool       `json:"diverged,omitempty"`
	Overrun   bool       `json:"overrun,omitempty"`
	Threads   int        `json:"threads"`
	FreeRace  string     `json:"free_race,omitempty"`
	Err       string     `json:"err,omitempty"`
}

func main() {
	seed := flag.Int64("seed", 0, "filler seed")
	list := flag.Bool("list", false, "list scenarios")
	limit := flag.Int("limit", 20000, "scheduling points per execution")
	flag.Parse()
	if *list {
		for _, s := range scenarios {
			fmt.Println(s.name)
		}
		return
	}
	rand.Reader = threadReader{}
	seedv = *seed
	raceLogDir = os.Getenv("C17_RACELOG")

	runOnce := func(sc *scenario, prefix []int16) reply {
		resetStreams(sc.name)
		inst := sc.setup()
		before := raceLogSize()
		pans := make([]string, len(inst.bodies)) // one slot per thread: no sharing between threads
		bodies := make([]func(), len(inst.bodies))
		for i, b := range inst.bodies {
			i, b := i, b
			bodies[i] = func() {
				defer func() {
					if e := recover(); e != nil {
						pans[i] = fmt.Sprint(e)
					}
				}()
				b()
			}
		}
		res := vsched.Run(bodies, prefix, *limit)
		pan := strings.Join(pans, "")
		rp := reply{Threads: len(inst.bodies), Diverged: res.Diverged, Overrun: res.Overrun}
		sched := make([]int16, len(res.Points))
		for i, p := range res.Points {
			sched[i] = p.Choice
			rp.Points = append(rp.Points, point{R: p.Running, E: p.Enabled, C: p.Choice, S: p.Site, F: p.Free})
		}
		switch {
		case raceLogSize() > before:
			rep := raceLogTail(before)
			rp.Outcome = "race"
			rp.Violation = &violation{Scenario: sc.name, Kind: "race", Detail: trim(rep, 3000), Schedule: sched, Frames: topFrames(rep)}
		case pan != "":
			rp.Outcome = "panic"
			rp.Violation = &violation{Scenario: sc.name, Kind: "panic", Detail: pan, Schedule: sched}
		case res.Deadlock:
			rp.Outcome = "deadlock"
			rp.Violation = &violation{Scenario: sc.name, Kind: "deadlock", Detail: "no enabled thread while some threads are blocked", Schedule: sched}
		default:
			o, err := inst.check()
			if err != nil {
				rp.Outcome = "bad-result"
				rp.Violation = &violation{Scenario: sc.name, Kind: "result", Detail: err.Error(), Schedule: sched}
			} else {
				rp.Outcome = o
			}
		}
		return rp
	}

	// Process-global lazily initialised state of the dependencies (curve tables behind sync.Once
	// and the like) is initialised by one sequential run of a scenario's calls the first time the
	// scenario is used in this process: otherwise the Once of the very first execution orders the
	// threads and hides races of that execution from the detector, which would make the verdict
	// for a schedule depend on the history of the worker process.
	warmed := map[string]bool{}
	warm := func(sc *scenario) {
		if warmed[sc.name] {
			return
		}
		warmed[sc.name] = true
		resetStreams(sc.name)
		inst := sc.setup()
		for _, b := range inst.bodies {
			func() {
				defer func() { recover() }()
				b()
			}()
		}
	}

	in := bufio.NewReaderSize(os.Stdin, 1<<20)
	out := json.NewEncoder(os.Stdout)
	for {
		line, err := in.ReadBytes('\n')
		if len(line) > 0 {
			var rq request
			if jerr := json.Unmarshal(line, &rq); jerr != nil {
				out.Encode(reply{Err: jerr.Error()})
				continue
			}
			var sc *scenario
			for i := range scenarios {
				if scenarios[i].name == rq.Scenario {
					sc = &scenarios[i]
				}
			}
			if sc == nil {
				out.Encode(reply{Err: "unknown scenario " + rq.Scenario})
				continue
			}
			warm(sc)
			if rq.Free {
				// free-running cross-check (decides nothing alone)
				resetStreams(sc.name)
				inst := sc.setup()
				before := raceLogSize()
				vsched.RunFree(inst.bodies)
				rp := reply{Outcome: "free-ok", Threads: len(inst.bodies)}
				if raceLogSize() > before {
					rp.Outcome = "free-race"
					rp.FreeRace = topFrames(raceLogTail(before))
				} else if _, err := inst.check(); err != nil {
					rp.Outcome = "free-bad-result"
					rp.FreeRace = err.Error()
				}
				out.Encode(rp)
				continue
			}
			out.Encode(runOnce(sc, rq.Prefix))
		}
		if err != nil {
			return
		}
	}
}

// orderKey abstracts an execution to the order in which threads finished their calls.
func orderKey(r vsched.Result) string {
	var sb strings.Builder
	last := int32(-9)
	for _, p := range r.Points {
		if p.Site == -2 && p.Running != last { // thread exit
			fmt.Fprintf(&sb, "%d", p.Running)
		}
	}
	return sb.String()
}

func sameTrace(a, b vsched.Result) bool {
	if len(a.Points) != len(b.Points) {
		return false
	}
	for i := range a.Points {
		if a.Points[i].Site != b.Points[i].Site || a.Points[i].Running != b.Points[i].Running || a.Points[i].Enabled != b.Points[i].Enabled {
			return false
		}
	}
	return true
}

func popcount(m uint16) int {
	n := 0
	for ; m != 0; m &= m - 1 {
		n++
	}
	return n
}

func trim(s string, n int) string {
	if len(s) > n {
		return s[:n]
	}
	return s
}
