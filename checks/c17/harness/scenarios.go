package main

import (
	"bytes"
	stdecdsa "crypto/ecdsa"
	stded "crypto/ed25519"
	"crypto/elliptic"
	"crypto/rsa"
	"crypto/sha256"
	"crypto/sha512"
	"encoding/binary"
	"errors"
	"fmt"
	"math/big"
	"strings"
	"sync"

	"github.com/cloudflare/circl/oprf"
	"github.com/cloudflare/pat-go/ecdsa"
	"github.com/cloudflare/pat-go/ed25519"
	"github.com/cloudflare/pat-go/tokens"
	"github.com/cloudflare/pat-go/tokens/batched"
	"github.com/cloudflare/pat-go/tokens/type1"
	"github.com/cloudflare/pat-go/tokens/type2"
	"github.com/cloudflare/pat-go/tokens/type3"
	"github.com/cloudflare/pat-go/tokens/type5"

	"verif/px"
)

var seedv int64

// 31 bytes: one padding byte, so that the un-padding loop adds one scheduling point only
const originName = "origin-name-of-31-bytes.example"

func hash(b []byte) []byte { h := sha256.Sum256(b); return h[:] }

func (s *stream) block(ctr uint64, dom byte) []byte {
	var b [41]byte
	copy(b[:], s.key[:])
	binary.BigEndian.PutUint64(b[32:], ctr)
	b[40] = dom
	return hash(b[:])
}

func (s *stream) read(p []byte) (int, error) {
	if len(p) == 1 { // the MaybeReadByte coin: side stream
		p[0] = s.block(s.side, 1)[0]
		s.side++
		return 1, nil
	}
	n := 0
	for n < len(p) {
		if len(s.buf) == 0 {
			s.buf = s.block(s.ctr, 0)
			s.ctr++
		}
		c := copy(p[n:], s.buf)
		s.buf = s.buf[c:]
		n += c
	}
	return n, nil
}

// fill returns deterministic filler bytes (controller side only).
func fill(label string, n int) []byte {
	s := stream{}
	copy(s.key[:], hash([]byte(fmt.Sprintf("fill/%d/%s", seedv, label))))
	b := make([]byte, n)
	s.read(b)
	return b
}

type instance struct {
	bodies []func()
	check  func() (string, error) // after the join: every call's result must be one a sequential call could have produced
}

type scenario struct {
	name  string
	setup func() instance
}

type issuer1 struct{ i *type1.BasicPrivateIssuer }

func (w issuer1) Evaluate(req tokens.TokenRequest) ([]byte, error) {
	r, ok := req.(*type1.BasicPrivateTokenRequest)
	if !ok {
		return nil, errors.New("wrong request type")
	}
	return w.i.Evaluate(r)
}
func (w issuer1) TokenKeyID() []byte { return w.i.TokenKeyID() }
func (w issuer1) Type() uint16       { return w.i.Type() }

type issuer2 struct{ i *type2.BasicPublicIssuer }

func (w issuer2) Evaluate(req tokens.TokenRequest) ([]byte, error) {
	r, ok := req.(*type2.BasicPublicTokenRequest)
	if !ok {
		return nil, errors.New("wrong request type")
	}
	return w.i.Evaluate(r)
}
func (w issuer2) TokenKeyID() []byte { return w.i.TokenKeyID() }
func (w issuer2) Type() uint16       { return w.i.Type() }

func must(err error) {
	if err != nil {
		panic(err)
	}
}

// ---- type 1 / type 5 ----

func t1Scenario(withVerify bool) func() instance { return t1ScenarioH(withVerify, false) }

// t1ScenarioH with history: the shared issuer has already turned away a malformed request and
// served an honest one (sequentially, by the controller) before the concurrent calls start.
func t1ScenarioH(withVerify, history bool) func() instance {
	return t1ScenarioK(withVerify, history, false)
}

// t1ScenarioK with usedKey: the owner has used the key object (asked for its public key and
// serialised it) before handing it to the issuer, and goes on holding it.
func t1ScenarioK(withVerify, history, usedKey bool) func() instance {
	return func() instance {
		kb := px.OPRFKeyBytes(oprf.SuiteP384, 0)
		ref := px.NewW1FromBytes(kb) // reference world (its own key object)
		chal := fill("chal", 32)
		n0, n1 := fill("n0", 32), fill("n1", 32)
		st0, err := ref.Create(chal, n0, nil)
		must(err)
		st1, err := ref.Create(chal, n1, nil)
		must(err)
		w0, w1 := append([]byte{}, st0.Request().Marshal()...), append([]byte{}, st1.Request().Marshal()...)
		refOut, se := ref.Flow(chal, fill("n2", 32), nil)
		if se != nil {
			panic(se)
		}
		tok, err := type1.UnmarshalPrivateToken(refOut.Tokens[0])
		must(err)
		// the shared object: a FRESH issuer over a fresh key object built from bytes
		key := px.OPRFKeyFromBytes(oprf.SuiteP384, kb)
		if usedKey {
			if _, err := key.Public().MarshalBinary(); err != nil {
				panic(err)
			}
		}
		iss := type1.NewBasicPrivateIssuer(key)
		if history {
			bad := &type1.BasicPrivateTokenRequest{TokenKeyID: ref.KeyID[31], BlindedReq: append([]byte{0x02}, bytes.Repeat([]byte{0xff}, 48)...)}
			if _, err := iss.Evaluate(bad); err == nil {
				panic("malformed element accepted")
			}
			qh := new(type1.BasicPrivateTokenRequest)
			qh.Unmarshal(append([]byte{}, st0.Request().Marshal()...))
			if _, err := iss.Evaluate(qh); err != nil {
				panic(err)
			}
			if _, err := iss.Evaluate(bad); err == nil {
				panic("malformed element accepted")
			}
		}
		var r0, r1, kid []byte
		var e0, e1, ev error
		var pk *oprf.PublicKey
		in := instance{}
		q0, q1 := new(type1.BasicPrivateTokenRequest), new(type1.BasicPrivateTokenRequest)
		q0.Unmarshal(w0)
		q1.Unmarshal(w1)
		in.bodies = append(in.bodies, func() { r0, e0 = iss.Evaluate(q0) })
		if withVerify {
			in.bodies = append(in.bodies, func() { ev = iss.Verify(tok) }, func() { pk = iss.TokenKey() })
		} else {
			in.bodies = append(in.bodies, func() { r1, e1 = iss.Evaluate(q1) }, func() { kid = iss.TokenKeyID() })
		}
		in.check = func() (string, error) {
			if e0 != nil {
				return "", fmt.Errorf("Evaluate failed: %v", e0)
			}
			t0, err := st0.FinalizeToken(r0)
			if err != nil {
				return "", fmt.Errorf("response of a concurrent Evaluate does not finalize: %v", err)
			}
			if err := px.VerifyOPRFToken(oprf.SuiteP384, kb, t0.Marshal()); err != nil {
				return "", fmt.Errorf("token from a concurrent Evaluate is invalid: %v", err)
			}
			if withVerify {
				if ev != nil {
					return "", fmt.Errorf("concurrent Verify rejected a valid token: %v", ev)
				}
				b, err := pk.MarshalBinary()
				if err != nil || !bytes.Equal(b, ref.PubBytes) {
					return "", fmt.Errorf("concurrent TokenKey returned a different key")
				}
				return "ok", nil
			}
			if e1 != nil {
				return "", fmt.Errorf("Evaluate failed: %v", e1)
			}
			t1, err := st1.FinalizeToken(r1)
			if err != nil {
				return "", fmt.Errorf("response of a concurrent Evaluate does not finalize: %v", err)
			}
			if err := px.VerifyOPRFToken(oprf.SuiteP384, kb, t1.Marshal()); err != nil {
				return "", fmt.Errorf("token from a concurrent Evaluate is invalid: %v", err)
			}
			if !bytes.Equal(kid, ref.KeyID) {
				return "", fmt.Errorf("concurrent TokenKeyID returned %x, sequential %x", kid, ref.KeyID)
			}
			return "ok", nil
		}
		return in
	}
}

// t1ManyScenario: one Evaluate is in flight while eight more are served by two other goroutines
// (four each): more calls than any small fixed pool of per-call resources has entries.
func t1ManyScenario() instance {
	kb := px.OPRFKeyBytes(oprf.SuiteP384, 0)
	ref := px.NewW1FromBytes(kb)
	chal := fill("chal", 32)
	const n = 9
	sts := make([]type1.BasicPrivateTokenRequestState, n)
	reqs := make([]*type1.BasicPrivateTokenRequest, n)
	for i := 0; i < n; i++ {
		st, err := ref.Create(chal, fill(fmt.Sprintf("many-n%d", i), 32), nil)
		must(err)
		sts[i] = st
		reqs[i] = new(type1.BasicPrivateTokenRequest)
		reqs[i].Unmarshal(append([]byte{}, st.Request().Marshal()...))
	}
	iss := type1.NewBasicPrivateIssuer(px.OPRFKeyFromBytes(oprf.SuiteP384, kb))
	resp := make([][]byte, n)
	errs := make([]error, n)
	run := func(idx ...int) func() {
		return func() {
			for _, i := range idx {
				resp[i], errs[i] = iss.Evaluate(reqs[i])
			}
		}
	}
	in := instance{}
	in.bodies = []func(){run(0), run(1, 2, 3, 4), run(5, 6, 7, 8)}
	in.check = func() (string, error) {
		for i := 0; i < n; i++ {
			if errs[i] != nil {
				return "", fmt.Errorf("Evaluate %d failed: %v", i, errs[i])
			}
			t, err := sts[i].FinalizeToken(resp[i])
			if err != nil {
				return "", fmt.Errorf("response %d of nine overlapping Evaluate calls does not finalize: %v", i, err)
			}
			if err := px.VerifyOPRFToken(oprf.SuiteP384, kb, t.Marshal()); err != nil {
				return "", fmt.Errorf("token %d of nine overlapping Evaluate calls is invalid: %v", i, err)
			}
		}
		return "ok", nil
	}
	return in
}

func t5Scenario(withVerify bool) func() instance { return t5ScenarioH(withVerify, false) }

func t5ScenarioH(withVerify, history bool) func() instance {
	return func() instance {
		kb := px.OPRFKeyBytes(oprf.SuiteRistretto255, 0)
		ref := px.NewW5FromBytes(kb)
		chal := fill("chal", 32)
		ns0 := [][]byte{fill("n0", 32), fill("n0b", 32)}
		ns1 := [][]byte{fill("n1", 32), fill("n1b", 32)}
		st0, err := ref.Create(chal, ns0, nil)
		must(err)
		st1, err := ref.Create(chal, ns1, nil)
		must(err)
		w0, w1 := append([]byte{}, st0.Request().Marshal()...), append([]byte{}, st1.Request().Marshal()...)
		refOut, se := ref.Flow(chal, [][]byte{fill("n2", 32)}, nil)
		if se != nil {
			panic(se)
		}
		tok, err := type5.UnmarshalBatchedPrivateToken(refOut.Tokens[0])
		must(err)
		iss := type5.NewBatchedPrivateIssuer(px.OPRFKeyFromBytes(oprf.SuiteRistretto255, kb))
		if history {
			bad := &type5.BatchedPrivateTokenRequest{TokenKeyID: ref.KeyID[31], BlindedReq: [][]byte{bytes.Repeat([]byte{0xff}, 32)}}
			if _, err := iss.Evaluate(bad); err == nil {
				panic("malformed element accepted")
			}
			qh := new(type5.BatchedPrivateTokenRequest)
			qh.Unmarshal(append([]byte{}, st0.Request().Marshal()...))
			if _, err := iss.Evaluate(qh); err != nil {
				panic(err)
			}
			if _, err := iss.Evaluate(bad); err == nil {
				panic("malformed element accepted")
			}
		}
		var r0, r1, kid []byte
		var e0, e1, ev error
		var pk *oprf.PublicKey
		in := instance{}
		q0, q1 := new(type5.BatchedPrivateTokenRequest), new(type5.BatchedPrivateTokenRequest)
		q0.Unmarshal(w0)
		q1.Unmarshal(w1)
		in.bodies = append(in.bodies, func() { r0, e0 = iss.Evaluate(q0) })
		if withVerify {
			in.bodies = append(in.bodies, func() { ev = iss.Verify(tok) }, func() { pk = iss.TokenKey() })
		} else {
			in.bodies = append(in.bodies, func() { r1, e1 = iss.Evaluate(q1) }, func() { kid = iss.TokenKeyID() })
		}
		verifyAll := func(st type5.BatchedPrivateTokenRequestState, resp []byte) error {
			ts, err := st.FinalizeTokens(resp)
			if err != nil {
				return fmt.Errorf("response of a concurrent Evaluate does not finalize: %v", err)
			}
			for _, t := range ts {
				if err := px.VerifyOPRFToken(oprf.SuiteRistretto255, kb, t.Marshal()); err != nil {
					return fmt.Errorf("token from a concurrent Evaluate is invalid: %v", err)
				}
			}
			return nil
		}
		in.check = func() (string, error) {
			if e0 != nil {
				return "", fmt.Errorf("Evaluate failed: %v", e0)
			}
			if err := verifyAll(st0, r0); err != nil {
				return "", err
			}
			if withVerify {
				if ev != nil {
					return "", fmt.Errorf("concurrent Verify rejected a valid token: %v", ev)
				}
				b, err := pk.MarshalBinary()
				if err != nil || !bytes.Equal(b, ref.PubBytes) {
					return "", fmt.Errorf("concurrent TokenKey returned a different key")
				}
				return "ok", nil
			}
			if e1 != nil {
				return "", fmt.Errorf("Evaluate failed: %v", e1)
			}
			if err := verifyAll(st1, r1); err != nil {
				return "", err
			}
			if !bytes.Equal(kid, ref.KeyID) {
				return "", fmt.Errorf("concurrent TokenKeyID returned %x, sequential %x", kid, ref.KeyID)
			}
			return "ok", nil
		}
		return in
	}
}

// ---- type 2 ----

func t2Scenario() instance { return t2ScenarioH(false) }

func t2ScenarioHist() instance { return t2ScenarioH(true) }

// t2ScenarioRaw: the issuer's RSA key was assembled from its numbers (N, E, D, primes) and never
// precomputed, as a key loaded from a database or an HSM export would be.
func t2ScenarioRaw() instance {
	rawRSA = true
	defer func() { rawRSA = false }()
	return t2ScenarioH(false)
}

var rawRSA bool

func t2ScenarioH(history bool) instance {
	ref := px.NewW2(0)
	chal := fill("chal", 32)
	st0, err := ref.Create(chal, fill("n0", 32), nil, nil)
	must(err)
	st1, err := ref.Create(chal, fill("n1", 32), nil, nil)
	must(err)
	w0, w1 := append([]byte{}, st0.Request().Marshal()...), append([]byte{}, st1.Request().Marshal()...)
	key := px.FreshRSA(0)
	if rawRSA {
		key = &rsa.PrivateKey{PublicKey: rsa.PublicKey{N: new(big.Int).Set(key.N), E: key.E}, D: new(big.Int).Set(key.D),
			Primes: []*big.Int{new(big.Int).Set(key.Primes[0]), new(big.Int).Set(key.Primes[1])}}
	}
	iss := type2.NewBasicPublicIssuer(key)
	if history {
		bad := &type2.BasicPublicTokenRequest{TokenKeyID: ref.KeyID[31], BlindedReq: bytes.Repeat([]byte{0xff}, 256)}
		if _, err := iss.Evaluate(bad); err == nil {
			panic("blinded message above the modulus accepted")
		}
		qh := new(type2.BasicPublicTokenRequest)
		qh.Unmarshal(append([]byte{}, st0.Request().Marshal()...))
		if _, err := iss.Evaluate(qh); err != nil {
			panic(err)
		}
		if _, err := iss.Evaluate(bad); err == nil {
			panic("blinded message above the modulus accepted")
		}
	}
	var r0, r1, kid []byte
	var e0, e1 error
	in := instance{}
	q0, q1 := new(type2.BasicPublicTokenRequest), new(type2.BasicPublicTokenRequest)
	q0.Unmarshal(w0)
	q1.Unmarshal(w1)
	in.bodies = []func(){
		func() { r0, e0 = iss.Evaluate(q0) },
		func() { r1, e1 = iss.Evaluate(q1) },
		func() { kid = iss.TokenKeyID() },
	}
	in.check = func() (string, error) {
		if e0 != nil || e1 != nil {
			return "", fmt.Errorf("Evaluate failed: %v %v", e0, e1)
		}
		for i, p := range []struct {
			st type2.BasicPublicTokenRequestState
			r  []byte
		}{{st0, r0}, {st1, r1}} {
			t, err := p.st.FinalizeToken(p.r)
			if err != nil {
				return "", fmt.Errorf("response %d of a concurrent Evaluate does not finalize: %v", i, err)
			}
			if err := px.VerifyRSAToken(&ref.Key.PublicKey, t.Marshal()); err != nil {
				return "", fmt.Errorf("token %d invalid: %v", i, err)
			}
		}
		if !bytes.Equal(kid, ref.KeyID) {
			return "", fmt.Errorf("concurrent TokenKeyID differs from the sequential one")
		}
		return "ok", nil
	}
	return in
}

// ---- type 3 ----

func t3Scenario() instance {
	k := px.FreshRSA(1)
	iss := type3.NewRateLimitedIssuer(k) // fresh issuer (name key from the controller's stream)
	idx, err := ecdsa.CreateKey(elliptic.P384(), fill("indexkey", 48))
	must(err)
	must(iss.AddOriginWithIndexKey(originName, idx))
	kid := iss.TokenKeyID() // the reference id is computed on another object below
	refIss := type3.NewRateLimitedIssuer(px.RSAKeys()[1])
	refKid := refIss.TokenKeyID()
	_ = kid
	nk := iss.NameKey()
	mk := func(i int) (type3.RateLimitedTokenRequestState, []byte) {
		c := type3.NewRateLimitedClientFromSecret(fill(fmt.Sprintf("secret%d", i), 48))
		st, err := c.CreateTokenRequest(fill("chal", 32), fill(fmt.Sprintf("n%d", i), 32), fill(fmt.Sprintf("blind%d", i), 48), refKid, &px.RSAKeys()[1].PublicKey, originName, nk)
		must(err)
		return st, append([]byte{}, st.Request().Marshal()...)
	}
	st0, w0 := mk(0)
	st1, w1 := mk(1)
	// a second fresh issuer object cannot share the name key, so the shared object is `iss`
	// itself; TokenKeyID above was a first use by the controller: build another fresh one
	// for the concurrent TokenKeyID call is not possible without the same name key, hence
	// the shared issuer has had TokenKeyID called once (it keeps no state).
	var r0, r1, k0, k1, kid2 []byte
	var e0, e1 error
	in := instance{}
	in.bodies = []func(){
		func() { r0, k0, e0 = iss.Evaluate(w0) },
		func() { r1, k1, e1 = iss.Evaluate(w1) },
		func() { kid2 = iss.TokenKeyID() },
	}
	in.check = func() (string, error) {
		if e0 != nil || e1 != nil {
			return "", fmt.Errorf("Evaluate failed: %v %v", e0, e1)
		}
		for i, p := range []struct {
			st type3.RateLimitedTokenRequestState
			r  []byte
		}{{st0, r0}, {st1, r1}} {
			t, err := p.st.FinalizeToken(p.r)
			if err != nil {
				return "", fmt.Errorf("response %d of a concurrent Evaluate does not finalize: %v", i, err)
			}
			if err := px.VerifyRSAToken(&k.PublicKey, t.Marshal()); err != nil {
				return "", fmt.Errorf("token %d invalid: %v", i, err)
			}
		}
		if len(k0) != 49 || len(k1) != 49 {
			return "", fmt.Errorf("blinded request key missing")
		}
		if !bytes.Equal(kid2, refKid) {
			return "", fmt.Errorf("concurrent TokenKeyID differs from the sequential one")
		}
		return "ok", nil
	}
	return in
}

// lockedCache is a goroutine-safe ClientStateCache (the cache is the operator's; the attester's own
// code is what is explored).
type lockedCache struct {
	mu sync.Mutex
	m  map[string]*type3.ClientState
}

func (c *lockedCache) Get(id string) (*type3.ClientState, bool) {
	c.mu.Lock()
	defer c.mu.Unlock()
	s, ok := c.m[id]
	return s, ok
}
func (c *lockedCache) Put(id string, s *type3.ClientState) {
	c.mu.Lock()
	defer c.mu.Unlock()
	c.m[id] = s
}

// attesterScenario: one attester verifies, at once, an honest request, a forgery of it (one
// ciphertext bit flipped, honest signature kept) and an honest request of another client.
func attesterScenario() instance {
	iss := type3.NewRateLimitedIssuer(px.RSAKeys()[1])
	kid := iss.TokenKeyID()
	nk := iss.NameKey()
	type trip struct {
		req              type3.RateLimitedTokenRequest
		blind, clientKey []byte
	}
	mk := func(i int) trip {
		secret := fill(fmt.Sprintf("secret%d", i), 48)
		blind := fill(fmt.Sprintf("blind%d", i), 48)
		c := type3.NewRateLimitedClientFromSecret(secret)
		st, err := c.CreateTokenRequest(fill("chal", 32), fill(fmt.Sprintf("n%d", i), 32), blind, kid, &px.RSAKeys()[1].PublicKey, originName, nk)
		must(err)
		q := new(type3.RateLimitedTokenRequest)
		if !q.Unmarshal(append([]byte{}, st.Request().Marshal()...)) {
			panic("request does not decode")
		}
		return trip{*q, blind, px.ClientPubKeyBytes(secret)}
	}
	a, b := mk(0), mk(1)
	forged := mk(0)
	forged.req.EncryptedTokenRequest[len(forged.req.EncryptedTokenRequest)/2] ^= 0x10
	att := type3.NewRateLimitedAttester(&lockedCache{m: map[string]*type3.ClientState{}})
	var e0, e1, e2 error
	in := instance{}
	in.bodies = []func(){
		func() { e0 = att.VerifyRequest(a.req, a.blind, a.clientKey, make([]byte, 32)) },
		func() { e1 = att.VerifyRequest(forged.req, forged.blind, forged.clientKey, make([]byte, 32)) },
		func() { e2 = att.VerifyRequest(b.req, b.blind, b.clientKey, make([]byte, 32)) },
	}
	in.check = func() (string, error) {
		if e0 != nil || e2 != nil {
			return "", fmt.Errorf("concurrent VerifyRequest rejected an honest request: %v %v", e0, e2)
		}
		if e1 == nil {
			return "", fmt.Errorf("concurrent VerifyRequest accepted a request whose ciphertext was altered after signing")
		}
		return "ok", nil
	}
	return in
}

// t3SpellingsScenario: one issuer evaluates, at once, an honest request for its registered origin and
// requests for two other spellings of that name (capitals, trailing dot), which are not registered:
// the honest one is served, the others are refused, and nobody writes to the shared issuer.
func t3SpellingsScenario() instance {
	k := px.FreshRSA(1)
	iss := type3.NewRateLimitedIssuer(k)
	idx, err := ecdsa.CreateKey(elliptic.P384(), fill("indexkey", 48))
	must(err)
	must(iss.AddOriginWithIndexKey(originName, idx))
	kid := type3.NewRateLimitedIssuer(px.RSAKeys()[1]).TokenKeyID()
	nk := iss.NameKey()
	mk := func(i int, name string) []byte {
		c := type3.NewRateLimitedClientFromSecret(fill(fmt.Sprintf("secret%d", i), 48))
		st, err := c.CreateTokenRequest(fill("chal", 32), fill(fmt.Sprintf("n%d", i), 32), fill(fmt.Sprintf("blind%d", i), 48), kid, &px.RSAKeys()[1].PublicKey, name, nk)
		must(err)
		return append([]byte{}, st.Request().Marshal()...)
	}
	w0, w1, w2 := mk(0, originName), mk(1, strings.ToUpper(originName[:6])+originName[6:]), mk(2, originName[:30]+".")
	var r0, r1, r2 []byte
	var e0, e1, e2 error
	in := instance{}
	in.bodies = []func(){
		func() { r0, _, e0 = iss.Evaluate(w0) },
		func() { r1, _, e1 = iss.Evaluate(w1) },
		func() { r2, _, e2 = iss.Evaluate(w2) },
	}
	in.check = func() (string, error) {
		if e0 != nil || len(r0) == 0 {
			return "", fmt.Errorf("concurrent Evaluate refused the registered origin: %v", e0)
		}
		if e1 == nil || e2 == nil || r1 != nil || r2 != nil {
			return "", fmt.Errorf("concurrent Evaluate served an unregistered spelling of the origin name")
		}
		return "ok", nil
	}
	return in
}

// ---- generic batch issuer ----

// batchRefusedScenario: two batches evaluated at once, each holding a request that is refused
// (a type-1 blinded element that is not a curve point) in front of an honest type-2 request.
func batchRefusedScenario() instance {
	kb := px.OPRFKeyBytes(oprf.SuiteP384, 0)
	ref1 := px.NewW1FromBytes(kb)
	ref2 := px.NewW2(0)
	chal := fill("chal", 32)
	type pair struct {
		s2   type2.BasicPublicTokenRequestState
		wire []byte
	}
	mk := func(i int) pair {
		s1, err := ref1.Create(chal, fill(fmt.Sprintf("br%d-1", i), 32), nil)
		must(err)
		bad := s1.Request()
		bad.BlindedReq = append([]byte{0x02}, bytes.Repeat([]byte{0xff}, 48)...)
		s2, err := ref2.Create(chal, fill(fmt.Sprintf("br%d-2", i), 32), nil, nil)
		must(err)
		br, err := batched.NewBasicClient().CreateTokenRequest([]tokens.TokenRequestWithDetails{bad, s2.Request()})
		must(err)
		return pair{s2, append([]byte{}, br.Marshal()...)}
	}
	p0, p1 := mk(0), mk(1)
	bi := batched.NewBasicBatchedIssuer(issuer1{type1.NewBasicPrivateIssuer(px.OPRFKeyFromBytes(oprf.SuiteP384, kb))}, issuer2{type2.NewBasicPublicIssuer(px.FreshRSA(0))})
	var r0, r1 []byte
	var e0, e1 error
	in := instance{}
	q0, q1 := new(batched.BatchedTokenRequest), new(batched.BatchedTokenRequest)
	q0.Unmarshal(p0.wire)
	q1.Unmarshal(p1.wire)
	in.bodies = []func(){
		func() { r0, e0 = bi.EvaluateBatch(q0) },
		func() { r1, e1 = bi.EvaluateBatch(q1) },
	}
	in.check = func() (string, error) {
		if e0 != nil || e1 != nil {
			return "", fmt.Errorf("EvaluateBatch failed: %v %v", e0, e1)
		}
		for i, x := range []struct {
			p pair
			r []byte
		}{{p0, r0}, {p1, r1}} {
			es, err := batched.UnmarshalBatchedTokenResponses(x.r)
			if err != nil || len(es) != 2 {
				return "", fmt.Errorf("batch response %d does not decode to two entries: %v", i, err)
			}
			if len(es[0]) != 0 {
				return "", fmt.Errorf("batch %d: the refused request has a present entry", i)
			}
			t2, err := x.p.s2.FinalizeToken(es[1])
			if err != nil {
				return "", fmt.Errorf("batch %d type-2 entry behind a refused request does not finalize: %v", i, err)
			}
			if err := px.VerifyRSAToken(&ref2.Key.PublicKey, t2.Marshal()); err != nil {
				return "", fmt.Errorf("batch %d type-2 token invalid: %v", i, err)
			}
		}
		return "ok", nil
	}
	return in
}

func batchScenario() instance {
	kb := px.OPRFKeyBytes(oprf.SuiteP384, 0)
	ref1 := px.NewW1FromBytes(kb)
	ref2 := px.NewW2(0)
	chal := fill("chal", 32)
	type pair struct {
		s1   type1.BasicPrivateTokenRequestState
		s2   type2.BasicPublicTokenRequestState
		wire []byte
	}
	mk := func(i int) pair {
		s1, err := ref1.Create(chal, fill(fmt.Sprintf("b%d-1", i), 32), nil)
		must(err)
		s2, err := ref2.Create(chal, fill(fmt.Sprintf("b%d-2", i), 32), nil, nil)
		must(err)
		br, err := batched.NewBasicClient().CreateTokenRequest([]tokens.TokenRequestWithDetails{s1.Request(), s2.Request()})
		must(err)
		return pair{s1, s2, append([]byte{}, br.Marshal()...)}
	}
	p0, p1 := mk(0), mk(1)
	bi := batched.NewBasicBatchedIssuer(issuer1{type1.NewBasicPrivateIssuer(px.OPRFKeyFromBytes(oprf.SuiteP384, kb))}, issuer2{type2.NewBasicPublicIssuer(px.FreshRSA(0))})
	var r0, r1 []byte
	var e0, e1 error
	in := instance{}
	q0, q1 := new(batched.BatchedTokenRequest), new(batched.BatchedTokenRequest)
	q0.Unmarshal(p0.wire)
	q1.Unmarshal(p1.wire)
	in.bodies = []func(){
		func() { r0, e0 = bi.EvaluateBatch(q0) },
		func() { r1, e1 = bi.EvaluateBatch(q1) },
	}
	in.check = func() (string, error) {
		if e0 != nil || e1 != nil {
			return "", fmt.Errorf("EvaluateBatch failed: %v %v", e0, e1)
		}
		for i, x := range []struct {
			p pair
			r []byte
		}{{p0, r0}, {p1, r1}} {
			es, err := batched.UnmarshalBatchedTokenResponses(x.r)
			if err != nil || len(es) != 2 {
				return "", fmt.Errorf("batch response %d does not decode to two entries: %v", i, err)
			}
			t1, err := x.p.s1.FinalizeToken(es[0])
			if err != nil {
				return "", fmt.Errorf("batch %d type-1 entry does not finalize: %v", i, err)
			}
			if err := px.VerifyOPRFToken(oprf.SuiteP384, kb, t1.Marshal()); err != nil {
				return "", fmt.Errorf("batch %d type-1 token invalid: %v", i, err)
			}
			t2, err := x.p.s2.FinalizeToken(es[1])
			if err != nil {
				return "", fmt.Errorf("batch %d type-2 entry does not finalize: %v", i, err)
			}
			if err := px.VerifyRSAToken(&ref2.Key.PublicKey, t2.Marshal()); err != nil {
				return "", fmt.Errorf("batch %d type-2 token invalid: %v", i, err)
			}
		}
		return "ok", nil
	}
	return in
}

// batchScenario2: two issuers per token type; the requests are aimed at the SECOND issuer of
// each type (the one that is not first in the batch issuer's list).
func batchScenario2() instance {
	kbA, kbB := px.OPRFKeyBytes(oprf.SuiteP384, 0), px.OPRFKeyBytes(oprf.SuiteP384, 1)
	ref1 := px.NewW1FromBytes(kbB)
	ref2 := px.NewW2(1)
	chal := fill("chal", 32)
	type pair struct {
		s1   type1.BasicPrivateTokenRequestState
		s2   type2.BasicPublicTokenRequestState
		wire []byte
	}
	mk := func(i int) pair {
		s1, err := ref1.Create(chal, fill(fmt.Sprintf("b%d-1", i), 32), nil)
		must(err)
		s2, err := ref2.Create(chal, fill(fmt.Sprintf("b%d-2", i), 32), nil, nil)
		must(err)
		br, err := batched.NewBasicClient().CreateTokenRequest([]tokens.TokenRequestWithDetails{s1.Request(), s2.Request()})
		must(err)
		return pair{s1, s2, append([]byte{}, br.Marshal()...)}
	}
	p0, p1 := mk(0), mk(1)
	bi := batched.NewBasicBatchedIssuer(
		issuer1{type1.NewBasicPrivateIssuer(px.OPRFKeyFromBytes(oprf.SuiteP384, kbA))}, issuer1{type1.NewBasicPrivateIssuer(px.OPRFKeyFromBytes(oprf.SuiteP384, kbB))},
		issuer2{type2.NewBasicPublicIssuer(px.FreshRSA(0))}, issuer2{type2.NewBasicPublicIssuer(px.FreshRSA(1))})
	q0, q1 := new(batched.BatchedTokenRequest), new(batched.BatchedTokenRequest)
	q0.Unmarshal(p0.wire)
	q1.Unmarshal(p1.wire)
	var r0, r1 []byte
	var e0, e1 error
	in := instance{}
	in.bodies = []func(){
		func() { r0, e0 = bi.EvaluateBatch(q0) },
		func() { r1, e1 = bi.EvaluateBatch(q1) },
	}
	in.check = func() (string, error) {
		if e0 != nil || e1 != nil {
			return "", fmt.Errorf("EvaluateBatch failed: %v %v", e0, e1)
		}
		for i, x := range []struct {
			p pair
			r []byte
		}{{p0, r0}, {p1, r1}} {
			es, err := batched.UnmarshalBatchedTokenResponses(x.r)
			if err != nil || len(es) != 2 {
				return "", fmt.Errorf("batch response %d does not decode to two entries: %v", i, err)
			}
			if len(es[0]) == 0 || len(es[1]) == 0 {
				return "", fmt.Errorf("batch %d: an entry is absent although a configured issuer holds its key", i)
			}
			t1, err := x.p.s1.FinalizeToken(es[0])
			if err != nil {
				return "", fmt.Errorf("batch %d type-1 entry does not finalize: %v", i, err)
			}
			if err := px.VerifyOPRFToken(oprf.SuiteP384, kbB, t1.Marshal()); err != nil {
				return "", fmt.Errorf("batch %d type-1 token invalid: %v", i, err)
			}
			t2, err := x.p.s2.FinalizeToken(es[1])
			if err != nil {
				return "", fmt.Errorf("batch %d type-2 entry does not finalize: %v", i, err)
			}
			if err := px.VerifyRSAToken(&ref2.Key.PublicKey, t2.Marshal()); err != nil {
				return "", fmt.Errorf("batch %d type-2 token invalid: %v", i, err)
			}
		}
		return "ok", nil
	}
	return in
}

// ---- ECDSA ----

func ecdsaScenario(variant int) func() instance {
	return func() instance {
		curve := elliptic.P384()
		sk, err := ecdsa.CreateKey(curve, fill("sk", 48))
		must(err)
		bk, err := ecdsa.CreateKey(curve, fill("bk", 48))
		must(err)
		h0, h1 := sha512.Sum384([]byte("message zero")), sha512.Sum384([]byte("message one"))
		// a signature made before the threads start, for the concurrent Verify
		refSk, _ := ecdsa.CreateKey(curve, fill("sk", 48))
		refBk, _ := ecdsa.CreateKey(curve, fill("bk", 48))
		pr, ps, err := ecdsa.Sign(threadReader{}, refSk, h0[:])
		must(err)
		refBlinded, err := ecdsa.BlindPublicKey(curve, &refSk.PublicKey, refBk)
		must(err)
		var r0, s0, r1, s1 *big.Int
		var e0, e1, e3 error
		var vok bool
		var bp *ecdsa.PublicKey
		in := instance{}
		switch variant {
		case 0:
			in.bodies = []func(){
				func() { r0, s0, e0 = ecdsa.Sign(threadReader{}, sk, h0[:]) },
				func() { r1, s1, e1 = ecdsa.BlindKeySign(threadReader{}, sk, bk, h1[:]) },
				func() { vok = ecdsa.Verify(&sk.PublicKey, h0[:], pr, ps) },
			}
		case 2:
			// two blinding keys and two contexts in use at once on one signing key
			// the second blinding key is a raw 48-byte string above the group order (legal: the key is
			// hashed, not used as a scalar); two of the three calls share it
			bk2, err := ecdsa.CreateKey(curve, bytes.Repeat([]byte{0xff}, 48))
			must(err)
			refBk2, _ := ecdsa.CreateKey(curve, bytes.Repeat([]byte{0xff}, 48))
			ctxA, ctxB := []byte("context A"), []byte("context B, longer")
			wantA, err := ecdsa.BlindPublicKeyWithContext(curve, &refSk.PublicKey, refBk, ctxA)
			must(err)
			wantB, err := ecdsa.BlindPublicKeyWithContext(curve, &refSk.PublicKey, refBk2, ctxB)
			must(err)
			var gotA, gotB *ecdsa.PublicKey
			var eA, eB error
			in.bodies = []func(){
				func() { gotA, eA = ecdsa.BlindPublicKeyWithContext(curve, &sk.PublicKey, bk, ctxA) },
				func() { gotB, eB = ecdsa.BlindPublicKeyWithContext(curve, &sk.PublicKey, bk2, ctxB) },
				func() { r1, s1, e1 = ecdsa.BlindKeySignWithContext(threadReader{}, sk, bk2, h1[:], ctxB) },
			}
			in.check = func() (string, error) {
				std := func(p *ecdsa.PublicKey) *stdecdsa.PublicKey { return &stdecdsa.PublicKey{Curve: curve, X: p.X, Y: p.Y} }
				if eA != nil || gotA.X.Cmp(wantA.X) != 0 || gotA.Y.Cmp(wantA.Y) != 0 {
					return "", fmt.Errorf("concurrent BlindPublicKeyWithContext (key 1, context A) differs from the sequential result (%v)", eA)
				}
				if eB != nil || gotB.X.Cmp(wantB.X) != 0 || gotB.Y.Cmp(wantB.Y) != 0 {
					return "", fmt.Errorf("concurrent BlindPublicKeyWithContext (key 2, context B) differs from the sequential result (%v)", eB)
				}
				if e1 != nil || !stdecdsa.Verify(std(wantB), h1[:], r1, s1) {
					return "", fmt.Errorf("concurrent BlindKeySignWithContext produced a signature that does not verify under the key blinded with the same key and context (%v)", e1)
				}
				return "ok", nil
			}
			return in
		default:
			in.bodies = []func(){
				func() { bp, e3 = ecdsa.BlindPublicKey(curve, &sk.PublicKey, bk) },
				func() { r1, s1, e1 = ecdsa.BlindKeySign(threadReader{}, sk, bk, h1[:]) },
				func() { vok = ecdsa.Verify(&sk.PublicKey, h0[:], pr, ps) },
			}
		}
		in.check = func() (string, error) {
			std := func(p *ecdsa.PublicKey) *stdecdsa.PublicKey { return &stdecdsa.PublicKey{Curve: curve, X: p.X, Y: p.Y} }
			if !vok {
				return "", fmt.Errorf("concurrent Verify rejected a valid signature")
			}
			if e1 != nil || !stdecdsa.Verify(std(refBlinded), h1[:], r1, s1) {
				return "", fmt.Errorf("concurrent BlindKeySign produced a signature that does not verify under the blinded key (%v)", e1)
			}
			if variant == 0 {
				if e0 != nil || !stdecdsa.Verify(std(&refSk.PublicKey), h0[:], r0, s0) {
					return "", fmt.Errorf("concurrent Sign produced an invalid signature (%v)", e0)
				}
			} else {
				if e3 != nil || bp.X.Cmp(refBlinded.X) != 0 || bp.Y.Cmp(refBlinded.Y) != 0 {
					return "", fmt.Errorf("concurrent BlindPublicKey differs from the sequential result (%v)", e3)
				}
			}
			return "ok", nil
		}
		return in
	}
}

// ecdsaCurvesScenario: three goroutines sign (and one key-blinds) on three different curves at
// once: whatever the package keeps per curve must not be shared between them.
func ecdsaCurvesScenario() instance {
	curves := []elliptic.Curve{elliptic.P224(), elliptic.P384(), elliptic.P521()}
	type res struct {
		r, s *big.Int
		err  error
	}
	out := make([]res, 3)
	keys := make([]*ecdsa.PrivateKey, 3)
	refs := make([]*ecdsa.PrivateKey, 3)
	digest := sha512.Sum384([]byte("three curves"))
	in := instance{}
	for i, c := range curves {
		n := (c.Params().N.BitLen() + 7) / 8
		k, err := ecdsa.CreateKey(c, fill(fmt.Sprintf("curve-key-%d", i), n-1))
		must(err)
		rk, _ := ecdsa.CreateKey(c, fill(fmt.Sprintf("curve-key-%d", i), n-1))
		keys[i], refs[i] = k, rk
		i := i
		in.bodies = append(in.bodies, func() { out[i].r, out[i].s, out[i].err = ecdsa.Sign(threadReader{}, keys[i], digest[:]) })
	}
	in.check = func() (string, error) {
		for i, c := range curves {
			if out[i].err != nil {
				return "", fmt.Errorf("concurrent Sign on %s failed: %v", c.Params().Name, out[i].err)
			}
			if !stdecdsa.Verify(&stdecdsa.PublicKey{Curve: c, X: refs[i].X, Y: refs[i].Y}, digest[:], out[i].r, out[i].s) {
				return "", fmt.Errorf("signature made on %s while other goroutines sign on other curves is rejected by crypto/ecdsa", c.Params().Name)
			}
		}
		return "ok", nil
	}
	return in
}

// ---- Ed25519 (tables reset so that first use is explored in every execution) ----

func ed25519Scenario(variant int) func() instance {
	return func() instance {
		ed25519.VerifResetTables()
		seed := fill("edseed", 32)
		stdPriv := stded.NewKeyFromSeed(seed)
		stdPub := stdPriv.Public().(stded.PublicKey)
		// key material for the code under test is derived with the standard library, so that no
		// call into the package under test happens before the threads start
		priv := ed25519.PrivateKey(append([]byte{}, stdPriv...))
		pub := ed25519.PublicKey(append([]byte{}, stdPub...))
		blind := fill("edblind", 32)
		blindA, blindB := append([]byte{}, blind...), append([]byte{}, blind...) // per-call arguments are private to a thread
		m0, m1 := []byte("message zero"), []byte("message one")
		presig := stded.Sign(stdPriv, m0)
		var s0, s1 []byte
		var vok, vok2 bool
		var bpub, u1, u2 ed25519.PublicKey
		var e3, ue1, ue2 error
		blindC := fill("edblind2", 32)
		in := instance{}
		switch variant {
		case 0:
			in.bodies = []func(){
				func() { s0 = ed25519.Sign(priv, m0) },
				func() { s1 = ed25519.BlindKeySign(priv, m1, blindA[:32:32]) },
				func() { vok = ed25519.Verify(pub, m0, presig) },
			}
		case 2:
			// two verifications and one signature: the verifier's table is used for the first time
			// by two goroutines at once
			in.bodies = []func(){
				func() { vok = ed25519.Verify(pub, m0, presig) },
				func() { vok2 = ed25519.Verify(pub, m0, presig) },
				func() { s0 = ed25519.Sign(priv, m0) },
			}
		case 3:
			// key un-blinding by two goroutines (each with its own copies of key, blind, context)
			bk1, _ := ed25519.BlindPublicKeyWithContext(pub, append([]byte{}, blind...)[:32:32], []byte("ctx one"))
			bk2, _ := ed25519.BlindPublicKeyWithContext(pub, append([]byte{}, blindC...)[:32:32], []byte("ctx two"))
			in.bodies = []func(){
				func() { u1, ue1 = ed25519.UnblindPublicKeyWithContext(bk1, blindA[:32:32], []byte("ctx one")) },
				func() { u2, ue2 = ed25519.UnblindPublicKeyWithContext(bk2, blindC[:32:32], []byte("ctx two")) },
				func() { bpub, e3 = ed25519.BlindPublicKey(pub, blindB[:32:32]) },
			}
		case 4:
			// ONE blinding key shared by three goroutines: a 32-byte slice of a larger buffer (spare
			// capacity behind it), each call with its own context
			shared := append(make([]byte, 0, 96), blind...)
			in.bodies = []func(){
				func() { bpub, e3 = ed25519.BlindPublicKeyWithContext(pub, shared, []byte("ctx one")) },
				func() { s1 = ed25519.BlindKeySignWithContext(priv, m1, shared, []byte("context number two")) },
				func() { u1, ue1 = ed25519.BlindPublicKeyWithContext(pub, shared, []byte("ctx 3")) },
			}
			in.check = func() (string, error) {
				w1, _ := ed25519.BlindPublicKeyWithContext(pub, append([]byte{}, blind...)[:32:32], []byte("ctx one"))
				w2, _ := ed25519.BlindPublicKeyWithContext(pub, append([]byte{}, blind...)[:32:32], []byte("context number two"))
				w3, _ := ed25519.BlindPublicKeyWithContext(pub, append([]byte{}, blind...)[:32:32], []byte("ctx 3"))
				if e3 != nil || ue1 != nil || !bytes.Equal(bpub, w1) || !bytes.Equal(u1, w3) {
					return "", fmt.Errorf("concurrent BlindPublicKeyWithContext with a shared blinding key differs from the sequential result (%v %v)", e3, ue1)
				}
				if !stded.Verify(stded.PublicKey(w2), m1, s1) {
					return "", fmt.Errorf("concurrent BlindKeySignWithContext with a shared blinding key: signature invalid under the blinded key")
				}
				if !bytes.Equal(shared, blind) {
					return "", fmt.Errorf("the shared blinding key changed")
				}
				return "ok", nil
			}
			return in
		default:
			in.bodies = []func(){
				func() { bpub, e3 = ed25519.BlindPublicKey(pub, blindB[:32:32]) },
				func() { s1 = ed25519.BlindKeySign(priv, m1, blindA[:32:32]) },
				func() { vok = ed25519.Verify(pub, m0, presig) },
			}
		}
		in.check = func() (string, error) {
			if variant == 2 {
				if !vok || !vok2 {
					return "", fmt.Errorf("concurrent Verify rejected a valid signature")
				}
				if !bytes.Equal(s0, presig) {
					return "", fmt.Errorf("concurrent Sign differs from the standard library's signature")
				}
				return "ok", nil
			}
			if variant == 3 {
				if ue1 != nil || ue2 != nil || !bytes.Equal(u1, pub) || !bytes.Equal(u2, pub) {
					return "", fmt.Errorf("concurrent UnblindPublicKeyWithContext did not recover the key (%v %v)", ue1, ue2)
				}
				rb, _ := ed25519.BlindPublicKey(pub, append([]byte{}, blind...)[:32:32])
				if e3 != nil || !bytes.Equal(bpub, rb) {
					return "", fmt.Errorf("concurrent BlindPublicKey differs from the sequential result (%v)", e3)
				}
				return "ok", nil
			}
			if !vok {
				return "", fmt.Errorf("concurrent Verify rejected a valid signature")
			}
			refBlinded, err := ed25519.BlindPublicKey(pub, append([]byte{}, blind...)[:32:32])
			if err != nil {
				return "", err
			}
			if !stded.Verify(stded.PublicKey(refBlinded), m1, s1) {
				return "", fmt.Errorf("concurrent BlindKeySign produced a signature that does not verify under the blinded key")
			}
			if variant == 0 {
				if !bytes.Equal(s0, presig) {
					return "", fmt.Errorf("concurrent Sign differs from the standard library's signature")
				}
			} else if e3 != nil || !bytes.Equal(bpub, refBlinded) {
				return "", fmt.Errorf("concurrent BlindPublicKey differs from the sequential result (%v)", e3)
			}
			return "ok", nil
		}
		return in
	}
}

// keyIDScenario: TokenKeyID || TokenKeyID || TokenKey on one fresh issuer of each type.
func keyIDScenario(typ int) func() instance {
	return func() instance {
		var ids [2][]byte
		var want []byte
		in := instance{}
		switch typ {
		case 1:
			kb := px.OPRFKeyBytes(oprf.SuiteP384, 1)
			want = px.NewW1FromBytes(kb).KeyID
			iss := type1.NewBasicPrivateIssuer(px.OPRFKeyFromBytes(oprf.SuiteP384, kb))
			in.bodies = []func(){func() { ids[0] = iss.TokenKeyID() }, func() { ids[1] = iss.TokenKeyID() }, func() { _ = iss.TokenKey() }}
		case 5:
			kb := px.OPRFKeyBytes(oprf.SuiteRistretto255, 1)
			want = px.NewW5FromBytes(kb).KeyID
			iss := type5.NewBatchedPrivateIssuer(px.OPRFKeyFromBytes(oprf.SuiteRistretto255, kb))
			in.bodies = []func(){func() { ids[0] = iss.TokenKeyID() }, func() { ids[1] = iss.TokenKeyID() }, func() { _ = iss.TokenKey() }}
		case 2:
			want = px.NewW2(1).KeyID
			iss := type2.NewBasicPublicIssuer(px.FreshRSA(1))
			in.bodies = []func(){func() { ids[0] = iss.TokenKeyID() }, func() { ids[1] = iss.TokenKeyID() }, func() { _ = iss.TokenKey() }}
		case 3:
			want = type3.NewRateLimitedIssuer(px.RSAKeys()[1]).TokenKeyID()
			iss := type3.NewRateLimitedIssuer(px.FreshRSA(1))
			in.bodies = []func(){func() { ids[0] = iss.TokenKeyID() }, func() { ids[1] = iss.TokenKeyID() }, func() { _ = iss.NameKey().Marshal() }}
		}
		in.check = func() (string, error) {
			if !bytes.Equal(ids[0], want) || !bytes.Equal(ids[1], want) {
				return "", fmt.Errorf("concurrent TokenKeyID calls returned %x / %x, sequential %x", ids[0], ids[1], want)
			}
			return "ok", nil
		}
		return in
	}
}

// verifyScenario: three concurrent Verify calls (two valid tokens, one forged) on one issuer.
func verifyScenario(typ int) func() instance {
	return func() instance {
		var errs [3]error
		var verify func(t tokens.Token) error
		var toks [3]tokens.Token
		chal := fill("chal", 32)
		if typ == 1 {
			kb := px.OPRFKeyBytes(oprf.SuiteP384, 0)
			ref := px.NewW1FromBytes(kb)
			for i := 0; i < 2; i++ {
				o, se := ref.Flow(chal, fill(fmt.Sprintf("vn%d", i), 32), nil)
				if se != nil {
					panic(se)
				}
				t, err := type1.UnmarshalPrivateToken(o.Tokens[0])
				must(err)
				toks[i] = t
			}
			iss := type1.NewBasicPrivateIssuer(px.OPRFKeyFromBytes(oprf.SuiteP384, kb))
			verify = iss.Verify
		} else {
			kb := px.OPRFKeyBytes(oprf.SuiteRistretto255, 0)
			ref := px.NewW5FromBytes(kb)
			for i := 0; i < 2; i++ {
				o, se := ref.Flow(chal, [][]byte{fill(fmt.Sprintf("vn%d", i), 32)}, nil)
				if se != nil {
					panic(se)
				}
				t, err := type5.UnmarshalBatchedPrivateToken(o.Tokens[0])
				must(err)
				toks[i] = t
			}
			iss := type5.NewBatchedPrivateIssuer(px.OPRFKeyFromBytes(oprf.SuiteRistretto255, kb))
			verify = iss.Verify
		}
		// forged: the authenticator of token 0 under the nonce of token 1
		toks[2] = tokens.Token{TokenType: toks[0].TokenType, Nonce: append([]byte{}, toks[1].Nonce...), Context: append([]byte{}, toks[0].Context...), KeyID: append([]byte{}, toks[0].KeyID...), Authenticator: append([]byte{}, toks[0].Authenticator...)}
		in := instance{}
		for i := 0; i < 3; i++ {
			i := i
			in.bodies = append(in.bodies, func() { errs[i] = verify(toks[i]) })
		}
		in.check = func() (string, error) {
			if errs[0] != nil || errs[1] != nil {
				return "", fmt.Errorf("concurrent Verify rejected a valid token: %v %v", errs[0], errs[1])
			}
			if errs[2] == nil {
				return "", fmt.Errorf("concurrent Verify accepted a forged token")
			}
			return "ok", nil
		}
		return in
	}
}

// clientKeyScenario: two clients (each with its own request state and arguments) share one
// verification key object.
func clientKeyScenario(typ int) func() instance {
	return func() instance {
		chal := fill("chal", 32)
		in := instance{}
		switch typ {
		case 2:
			ref := px.NewW2(0)
			pk := ref.ClientPub() // the shared verification key object
			refPk := ref.ClientPub()
			var got, want [2][]byte
			var errs [2]error
			for i := 0; i < 2; i++ {
				i := i
				blind, salt, nonce := fill(fmt.Sprintf("rb%d", i), 255), fill(fmt.Sprintf("salt%d", i), 48), fill(fmt.Sprintf("cn%d", i), 32)
				st, err := type2.NewBasicPublicClient().CreateTokenRequestWithBlind(chal, nonce, ref.KeyID, refPk, blind, salt)
				must(err)
				want[i] = append([]byte{}, st.Request().Marshal()...)
				in.bodies = append(in.bodies, func() {
					st, err := type2.NewBasicPublicClient().CreateTokenRequestWithBlind(chal, nonce, ref.KeyID, pk, blind, salt)
					errs[i] = err
					if err == nil {
						got[i] = append([]byte{}, st.Request().Marshal()...)
					}
				})
			}
			in.check = func() (string, error) {
				for i := 0; i < 2; i++ {
					if errs[i] != nil || !bytes.Equal(got[i], want[i]) {
						return "", fmt.Errorf("concurrent CreateTokenRequestWithBlind with a shared verification key differs from the sequential result (%v)", errs[i])
					}
				}
				return "ok", nil
			}
		default: // type 1 and 5: create and finalize, sharing only the public key object
			var toks [2][]byte
			var errs [2]error
			if typ == 1 {
				kb := px.OPRFKeyBytes(oprf.SuiteP384, 0)
				ref := px.NewW1FromBytes(kb)
				pk := ref.ClientPub()
				for i := 0; i < 2; i++ {
					i := i
					nonce := fill(fmt.Sprintf("cn%d", i), 32)
					in.bodies = append(in.bodies, func() {
						st, err := type1.NewBasicPrivateClient().CreateTokenRequest(chal, nonce, ref.KeyID, pk)
						if err != nil {
							errs[i] = err
							return
						}
						resp, se := ref.EvaluateWire(st.Request().Marshal())
						if se != nil {
							errs[i] = se
							return
						}
						t, err := st.FinalizeToken(resp)
						errs[i] = err
						if err == nil {
							toks[i] = t.Marshal()
						}
					})
				}
				in.check = func() (string, error) {
					for i := 0; i < 2; i++ {
						if errs[i] != nil {
							return "", fmt.Errorf("client %d sharing the verification key failed: %v", i, errs[i])
						}
						if err := px.VerifyOPRFToken(oprf.SuiteP384, kb, toks[i]); err != nil {
							return "", fmt.Errorf("client %d sharing the verification key got an invalid token: %v", i, err)
						}
					}
					return "ok", nil
				}
			} else {
				kb := px.OPRFKeyBytes(oprf.SuiteRistretto255, 0)
				ref := px.NewW5FromBytes(kb)
				pk := ref.ClientPub()
				for i := 0; i < 2; i++ {
					i := i
					nonce := fill(fmt.Sprintf("cn%d", i), 32)
					in.bodies = append(in.bodies, func() {
						st, err := type5.NewBatchedPrivateClient().CreateTokenRequest(chal, [][]byte{nonce}, ref.KeyID, pk)
						if err != nil {
							errs[i] = err
							return
						}
						resp, se := ref.EvaluateWire(st.Request().Marshal())
						if se != nil {
							errs[i] = se
							return
						}
						ts, err := st.FinalizeTokens(resp)
						errs[i] = err
						if err == nil && len(ts) == 1 {
							toks[i] = ts[0].Marshal()
						}
					})
				}
				in.check = func() (string, error) {
					for i := 0; i < 2; i++ {
						if errs[i] != nil {
							return "", fmt.Errorf("client %d sharing the verification key failed: %v", i, errs[i])
						}
						if err := px.VerifyOPRFToken(oprf.SuiteRistretto255, kb, toks[i]); err != nil {
							return "", fmt.Errorf("client %d sharing the verification key got an invalid token: %v", i, err)
						}
					}
					return "ok", nil
				}
			}
		}
		return in
	}
}

var scenarios = []scenario{
	{"type1-verify-verify-verify", verifyScenario(1)},
	{"type5-verify-verify-verify", verifyScenario(5)},
	{"type2-clients-sharing-verification-key", clientKeyScenario(2)},
	// clientKeyScenario(1) / (5) exist but are NOT registered: two clients sharing one circl
	// *oprf.PublicKey race inside circl on the unchanged tree (P-384 element normalised in
	// place when serialised); client-side calls are not in the statement's list of calls
	// that may share a key, so flagging it would demand more than C17 states (DESIGN 9.2).
	{"type1-tokenkeyid-tokenkeyid-tokenkey", keyIDScenario(1)},
	{"type2-tokenkeyid-tokenkeyid-tokenkey", keyIDScenario(2)},
	{"type3-tokenkeyid-tokenkeyid-namekey", keyIDScenario(3)},
	{"type5-tokenkeyid-tokenkeyid-tokenkey", keyIDScenario(5)},
	{"type1-evaluate-evaluate-tokenkeyid", t1Scenario(false)},
	{"type1-evaluate-verify-tokenkey", t1Scenario(true)},
	{"type5-evaluate-evaluate-tokenkeyid", t5Scenario(false)},
	{"type5-evaluate-verify-tokenkey", t5Scenario(true)},
	{"type2-evaluate-evaluate-tokenkeyid", t2Scenario},
	{"type3-evaluate-evaluate-tokenkeyid", t3Scenario},
	{"batch-evaluatebatch-evaluatebatch", batchScenario},
	{"ecdsa-sign-blindkeysign-verify", ecdsaScenario(0)},
	{"ecdsa-blindpublickey-blindkeysign-verify", ecdsaScenario(1)},
	{"ed25519-sign-blindkeysign-verify", ed25519Scenario(0)},
	{"ed25519-blindpublickey-blindkeysign-verify", ed25519Scenario(1)},
	{"ed25519-verify-verify-sign", ed25519Scenario(2)},
	{"ed25519-unblind-unblind-blindpublickey", ed25519Scenario(3)},
	{"batch-two-issuers-per-type", batchScenario2},
	{"type1-evaluate-evaluate-tokenkeyid-on-an-issuer-with-a-history", t1ScenarioH(false, true)},
	{"type1-evaluate-evaluate-tokenkeyid-key-used-by-its-owner-before", t1ScenarioK(false, false, true)},
	{"type1-evaluate-verify-tokenkey-key-used-by-its-owner-before", t1ScenarioK(true, false, true)},
	{"type5-evaluate-evaluate-tokenkeyid-on-an-issuer-with-a-history", t5ScenarioH(false, true)},
	{"type2-evaluate-evaluate-tokenkeyid-on-an-issuer-with-a-history", t2ScenarioHist},
	{"ecdsa-two-blinding-keys-two-contexts", ecdsaScenario(2)},
	{"ecdsa-sign-on-three-curves", ecdsaCurvesScenario},
	{"batch-evaluatebatch-evaluatebatch-each-with-a-refused-request", batchRefusedScenario},
	{"type1-one-evaluate-in-flight-while-eight-more-are-served", t1ManyScenario},
	{"type3-evaluate-registered-origin-and-two-other-spellings", t3SpellingsScenario},
	{"ed25519-one-blinding-key-shared-by-three-calls", ed25519Scenario(4)},
	{"type2-evaluate-evaluate-tokenkeyid-key-assembled-from-numbers", t2ScenarioRaw},
	{"type3-attester-verifyrequest-honest-forged-honest", attesterScenario},
}
