// C17: issuers, verifiers and keys can be shared between goroutines.
//
// Driver: instruments the current pat-go sources with scheduling points (vinstr),
// builds the harness with -race through a go build overlay, and explores, for every
// scenario, all schedules up to the pre-emption bound by stateless depth-first search.
// The search tree is kept here; executions are farmed out to a pool of harness worker
// processes (GOMAXPROCS=2 each, see gomax; a fresh process per execution, see workerExecs). In a worker the cooperative scheduler is invisible to
// the race detector, so every explored schedule is also checked for data races by
// happens-before analysis (see vsched).
package main

import (
	"bufio"
	"encoding/json"
	"fmt"
	"io"
	"os"
	"os/exec"
	"path/filepath"
	"runtime"
	"sort"
	"strings"
	"sync"
	"time"

	"verif/mc"
	"verif/vinstr"
)

type violation struct {
	Scenario string  `json:"scenario"`
	Kind     string  `json:"kind"`
	Detail   string  `json:"detail"`
	Schedule []int16 `json:"schedule"`
	Frames   string  `json:"frames,omitempty"`
}

type request struct {
	Scenario string  `json:"scenario"`
	Prefix   []int16 `json:"prefix"`
	Free     bool    `json:"free,omitempty"`
}

type point struct {
	R int32  `json:"r"`
	E uint16 `json:"e"`
	C int16  `json:"c"`
	S int32  `json:"s"`
	F bool   `json:"f,omitempty"`
}

type reply struct {
	Points    []point    `json:"points"`
	Outcome   string     `json:"outcome"`
	Violation *violation `json:"violation,omitempty"`
	Diverged  bool       `json:"diverged,omitempty"`
	Overrun   bool       `json:"overrun,omitempty"`
	Threads   int        `json:"threads"`
	FreeRace  string     `json:"free_race,omitempty"`
	Err       string     `json:"err,omitempty"`
}

type replayCase struct {
	Scenario     string  `json:"scenario"`
	Schedule     []int16 `json:"schedule"`
	Instrumented bool    `json:"instrumented"`
	Coarse       bool    `json:"coarse_granularity"`
	Kind         string  `json:"kind"`
}

var (
	root    string
	workDir string
	harness string
	instr   bool
	seedv   int64
)

func goCmd(args ...string) *exec.Cmd {
	c := exec.Command("go", args...)
	c.Dir = root
	c.Env = append(os.Environ(), "GOFLAGS=-mod=mod", "GOPROXY=off", "GOSUMDB=off", "GOTOOLCHAIN=local")
	return c
}

// buildHarness instruments the tree and builds the -race harness. If instrumentation
// or the instrumented build fails it falls back to the plain -race build (threads then
// interleave only at call boundaries) and reports that.
var built = map[bool]string{}

var granularity = map[bool]string{true: "statements in tokens/..., function entries in ecdsa/ ed25519/ util/ quicwire/", false: "statements everywhere (except pure field/scalar arithmetic and table lookups)"}

func buildHarness(r *mc.Run, coarse bool) error {
	if p, ok := built[coarse]; ok {
		harness = p
		return nil
	}
	base, err := vinstr.ReadOverlay(os.Getenv("VERIF_OVERLAY"))
	if err != nil {
		return err
	}
	sub := map[bool]string{true: "coarse", false: "fine"}[coarse]
	harness = filepath.Join(workDir, "c17h-"+sub)
	defer func() { built[coarse] = harness }()
	vinstr.Coarse = coarse
	ov, sites, ierr := vinstr.Instrument("/repo", filepath.Join(workDir, "src-"+sub), base)
	if ierr == nil {
		op := filepath.Join(workDir, "overlay-"+sub+".json")
		if err := vinstr.WriteOverlay(op, ov); err != nil {
			return err
		}
		out, err := goCmd("build", "-race", "-tags", "verif", "-overlay", op, "-o", harness, "./checks/c17/harness").CombinedOutput()
		if err == nil {
			instr = true
			r.Set("scheduling_points_inserted_"+sub, len(sites))
			if keep := os.Getenv("C17_KEEP_HARNESS"); keep != "" {
				if b, e := os.ReadFile(harness); e == nil {
					os.WriteFile(keep, b, 0o755)
				}
			}
			return nil
		}
		r.Note("instrumented build failed, falling back to call-boundary interleaving: %s", trunc(string(out), 600))
	} else {
		r.Note("instrumentation failed, falling back to call-boundary interleaving: %v", ierr)
	}
	r.NotExhaustive("sources could not be instrumented: threads interleave only at call boundaries")
	args := []string{"build", "-race", "-tags", "verif"}
	if p := os.Getenv("VERIF_OVERLAY"); p != "" {
		args = append(args, "-overlay", p)
	}
	args = append(args, "-o", harness, "./checks/c17/harness")
	out, err := goCmd(args...).CombinedOutput()
	if err != nil {
		return fmt.Errorf("%s", out)
	}
	return nil
}

// ---- worker pool ----

type worker struct {
	cmd *exec.Cmd
	in  io.WriteCloser
	out *bufio.Reader
	dir string
}

func startWorker() (*worker, error) {
	logDir, err := os.MkdirTemp(workDir, "race-")
	if err != nil {
		return nil, err
	}
	cmd := exec.Command(harness, "-seed", fmt.Sprint(seedv))
	cmd.Env = append(os.Environ(), "GOMAXPROCS="+gomax(), "C17_RACELOG="+logDir, "GORACE=log_path="+filepath.Join(logDir, "race")+" halt_on_error=0 atexit_sleep_ms=0")
	in, err := cmd.StdinPipe()
	if err != nil {
		return nil, err
	}
	outp, err := cmd.StdoutPipe()
	if err != nil {
		return nil, err
	}
	cmd.Stderr = nil
	if err := cmd.Start(); err != nil {
		return nil, err
	}
	return &worker{cmd: cmd, in: in, out: bufio.NewReaderSize(outp, 1<<20), dir: logDir}, nil
}

func (w *worker) stop() {
	w.in.Close()
	done := make(chan struct{})
	go func() { w.cmd.Wait(); close(done) }()
	select {
	case <-done:
	case <-time.After(5 * time.Second):
		w.cmd.Process.Kill()
	}
	os.RemoveAll(w.dir)
}

// call executes one request; a worker that does not answer within the watchdog is
// killed (a thread blocked in a primitive the scheduler does not model).
func (w *worker) call(rq request) (*reply, error) {
	b, _ := json.Marshal(rq)
	if _, err := w.in.Write(append(b, '\n')); err != nil {
		return nil, err
	}
	type res struct {
		line []byte
		err  error
	}
	ch := make(chan res, 1)
	go func() {
		l, err := w.out.ReadBytes('\n')
		ch <- res{l, err}
	}()
	select {
	case x := <-ch:
		if x.err != nil && len(x.line) == 0 {
			return nil, fmt.Errorf("worker died: %v", x.err)
		}
		var rp reply
		if err := json.Unmarshal(x.line, &rp); err != nil {
			return nil, err
		}
		if rp.Err != "" {
			return nil, fmt.Errorf("%s", rp.Err)
		}
		return &rp, nil
	case <-time.After(90 * time.Second):
		w.cmd.Process.Kill()
		return nil, fmt.Errorf("no answer within 90 s (a thread is probably blocked in a primitive the scheduler does not model)")
	}
}

// sigOf: the stable identity of a C17 violation is the scenario (the combination of
// concurrent calls). Whether one and the same defect shows up as a race report, as an
// invalid result or as both depends on what the race detector has already reported in
// that worker process, so the kind goes into the description, not into the signature.
func sigOf(v violation) string {
	return "concurrent calls on the shared object race or return a result no sequential call could produce"
}

func describe(v violation) string {
	switch v.Kind {
	case "race":
		return "data race; conflicting accesses: " + v.Frames + "\n" + trunc(v.Detail, 1500)
	case "result":
		return "invalid result: " + trunc(v.Detail, 600)
	case "deadlock":
		return "deadlock among the concurrent calls"
	case "panic":
		return "panic in a concurrent call: " + trunc(v.Detail, 300)
	}
	return v.Kind
}

func trunc(s string, n int) string {
	if len(s) > n {
		return s[:n] + "…"
	}
	return s
}

func popcount(m uint16) int {
	n := 0
	for ; m != 0; m &= m - 1 {
		n++
	}
	return n
}

type scenStat struct {
	divNoted    bool
	executions  int
	transitions int64
	maxPoints   int
	threads     int
	byPre       map[string]int
	outcomes    map[string]int
	orders      map[string]bool
	complete    bool
	pending     int
	freeRace    string
	sample      []string
	raceSeen    bool
}

// runPass explores every scenario with the given granularity and pre-emption bound.
func runPass(r *mc.Run, pass string, coarse bool, bound int, budget time.Duration, fail func(error)) map[string]any {
	t0 := time.Now()
	if err := buildHarness(r, coarse); err != nil {
		fail(err)
	}
	buildS := time.Since(t0).Seconds()
	nw := runtime.NumCPU()
	if nw > 16 {
		nw = 16
	}
	out, err := exec.Command(harness, "-list").Output()
	if err != nil {
		r.Note("cannot list scenarios: %v", err)
	}
	scens := strings.Fields(string(out))
	if only := os.Getenv("C17_ONLY"); only != "" { // experiments: scenarios whose name contains the text
		var keep []string
		for _, s := range scens {
			if strings.Contains(s, only) {
				keep = append(keep, s)
			}
		}
		scens = keep
	}
	if s := os.Getenv("C17_BUDGET_S"); s != "" {
		var n int
		fmt.Sscan(s, &n)
		budget = time.Duration(n) * time.Second
	}
	deadline := time.Now().Add(budget)

	type job struct {
		scen   string
		prefix []int16
		free   bool
		probe  int // 1,2: determinism probes of the default schedule
	}
	stats := map[string]*scenStat{}
	for _, s := range scens {
		stats[s] = &scenStat{byPre: map[string]int{}, outcomes: map[string]int{}, orders: map[string]bool{}, complete: true}
	}
	var mu sync.Mutex
	cond := sync.NewCond(&mu)
	var stack []job
	inflight := 0
	// seed: per scenario the free-running cross-check, and the root twice (determinism)
	for i := len(scens) - 1; i >= 0; i-- {
		stack = append(stack, job{scen: scens[i], free: true}, job{scen: scens[i], probe: 2}, job{scen: scens[i], probe: 1})
	}
	rootTrace := map[string][]point{}
	abandoned := map[string]bool{}
	type pendingViol struct {
		c replayCase
		v *mc.Viol
	}
	var viols []pendingViol

	process := func(j job, rp *reply) {
		st := stats[j.scen]
		if j.free {
			if rp.Outcome != "free-ok" {
				st.freeRace = rp.Outcome + ": " + rp.FreeRace
			}
			return
		}
		if j.probe > 0 {
			// the default schedule is run twice: both runs must give the same trace
			other, ok := rootTrace[fmt.Sprintf("%s#%d", j.scen, 3-j.probe)]
			rootTrace[fmt.Sprintf("%s#%d", j.scen, j.probe)] = rp.Points
			if ok && !sameTrace(other, rp.Points) {
				// The code under test took different paths in two runs of one schedule (a pool that
				// hands out a recycled or a new object, depending on the P the goroutine runs on).
				// The schedule tree is then not a function of the choices: the exploration goes on,
				// because every execution is still judged on its own and every report still has to
				// reproduce twice in fresh processes, but nothing is claimed about coverage.
				st.complete = false
				r.Note("scenario %s: the default schedule is not deterministic (two runs gave different site traces); explored without a coverage claim", j.scen)
				r.NotExhaustive("scenario %s: nondeterministic trace, coverage not claimed", j.scen)
			}
			if j.probe == 2 {
				return
			}
		}
		if j.probe == 1 {
			for _, p := range rp.Points {
				if len(st.sample) < 30 {
					st.sample = append(st.sample, fmt.Sprintf("t%d@%d", p.R, p.S))
				}
			}
		}
		if abandoned[j.scen] {
			return
		}
		if rp.Diverged {
			if !st.divNoted {
				st.divNoted = true
				r.Note("scenario %s: replay divergence at prefix length %d; sub-tree abandoned (further divergences of this scenario are not listed)", j.scen, len(j.prefix))
				r.NotExhaustive("scenario %s: replay divergence", j.scen)
			}
			st.complete = false
			return
		}
		if rp.Overrun {
			r.NotExhaustive("scenario %s: scheduling point limit reached in an execution", j.scen)
			st.complete = false
		}
		st.executions++
		st.threads = rp.Threads
		st.transitions += int64(len(rp.Points))
		if len(rp.Points) > st.maxPoints {
			st.maxPoints = len(rp.Points)
		}
		st.outcomes[rp.Outcome]++
		pre := 0
		order := ""
		for _, p := range rp.Points {
			if !p.F && p.C != 0 {
				pre++
			}
			if p.S == -2 {
				order += fmt.Sprint(p.R)
			}
		}
		st.byPre[fmt.Sprint(pre)]++
		st.orders[rp.Outcome+"|"+order] = true
		if rp.Violation != nil {
			v := *rp.Violation
			if v.Kind == "race" {
				st.raceSeen = true
			}
			if len(viols) < 200 {
				viols = append(viols, pendingViol{replayCase{Scenario: v.Scenario, Schedule: v.Schedule, Instrumented: instr, Coarse: coarse, Kind: v.Kind}, &mc.Viol{Sig: v.Scenario + ": " + sigOf(v), What: describe(v)}})
			}
		}
		// children
		pre = 0
		for i, p := range rp.Points {
			if i >= len(j.prefix) {
				n := popcount(p.E)
				for alt := 1; alt < n; alt++ {
					c := pre
					if !p.F {
						c++
					}
					if c > bound {
						continue
					}
					child := make([]int16, i+1)
					for k := 0; k < i; k++ {
						child[k] = rp.Points[k].C
					}
					child[i] = int16(alt)
					stack = append(stack, job{scen: j.scen, prefix: child})
					st.pending++
				}
			}
			if !p.F && p.C != 0 {
				pre++
			}
		}
	}

	var wg sync.WaitGroup
	for wi := 0; wi < nw; wi++ {
		wg.Add(1)
		go func() {
			defer wg.Done()
			var w *worker
			served := 0
			defer func() {
				if w != nil {
					w.stop()
				}
			}()
			for {
				mu.Lock()
				for len(stack) == 0 && inflight > 0 {
					cond.Wait()
				}
				if len(stack) == 0 && inflight == 0 {
					mu.Unlock()
					cond.Broadcast()
					return
				}
				j := stack[len(stack)-1]
				stack = stack[:len(stack)-1]
				if len(j.prefix) > 0 {
					stats[j.scen].pending--
				}
				if time.Now().After(deadline) || abandoned[j.scen] {
					// budget: drop the job, remember that the scenario is incomplete
					if !abandoned[j.scen] {
						stats[j.scen].complete = false
					}
					mu.Unlock()
					continue
				}
				inflight++
				mu.Unlock()
				var rp *reply
				var err error
				if w != nil && served >= workerExecs() {
					w.stop()
					w, served = nil, 0
				}
				served++
				for attempt := 0; attempt < 2 && rp == nil; attempt++ {
					if w == nil {
						if w, err = startWorker(); err != nil {
							break
						}
					}
					rp, err = w.call(request{Scenario: j.scen, Prefix: j.prefix, Free: j.free})
					if err != nil {
						w.stop()
						w = nil
					}
				}
				mu.Lock()
				inflight--
				if rp == nil {
					r.Note("scenario %s: an execution could not be completed (%v); sub-tree abandoned", j.scen, err)
					r.NotExhaustive("scenario %s: an execution could not be completed", j.scen)
					stats[j.scen].complete = false
				} else {
					process(j, rp)
				}
				mu.Unlock()
				cond.Broadcast()
			}
		}()
	}
	wg.Wait()

	// confirm and report violations (each is replayed in fresh workers by mc)
	// whether the detector reports a given race in a given schedule also depends on the
	// process history (bounded shadow memory), so several candidate schedules are tried per signature
	tries := map[string]int{}
	firstDev := func(s []int16) int {
		for i, c := range s {
			if c != 0 {
				return i
			}
		}
		return len(s)
	}
	// Which candidates reproduce in a fresh process: observed, not explained - a race between a thread
	// that has run to completion and one that starts afterwards is often reported only deep into a
	// worker's life, while schedules in which the second thread has already started before the first
	// one's conflicting access (two or more switches, the last of them early) reproduce reliably.
	// So: interleaved candidates first (by position of their last switch), then the serial ones (by
	// position of their first switch).
	key := func(s []int16) (int, int) {
		n, last := 0, 0
		for i, c := range s {
			if c != 0 {
				n++
				last = i
			}
		}
		if n >= 2 {
			return 0, last
		}
		return 1, firstDev(s)
	}
	sort.SliceStable(viols, func(a, b int) bool {
		ka, pa := key(viols[a].c.Schedule)
		kb, pb := key(viols[b].c.Schedule)
		if ka != kb {
			return ka < kb
		}
		return pa < pb
	})
	for _, pv := range viols {
		if r.Recorded(pv.v.Sig) || tries[pv.v.Sig] >= 24 {
			continue
		}
		tries[pv.v.Sig]++
		r.Violation("schedule", pv.c, pv.v)
	}

	per := map[string]any{"preemption_bound": bound, "granularity": granularity[coarse]}
	names := append([]string{}, scens...)
	sort.Strings(names)
	freeOnly := 0
	for _, n := range names {
		st := stats[n]
		per[n] = map[string]any{"executions": st.executions, "transitions": st.transitions, "threads": st.threads, "max_points_per_execution": st.maxPoints,
			"complete_within_bound": st.complete, "by_preemptions": st.byPre, "distinct_observations(outcome x completion order)": len(st.orders), "free_run": map[bool]string{true: "no report", false: st.freeRace}[st.freeRace == ""]}
		if !st.complete {
			r.NotExhaustive("scenario %s not completed within the time budget (pass %s)", n, pass)
		}
		for o, c := range st.outcomes {
			r.Bulk(int64(c), 0, pass+"/"+n+":"+o)
		}
		r.Bulk(0, int64(st.executions), pass+"/"+n+":ok")
		r.AddStates(int64(st.executions))
		r.AddTransitions(st.transitions)
		r.AddTraces(int64(st.executions))
		if len(st.sample) > 0 {
			r.Sample(map[string]any{"pass": pass, "scenario": n, "default_schedule(thread@site)": st.sample})
		}
		if st.freeRace != "" && !st.raceSeen {
			freeOnly++
			r.Note("scenario %s: the free-running pass reported %s but no explored schedule showed a race; not a verdict (a free run is not replayable)", n, st.freeRace)
			r.NotExhaustive("free-running report in %s not reproduced by an explored schedule", n)
		}
	}
	per["build_s"] = float64(int(buildS*10)) / 10
	per["worker_processes"] = nw
	per["executions_per_worker_process"] = workerExecs()
	per["free_run_only_reports"] = freeOnly
	return per
}

func main() {
	r := mc.Start("C17", "model_checking")
	r.DisableStallWatchdog() // the harness workers are subprocesses; every pass has its own budget
	seedv = r.Seed
	root = r.Root
	var err error
	workDir, err = os.MkdirTemp("", "c17-")
	if err != nil {
		panic(err)
	}
	r.OnExit(func() { os.RemoveAll(workDir) })
	fail := func(err error) {
		fmt.Fprintln(os.Stderr, err)
		fmt.Fprintln(os.Stderr, "BUILD-FAILED C17: the harness does not build against the tree under test")
		os.RemoveAll(workDir)
		os.Exit(2)
	}
	r.RegisterReplay("schedule", func(pj json.RawMessage) *mc.Viol {
		var c replayCase
		json.Unmarshal(pj, &c)
		if err := buildHarness(r, c.Coarse); err != nil {
			return nil
		}
		// a fresh worker per attempt: the race detector reports a given race once per process
		for k := 0; k < 3; k++ {
			w, err := startWorker()
			if err != nil {
				continue
			}
			rp, err := w.call(request{Scenario: c.Scenario, Prefix: c.Schedule})
			w.stop()
			if err != nil || rp == nil {
				continue
			}
			if rp.Violation != nil {
				return &mc.Viol{Sig: c.Scenario + ": " + sigOf(*rp.Violation), What: describe(*rp.Violation)}
			}
		}
		return nil
	})
	if r.IsReplay() {
		r.DoReplay()
	}

	passes := map[string]any{}
	if r.Thorough() {
		passes["fine-granularity-bound-1"] = runPass(r, "fine-b1", false, 1, 420*time.Second, fail)
		passes["coarse-granularity-bound-2"] = runPass(r, "coarse-b2", true, 2, 600*time.Second, fail)
	} else {
		passes["coarse-granularity-bound-1"] = runPass(r, "coarse-b1", true, 1, 480*time.Second, fail)
	}
	r.Set("passes", passes)
	r.Set("instrumented", instr)
	r.SetRule("per pass and scenario (2-3 threads, one call each on one freshly constructed shared issuer / key): every schedule with at most the pass's number of pre-emptions at the inserted scheduling points, explored depth first from a central search tree; states = executions (stateless search: one state sequence per schedule), transitions = scheduling points executed; every execution is checked for race reports, result validity, deadlock and panics; distinct_nontrivial counts executions (each is a distinct schedule). Quick: one pass (coarse granularity, bound 1); thorough: fine granularity with bound 1, then coarse granularity with bound 2")
	r.Assume("calls into dependencies (circl, go-hpke, standard library) are atomic steps of a schedule; races inside them are still detected by happens-before analysis",
		"the race detector keeps a bounded access history per memory word, so a given race is reported in some schedules and not in others; exploring all schedules within the bound, each in a process of its own, is what makes the report reliable",
		"memory-model effects weaker than sequential consistency are covered only through the race detector",
		"client request states are not shared between threads (the statement promises sharing of issuers and keys only); responses are finalized after the join")
	r.Finish()
}

func sameTrace(a, b []point) bool {
	if len(a) != len(b) {
		return false
	}
	for i := range a {
		if a[i].S != b[i].S || a[i].R != b[i].R || a[i].E != b[i].E {
			return false
		}
	}
	return true
}

// workerExecs: how many executions one worker process serves before it is replaced by a fresh one
// (default 1). What the race detector reports for a schedule was measured to depend on what the
// process had executed before: after two or three executions of code that touches one and the same
// process-lifetime memory word without ordering (a package-level buffer shared by two calls, seed
// C08-Q) the very schedule that reports the race in a fresh process 64 times out of 64 reported it
// in fewer than half of the runs, and executions of other scenarios in between did not matter. With
// one execution per process the verdict on a schedule is a function of the schedule alone, and the
// confirmation in a fresh worker runs under the conditions of the exploration. Cost: a process start
// plus the sequential warm-up per execution (about 0.15 s; the detector's 1 s sleep at exit is off).
func workerExecs() int {
	n := 1
	if s := os.Getenv("C17_WORKER_EXECS"); s != "" {
		fmt.Sscan(s, &n)
	}
	if n < 1 {
		n = 1
	}
	return n
}

// gomax: the harness workers run with two Ps. Only one managed thread executes at any time (the
// others spin in the scheduler), but with a single P the race detector was observed to stay silent
// about conflicts between goroutines that take turns on that P (a whole class of seeded races - a
// pool entry handed out twice, a conflict between a finished thread and one started later - was
// reported with GOMAXPROCS >= 2 and not with 1).
func gomax() string {
	if s := os.Getenv("C17_GOMAXPROCS"); s != "" {
		return s
	}
	return "2"
}
