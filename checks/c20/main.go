// C20: origin names are recovered exactly; their length leaks only in 32-byte buckets.
//
// (a) every name length 0..65535 x content patterns through the real padding
// functions (verif hooks VerifPad / VerifUnpad); (b) every length 0..130 (quick) /
// 0..4128 (thorough) x two content patterns end to end through the real client and
// the real issuer: the registered name is served, every similar name is refused,
// and the request length on the wire is base + 32*blocks(name).
package main

import (
	"bytes"
	"crypto/elliptic"
	"encoding/json"
	"fmt"
	"math/big"
	"strconv"
	"strings"
	"sync"
	"unsafe"

	"github.com/cloudflare/pat-go/ecdsa"
	"github.com/cloudflare/pat-go/tokens/type3"

	"verif/mc"
	"verif/px"
)

var seedBase int64

func trunc(s string, n int) string {
	if len(s) > n {
		return s[:n]
	}
	return s
}

// blocks is the number of 32-byte blocks needed to hold n bytes, one for the empty name.
func blocks(n int) int {
	b := 0
	for b*32 < n {
		b++
	}
	if b == 0 {
		b = 1
	}
	return b
}

// ---- (a) padding functions -----------------------------------------------------------------

const maxLen = 65535

var (
	drbgOnce sync.Once
)

// last bytes used by the "interior zeros" pattern; 7 values, so that (length mod 7,
// length mod 32) takes every combination over the enumerated lengths
var lastBytes = []byte{0x01, ' ', '\t', '\n', 0xff, 0x80, 'a'}

var padPatterns = []string{"all 'a'", "drbg bytes, last byte non-zero", "zero bytes, last byte from {01,20,09,0a,ff,80,61}", "zero bytes except first and last"}

var aStr = strings.Repeat("a", maxLen)
var drbgStr string

// padName returns the name of length n for a pattern. scratch is an all-zero buffer
// of at least n bytes that the result may alias (released by releaseName); nil = allocate.
func padName(n, pattern int, scratch []byte) string {
	if n == 0 {
		return ""
	}
	drbgOnce.Do(func() { drbgStr = string(mc.Fill(seedBase, "c20-drbg-name", maxLen)) })
	switch pattern {
	case 0:
		return aStr[:n]
	case 1:
		if drbgStr[n-1] != 0 {
			return drbgStr[:n]
		}
	}
	if scratch == nil {
		scratch = make([]byte, n)
	}
	b := scratch[:n]
	switch pattern {
	case 1:
		copy(b, drbgStr[:n])
		b[n-1] = 0x5a
	case 2:
		b[n-1] = lastBytes[n%len(lastBytes)]
	case 3:
		b[0] = 'x'
		b[n-1] = 'y'
	}
	return unsafe.String(&b[0], n)
}

func releaseName(n, pattern int, scratch []byte) {
	if n == 0 || scratch == nil {
		return
	}
	if pattern == 1 {
		clear(scratch[:n])
		return
	}
	scratch[0], scratch[n-1] = 0, 0
}

type padCase struct {
	Len     int `json:"name_len"`
	Pattern int `json:"pattern"`
}

func checkPad(c padCase, scratch []byte) *mc.Viol {
	name := padName(c.Len, c.Pattern, scratch)
	defer releaseName(c.Len, c.Pattern, scratch)
	id := fmt.Sprintf("len=%d pattern=%q", c.Len, padPatterns[c.Pattern])
	var padded []byte
	if p := mc.Catch(func() { padded = type3.VerifPad(name) }); p != "" {
		return &mc.Viol{Sig: "padOriginName panics", What: id + ": " + p}
	}
	want := 32 * blocks(c.Len)
	cls := fmt.Sprintf("len%%32=%s", lenClass(c.Len))
	if len(padded) != want {
		return &mc.Viol{Sig: "padded length is not 32*max(1,ceil(len/32)) " + cls, What: fmt.Sprintf("%s: padded to %d bytes, want %d", id, len(padded), want)}
	}
	if string(padded[:c.Len]) != name {
		return &mc.Viol{Sig: "padded name does not start with the name", What: id}
	}
	for _, x := range padded[c.Len:] {
		if x != 0 {
			return &mc.Viol{Sig: "padding contains a non-zero byte", What: id}
		}
	}
	var back string
	if p := mc.Catch(func() { back = type3.VerifUnpad(padded) }); p != "" {
		return &mc.Viol{Sig: "unpadOriginName panics", What: id + ": " + p}
	}
	if back != name {
		return &mc.Viol{Sig: "unpad(pad(name)) != name, pattern " + padPatterns[c.Pattern], What: fmt.Sprintf("%s: recovered %d bytes", id, len(back))}
	}
	return nil
}

func lenClass(n int) string {
	switch {
	case n == 0:
		return "empty"
	case n%32 == 0:
		return "0"
	case n%32 == 1:
		return "1"
	case n%32 == 31:
		return "31"
	}
	return "2..30"
}

// ---- (b) end to end ------------------------------------------------------------------------

func p384Scalar(label string) []byte {
	n := elliptic.P384().Params().N
	v := new(big.Int).SetBytes(mc.Fill(seedBase, "sc-"+label, 56))
	v.Mod(v, new(big.Int).Sub(n, big.NewInt(1)))
	v.Add(v, big.NewInt(1))
	return v.FillBytes(make([]byte, 48))
}

var e2ePatterns = []string{"lower-case letters", "binary with interior zero bytes", "one or two leading zero bytes, then letters", "special name"}

// e2eName never ends in a zero byte, and neither does the name without its last byte.
// special registered names with neighbours of their own (pattern 3; Len indexes this table): names
// that text processing could read as patterns or lists
var specialNames = []struct {
	name       string
	neighbours []string
}{
	{"*.shop.example", []string{"a.shop.example", "shop.example", ".shop.example", "x.y.shop.example", "*.example", "*"}},
	{"shop.example", []string{"*.example", "*.shop.example", "a.shop.example", "shop.example.", "SHOP.example", "shop.example:443", "shop.example,other.example", "https://shop.example"}},
	{"a.example,b.example", []string{"a.example", "b.example", "a.example,b.example,c.example", "a.example, b.example"}},
	{"%2e.example", []string{"..example", "%2E.example", "%.example"}},
	{"xn--bcher-kva.example", []string{"bücher.example", "xn--bcher-kva.example.", "XN--BCHER-KVA.example"}},
}

func e2eName(n, pattern int) []byte {
	if pattern == 3 {
		return []byte(specialNames[n].name)
	}
	b := mc.Fill(seedBase, fmt.Sprintf("c20-origin-%d-%d", n, pattern), n)
	for i := range b {
		switch pattern {
		case 0:
			b[i] = 'a' + b[i]%26
		case 1:
			if i%3 == 1 && i < n-2 {
				b[i] = 0
			} else if b[i] == 0 || i == n-1 && (b[i] == 0x20 || b[i] == 0x01) {
				b[i] = 0x42 // never zero; the last byte also survives ^20 and ^01, so the neighbour set does not depend on the seed
			}
		case 2:
			// names may BEGIN with zero bytes (only a trailing zero byte is excluded by the statement)
			if i < 1+n%2 && i < n-1 {
				b[i] = 0
			} else {
				b[i] = 'a' + b[i]%26
			}
		}
	}
	return b
}

type neighbour struct {
	Kind string
	Name []byte
}

func cat(parts ...[]byte) []byte {
	var out []byte
	for _, p := range parts {
		out = append(out, p...)
	}
	return out
}

// neighbours lists the similar names of the statement; none ends in a zero byte and none equals name.
func neighbours(name []byte) []neighbour {
	L := len(name)
	z := 32*blocks(L) - L // zero bytes the padding adds
	var out []neighbour
	add := func(kind string, b []byte) {
		if len(b) > 0 && b[len(b)-1] == 0 {
			return // the statement excludes names ending in a zero byte
		}
		if bytes.Equal(b, name) {
			return
		}
		for _, o := range out {
			if bytes.Equal(o.Name, b) {
				return
			}
		}
		out = append(out, neighbour{kind, b})
	}
	if L > 0 {
		for _, x := range []byte{0x20, 0x01} {
			c := append([]byte{}, name...)
			c[L-1] ^= x
			add(fmt.Sprintf("last byte ^ %02x", x), c)
		}
		add("without last byte", append([]byte{}, name[:L-1]...))
	}
	// leading zero bytes are part of the name: with and without them are different origins
	if L > 1 && name[0] == 0 {
		add("without the leading zero bytes", bytes.TrimLeft(name, "\x00"))
		add("without the first leading zero byte", append([]byte{}, name[1:]...))
	}
	add("00+name", cat([]byte{0}, name))
	add("name+'a'", cat(name, []byte("a")))
	add("name+' '", cat(name, []byte(" ")))
	add("name+01", cat(name, []byte{1}))
	add("name + zeros to the block boundary + 'a'", cat(name, make([]byte, z), []byte("a")))
	if z >= 2 {
		add("name+00+'a' (same block)", cat(name, []byte{0, 'a'}))
		add("name + zeros + 'a' filling the block", cat(name, make([]byte, z-1), []byte("a")))
	}
	add("name + one whole block of zeros + 'a'", cat(name, make([]byte, z+32), []byte("a")))
	return out
}

type e2eCase struct {
	Len     int `json:"name_len"`
	Pattern int `json:"pattern"`
	RSA     int `json:"rsa_key"`
}

func (c e2eCase) label() string { return fmt.Sprintf("e2e-l%d-p%d-r%d", c.Len, c.Pattern, c.RSA) }

type e2eResult struct {
	v       *mc.Viol
	served  int
	refused int
	lens    map[int]int // blocks -> wire length seen
}

// wireBase is len(request for the empty name) - 32, measured once per process (0 = not yet).
var (
	baseOnce sync.Once
	wireBase int
	baseErr  string
)

func measureBase() {
	baseOnce.Do(func() {
		done := make(chan struct{})
		go func() { // own goroutine = own entropy stream
			defer close(done)
			if p := mc.CatchStack(func() {
				mc.Entropy("c20-base")
				w := px.NewW3(0)
				st, err := w.Create(px.T3Args{Secret: p384Scalar("base-sec"), Blind: p384Scalar("base-bl"), Challenge: mc.Fill(seedBase, "base-chal", 32),
					Nonce: mc.Fill(seedBase, "base-nonce", 32), Origin: ""})
				if err != nil {
					baseErr = "client cannot create a request for the empty name: " + err.Error()
					return
				}
				wireBase = len(st.Request().Marshal()) - 32
			}); p != "" {
				baseErr = "client panics on the empty name: " + p
			}
		}()
		<-done
	})
}

func runE2E(c e2eCase) (res e2eResult) {
	res.lens = map[int]int{}
	measureBase()
	if baseErr != "" {
		res.v = &mc.Viol{Sig: "request for the empty origin name cannot be created", What: baseErr}
		return
	}
	mc.Entropy("c20-" + c.label())
	name := e2eName(c.Len, c.Pattern)
	id := fmt.Sprintf("len=%d pattern=%q", c.Len, e2ePatterns[c.Pattern])
	w := px.NewW3(c.RSA)
	if c.Len%2 == 1 || c.Pattern == 3 {
		// the issuer is already in service when the origin is added: it has served a request for
		// another origin, and the case's origin arrives with an index key of its own
		if err := w.Issuer.AddOrigin("decoy.example"); err != nil {
			panic("harness: AddOrigin: " + err.Error())
		}
		dst, err := w.Create(px.T3Args{Secret: p384Scalar("sec-decoy-" + c.label()), Blind: p384Scalar("bl-decoy-" + c.label()), Challenge: mc.Fill(seedBase, "chal-decoy", 32), Nonce: mc.Fill(seedBase, "nonce-decoy", 32), Origin: "decoy.example"})
		if err == nil {
			_, _, _ = w.Issuer.Evaluate(append([]byte{}, dst.Request().Marshal()...))
		}
		ik, err := ecdsa.CreateKey(elliptic.P384(), p384Scalar("indexkey-"+c.label()))
		if err != nil {
			panic("harness: " + err.Error())
		}
		if err := w.Issuer.AddOriginWithIndexKey(string(name), ik); err != nil {
			res.v = &mc.Viol{Sig: "issuer refuses to register an origin name that does not end in a zero byte (" + e2ePatterns[c.Pattern] + ")", What: fmt.Sprintf("%s: %v", id, err)}
			return
		}
	} else if err := w.Issuer.AddOrigin(string(name)); err != nil {
		// the name does not end in a zero byte: it is a legal origin name and must be registrable
		res.v = &mc.Viol{Sig: "issuer refuses to register an origin name that does not end in a zero byte (" + e2ePatterns[c.Pattern] + ")", What: fmt.Sprintf("%s: %v", id, err)}
		return
	}
	// ONE client object makes all requests of the case (the registered name first, then every
	// neighbour: shorter ones after longer ones, longer ones after shorter ones)
	cl := type3.NewRateLimitedClientFromSecret(p384Scalar("sec-" + c.label()))
	args := func(origin []byte, tag string) px.T3Args {
		return px.T3Args{Secret: p384Scalar("sec-" + c.label()), Blind: p384Scalar("bl-" + c.label() + tag), Challenge: mc.Fill(seedBase, "chal-"+c.label(), 32),
			Nonce: mc.Fill(seedBase, "nonce-"+c.label()+tag, 32), Origin: string(origin), Client: &cl}
	}
	// one request: create, measure, evaluate from bytes
	do := func(origin []byte, kind string, wantServed bool) *mc.Viol {
		var reqBytes []byte
		var err error
		if p := mc.CatchStack(func() {
			var st type3.RateLimitedTokenRequestState
			st, err = w.Create(args(origin, kind))
			if err == nil {
				reqBytes = append([]byte{}, st.Request().Marshal()...)
			}
		}); p != "" {
			return &mc.Viol{Sig: "client panics creating a request (" + lenClass(len(origin)) + ")", What: fmt.Sprintf("%s, requested %q (%d bytes): %s", id, kind, len(origin), p)}
		}
		if err != nil {
			return &mc.Viol{Sig: "client fails creating a request", What: fmt.Sprintf("%s, requested %q (%d bytes): %v", id, kind, len(origin), err)}
		}
		bl := blocks(len(origin))
		if want := wireBase + 32*bl; len(reqBytes) != want {
			return &mc.Viol{Sig: "request length on the wire is not base+32*blocks(name), len%32=" + lenClass(len(origin)),
				What: fmt.Sprintf("%s, requested %q: name of %d bytes (%d blocks) gives a request of %d bytes, want %d (base %d from the empty name)", id, kind, len(origin), bl, len(reqBytes), want, wireBase)}
		}
		res.lens[bl] = len(reqBytes)
		var resp, brk []byte
		if p := mc.CatchStack(func() { resp, brk, err = w.Issuer.Evaluate(reqBytes) }); p != "" {
			return &mc.Viol{Sig: "issuer panics evaluating an honest request", What: fmt.Sprintf("%s, requested %q: %s", id, kind, p)}
		}
		if wantServed {
			if err != nil || len(resp) == 0 || len(brk) == 0 {
				return &mc.Viol{Sig: "request for the registered origin is refused, len%32=" + lenClass(len(origin)), What: fmt.Sprintf("%s: %v", id, err)}
			}
			res.served++
			return nil
		}
		if err == nil {
			return &mc.Viol{Sig: "request for an unregistered similar name is served: " + kind, What: fmt.Sprintf("%s registered; requested %q (%d bytes) was served", id, kind, len(origin))}
		}
		if resp != nil || brk != nil {
			return &mc.Viol{Sig: "refused request still returns outputs", What: fmt.Sprintf("%s, requested %q", id, kind)}
		}
		res.refused++
		return nil
	}
	if v := do(name, "the registered name", true); v != nil {
		res.v = v
		return
	}
	nbs := neighbours(name)
	if c.Pattern == 3 {
		for _, n := range specialNames[c.Len].neighbours {
			nbs = append(nbs, neighbour{"look-alike " + strconv.Quote(n), []byte(n)})
		}
	}
	for _, nb := range nbs {
		if v := do(nb.Name, nb.Kind, false); v != nil {
			res.v = v
			return
		}
	}
	return
}

func runE2ESafe(c e2eCase) (res e2eResult) {
	if p := mc.CatchStack(func() { res = runE2E(c) }); p != "" {
		panic("harness: " + p)
	}
	return
}

func main() {
	r := mc.Start("C20", "exploration")
	seedBase = r.Seed
	mc.InstallDRBG(r.Seed)
	r.RegisterReplay("pad", func(pj json.RawMessage) *mc.Viol {
		var c padCase
		json.Unmarshal(pj, &c)
		return checkPad(c, nil)
	})
	r.RegisterReplay("e2e", func(pj json.RawMessage) *mc.Viol {
		var c e2eCase
		json.Unmarshal(pj, &c)
		return runE2ESafe(c).v
	})
	if r.IsReplay() {
		r.DoReplay()
	}
	px.RSAKeys()

	// (a) every length, every pattern; chunks of 64 lengths per work item
	const chunk = 64
	nChunks := (maxLen + 1 + chunk - 1) / chunk
	r.Par(nChunks, func(ci int) {
		var ok, nt int64
		scratch := make([]byte, maxLen)
		for n := ci * chunk; n < (ci+1)*chunk && n <= maxLen; n++ {
			for p := range padPatterns {
				if n == 0 && p > 0 || n == 1 && p == 3 {
					continue // same name as an earlier pattern
				}
				c := padCase{Len: n, Pattern: p}
				if v := checkPad(c, scratch); v != nil {
					r.Violation("pad", c, v)
					r.Bulk(1, 1, "pad: "+v.Sig)
					continue
				}
				ok++
				nt++
			}
		}
		r.Bulk(ok, nt, "pad: exact recovery and 32-byte bucket")
	})
	r.Sample(padCase{Len: 0, Pattern: 0})
	r.Sample(padCase{Len: 32, Pattern: 2})
	r.Sample(padCase{Len: 65535, Pattern: 1})

	// (b) end to end
	var lens []int
	for n := 0; n <= mc.Pick(r, 130, 4128); n++ {
		lens = append(lens, n)
	}
	lens = append(lens, mc.Pick(r, []int{1023, 1024, 1025, 2047, 2048, 2049, 4096, 8192, 16384, 65000}, []int{8191, 8192, 8193, 16384, 32767, 32768, 32769, 60000, 65000})...)
	var cases []e2eCase
	for _, n := range lens {
		for p := range e2ePatterns[:3] {
			if n == 0 && p > 0 {
				continue
			}
			cases = append(cases, e2eCase{Len: n, Pattern: p, RSA: (n + p) % 4})
		}
	}
	for i := range specialNames {
		cases = append(cases, e2eCase{Len: i, Pattern: 3, RSA: i % 4})
	}
	var mu sync.Mutex
	byBlocks := map[int]map[int]bool{} // blocks -> set of wire lengths
	r.Par(len(cases), func(i int) {
		if r.OutOfTime() {
			r.NotExhaustive("time budget reached in the end-to-end part")
			return
		}
		c := cases[i]
		res := runE2ESafe(c)
		if res.v != nil {
			r.Violation("e2e", c, res.v)
			r.Case(c.label(), true, "e2e: "+res.v.Sig)
		} else {
			r.Case(c.label(), true, "e2e: registered name served, every neighbour refused, wire length in bucket")
		}
		r.Bulk(int64(res.served), 0, "e2e request served")
		r.Bulk(int64(res.refused), 0, "e2e request refused")
		mu.Lock()
		for b, l := range res.lens {
			if byBlocks[b] == nil {
				byBlocks[b] = map[int]bool{}
			}
			byBlocks[b][l] = true
		}
		mu.Unlock()
		if i%(len(cases)/4+1) == 0 {
			r.Sample(c)
		}
	})
	// cross-case statement of the bucket property (implied by the per-request formula; kept as a harness self-check)
	for b, set := range byBlocks {
		if len(set) != 1 {
			r.Note("block count %d produced %d different request lengths although every request matched base+32*blocks", b, len(set))
		}
	}

	r.SetRule("(a) name length 0..65535 x content pattern through VerifPad/VerifUnpad, distinct by construction; (b) name length x content pattern end to end: one issuer per case with exactly the name registered, one request for the name and one per similar name (last byte changed, one byte longer, one byte shorter, zero bytes then 'a' inside the block / at the block boundary / one block further), each request created by the real client, measured, and evaluated by the real issuer from its bytes. Non-trivial = every case (each reaches the comparison)")
	r.Assume("names never end in a zero byte (excluded by the statement); neighbour names ending in a zero byte are skipped",
		"name lengths whose padded form does not fit the 16-bit length-prefixed ciphertext field (> ~65200 bytes) cannot be sent at all and are outside the end-to-end part; the hook-level part covers every length up to 65535",
		"wire length oracle: base + 32*blocks(name) with base measured from the request for the empty name",
		"name contents are fixed patterns / DRBG filler, not all byte strings; the issuer's name key, index keys, client secret and blinds come from a per-case SHA-256 counter DRBG",
		"the attester is not involved; requests go client -> bytes -> issuer.Evaluate")
	r.Set("dimensions", map[string]any{"pad_lengths": "0..65535", "pad_patterns": padPatterns, "e2e_lengths": fmt.Sprintf("0..%d plus %v", mc.Pick(r, 130, 4128), lens[len(lens)-mc.Pick(r, 3, 8):]),
		"e2e_patterns": e2ePatterns, "e2e_cases": len(cases), "wire_base": wireBase, "distinct_block_counts_seen": len(byBlocks)})
	r.Finish()
}
