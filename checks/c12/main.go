// C12: ECDSA key blinding is consistent, invertible, commutative and context-bound.
//
// Bounded exhaustive enumeration on the real /repo/ecdsa package: four curves x
// signing scalars x blind-key encodings x contexts x digest lengths, all pairs of
// blinds for commutativity and separation. The blinding factor is recomputed by a
// reference written from RFC 9380 (expand_message_xmd + hash_to_field, section 5)
// on top of crypto/sha256, crypto/sha512 and math/big only; curve arithmetic of the
// reference is crypto/elliptic; the second verifier is crypto/ecdsa.
package main

import (
	"bytes"
	stdecdsa "crypto/ecdsa"
	"crypto/elliptic"
	"crypto/sha256"
	"crypto/sha512"
	"encoding/hex"
	"encoding/json"
	"fmt"
	"hash"
	"math/big"

	"github.com/cloudflare/pat-go/ecdsa"

	"verif/mc"
)

// ---------------------------------------------------------------------------------------
// reference: RFC 9380 section 5.3.1 expand_message_xmd and section 5.2 hash_to_field (m=1)

func expandMessageXMD(newH func() hash.Hash, msg, dst []byte, lenInBytes int) []byte {
	h := newH()
	bInBytes := h.Size()
	sInBytes := h.BlockSize()
	ell := (lenInBytes + bInBytes - 1) / bInBytes
	if ell > 255 || lenInBytes > 65535 || len(dst) > 255 {
		panic("expand_message_xmd: parameters out of range")
	}
	dstPrime := append(append([]byte{}, dst...), byte(len(dst)))
	// msg_prime = Z_pad || msg || l_i_b_str || I2OSP(0,1) || DST_prime
	h.Write(make([]byte, sInBytes))
	h.Write(msg)
	h.Write([]byte{byte(lenInBytes >> 8), byte(lenInBytes)})
	h.Write([]byte{0})
	h.Write(dstPrime)
	b0 := h.Sum(nil)
	h.Reset()
	h.Write(b0)
	h.Write([]byte{1})
	h.Write(dstPrime)
	bi := h.Sum(nil)
	uniform := append([]byte{}, bi...)
	for i := 2; i <= ell; i++ {
		x := make([]byte, bInBytes)
		for j := range x {
			x[j] = b0[j] ^ bi[j]
		}
		h.Reset()
		h.Write(x)
		h.Write([]byte{byte(i)})
		h.Write(dstPrime)
		bi = h.Sum(nil)
		uniform = append(uniform, bi...)
	}
	return uniform[:lenInBytes]
}

// hashToFieldOne: count = 1, m = 1: OS2IP(expand(msg, DST, L)) mod p.
func hashToFieldOne(newH func() hash.Hash, msg, dst []byte, L int, p *big.Int) *big.Int {
	u := expandMessageXMD(newH, msg, dst, L)
	e := new(big.Int).SetBytes(u)
	return e.Mod(e, p)
}

var blindDST = []byte("ECDSA Key Blind")

// xmdSelfTest: RFC 9380 appendix K.1 / K.3 vectors. A failure is the harness's own trouble.
func xmdSelfTest() string {
	type tv struct {
		h        func() hash.Hash
		dst, msg string
		n        int
		want     string
	}
	for _, v := range []tv{
		{sha256.New, "QUUX-V01-CS02-with-expander-SHA256-128", "", 0x20, "68a985b87eb6b46952128911f2a4412bbc302a9d759667f87f7a21d803f07235"},
		{sha256.New, "QUUX-V01-CS02-with-expander-SHA256-128", "abc", 0x20, "d8ccab23b5985ccea865c6c97b6e5b8350e794e603b4b97902f53a8a0d605615"},
		{sha256.New, "QUUX-V01-CS02-with-expander-SHA256-128", "abc", 0x80, "abba86a6129e366fc877aab32fc4ffc70120d8996c88aee2fe4b32d6c7b6437a647e6c3163d40b76a73cf6a5674ef1d890f95b664ee0afa5359a5c4e07985635bbecbac65d747d3d2da7ec2b8221b17b0ca9dc8a1ac1c07ea6a1e60583e2cb00058e77b7b72a298425cd1b941ad4ec65e8afc50303a22c0f99b0509b4c895f40"},
		{sha512.New, "QUUX-V01-CS02-with-expander-SHA512-256", "", 0x20, "6b9a7312411d92f921c6f68ca0b6380730a1a4d982c507211a90964c394179ba"},
		{sha512.New, "QUUX-V01-CS02-with-expander-SHA512-256", "abc", 0x80, "7f1dddd13c08b543f2e2037b14cefb255b44c83cc397c1786d975653e36a6b11bdd7732d8b38adb4a0edc26a0cef4bb45217135456e58fbca1703cd6032cb1347ee720b87972d63fbf232587043ed2901bce7f22610c0419751c065922b488431851041310ad659e4b23520e1772ab29dcdeb2002222a363f0c2b1c972b3efe1"},
	} {
		got := hex.EncodeToString(expandMessageXMD(v.h, []byte(v.msg), []byte(v.dst), v.n))
		if got != v.want {
			return fmt.Sprintf("expand_message_xmd reference disagrees with RFC 9380 vector (msg %q len %d)", v.msg, v.n)
		}
	}
	return ""
}

// ---------------------------------------------------------------------------------------
// curves and alphabets

type curveInfo struct {
	Name string
	C    elliptic.Curve
	H    func() hash.Hash
	L    int
}

var curves = []*curveInfo{
	{"P-224", elliptic.P224(), sha256.New, 32},
	{"P-256", elliptic.P256(), sha256.New, 48},
	{"P-384", elliptic.P384(), sha512.New384, 72},
	{"P-521", elliptic.P521(), sha512.New, 98},
}

func curveByName(n string) *curveInfo {
	for _, c := range curves {
		if c.Name == n {
			return c
		}
	}
	return nil
}

func (ci *curveInfo) N() *big.Int  { return ci.C.Params().N }
func (ci *curveInfo) byteLen() int { return (ci.C.Params().N.BitLen() + 7) / 8 }

// refFactor = hash_to_field(minimal big-endian bytes(D) || 0x00 || ctx).
func (ci *curveInfo) refFactor(D *big.Int, ctx []byte) *big.Int {
	msg := append([]byte{}, D.Bytes()...) // big.Int.Bytes is the minimal big-endian magnitude
	msg = append(msg, 0x00)
	msg = append(msg, ctx...)
	return hashToFieldOne(ci.H, msg, blindDST, ci.L, ci.N())
}

type named struct {
	Name string
	B    []byte
	Nil  bool // pass a nil slice (contexts only)
}

var one = big.NewInt(1)

// fillScalar: filler value in [1, N-1].
func fillScalar(ci *curveInfo, seed int64, label string) *big.Int {
	b := mc.Fill(seed, "c12-"+ci.Name+"-"+label, ci.byteLen()+8)
	v := new(big.Int).SetBytes(b)
	v.Mod(v, new(big.Int).Sub(ci.N(), one))
	return v.Add(v, one)
}

func fixed(v *big.Int, n int) []byte { return v.FillBytes(make([]byte, n)) }

// signing scalars: values in [1, N-1] only (valid key pairs), several encodings.
func signScalars(ci *curveInfo, seed int64, thorough bool) []named {
	N := ci.N()
	bl := ci.byteLen()
	f := fillScalar(ci, seed, "sign")
	short := new(big.Int).Rsh(fillScalar(ci, seed, "sign-short"), 16) // top two bytes of the field width are zero
	if short.Sign() == 0 {
		short.SetInt64(3)
	}
	out := []named{
		{Name: "1", B: []byte{1}},
		{Name: "N-1", B: new(big.Int).Sub(N, one).Bytes()},
		{Name: "fill/fixed-width", B: fixed(f, bl)},
		{Name: "00||short (leading zero bytes, fixed width)", B: fixed(short, bl)},
	}
	if thorough {
		f2 := fillScalar(ci, seed, "sign2")
		out = append(out,
			named{Name: "2", B: []byte{2}},
			named{Name: "00||fill2 (longer than the field)", B: append([]byte{0}, fixed(f2, bl)...)},
			named{Name: "short/minimal", B: short.Bytes()},
			named{Name: "2^(bits-2)", B: new(big.Int).Lsh(one, uint(N.BitLen()-2)).Bytes()},
		)
	}
	return out
}

// blind scalars: arbitrary byte strings given to CreateKey; D = OS2IP(bytes).
func blindScalars(ci *curveInfo, seed int64, thorough bool) []named {
	N := ci.N()
	bl := ci.byteLen()
	f := fillScalar(ci, seed, "blind")
	short := new(big.Int).Rsh(fillScalar(ci, seed, "blind-short"), 8)
	if short.Sign() == 0 {
		short.SetInt64(5)
	}
	out := []named{
		{Name: "1", B: []byte{1}},
		{Name: "2", B: []byte{2}},
		{Name: "07", B: []byte{7}},
		{Name: "0700 (ends in a zero byte)", B: []byte{7, 0}},
		{Name: "N-1", B: new(big.Int).Sub(N, one).Bytes()},
		{Name: "N", B: N.Bytes()},
		{Name: "N+1", B: new(big.Int).Add(N, one).Bytes()},
		{Name: "fill", B: f.Bytes()},
		{Name: "00||fill", B: append([]byte{0}, f.Bytes()...)},
		{Name: "short (top byte of field width zero), minimal", B: short.Bytes()},
		{Name: "short, fixed width (leading zero)", B: fixed(short, bl)},
		{Name: "fill+N", B: new(big.Int).Add(f, N).Bytes()},
		{Name: "70 x ff (longer than the field)", B: bytes.Repeat([]byte{0xff}, 70)},
		// D = 0: the blind key bytes are the empty string, the factor hash_to_field(00 || context) is as
		// well defined as any other
		{Name: "zero (fixed width)", B: make([]byte, bl)},
		{Name: "zero (empty encoding)", B: []byte{}},
	}
	if thorough {
		out = append(out,
			named{Name: "0000||07", B: []byte{0, 0, 7}},
			named{Name: "2^(8*fieldlen)", B: append([]byte{1}, make([]byte, bl)...)},
			named{Name: "2N-1", B: new(big.Int).Sub(new(big.Int).Lsh(N, 1), one).Bytes()},
			named{Name: "fill2", B: fillScalar(ci, seed, "blind2").Bytes()},
			named{Name: "2^(bits-1)", B: new(big.Int).Lsh(one, uint(N.BitLen()-1)).Bytes()},
		)
	}
	return out
}

func contexts(seed int64, thorough bool) []named {
	out := []named{
		{Name: "nil", Nil: true},
		{Name: "empty", B: []byte{}},
		{Name: "00", B: []byte{0}},
		{Name: "05", B: []byte{5}},
		{Name: "0005", B: []byte{0, 5}},
		{Name: "32 bytes", B: mc.Fill(seed, "c12-ctx-32", 32)},
		{Name: "300 bytes", B: mc.Fill(seed, "c12-ctx-300", 300)},
	}
	if thorough {
		for _, n := range []int{1, 55, 63, 64, 65, 127, 128, 1000} {
			out = append(out, named{Name: fmt.Sprintf("%d bytes", n), B: mc.Fill(seed, fmt.Sprintf("c12-ctx-%d", n), n)})
		}
	}
	return out
}

func (n named) ctx() []byte {
	if n.Nil {
		return nil
	}
	return n.B
}

// ---------------------------------------------------------------------------------------
// cases

type keyRef struct {
	Curve   string `json:"curve"`
	SKName  string `json:"signing_scalar"`
	SK      string `json:"signing_key_bytes_hex"`
	BKName  string `json:"blind_scalar"`
	BK      string `json:"blind_key_bytes_hex"`
	CtxName string `json:"context"`
	Ctx     string `json:"context_hex"`
	CtxNil  bool   `json:"context_nil"`
	// BKObj: how the blinding key OBJECT is built from its bytes: "" on the operation's own curve,
	// "other-curve" with CreateKey on another curve, "bare" as &PrivateKey{D: ...} without curve or
	// public part. Only its scalar bytes enter the blinding factor; the curve is the operation's.
	BKObj string `json:"blind_key_object,omitempty"`
}

func (k keyRef) label() string {
	return k.Curve + "|" + k.SKName + "|" + k.BKName + "|" + k.CtxName
}

func mkRef(ci *curveInfo, sk, bk, ctx named) keyRef {
	return keyRef{Curve: ci.Name, SKName: sk.Name, SK: hex.EncodeToString(sk.B), BKName: bk.Name, BK: hex.EncodeToString(bk.B),
		CtxName: ctx.Name, Ctx: hex.EncodeToString(ctx.B), CtxNil: ctx.Nil}
}

type mat struct {
	ci       *curveInfo
	skS, skB *ecdsa.PrivateKey
	dS, dB   *big.Int
	pkX, pkY *big.Int // reference public key dS*G
	ctx      []byte
	f        *big.Int // reference factor
}

func createKey(ci *curveInfo, b []byte) (k *ecdsa.PrivateKey, v *mc.Viol) {
	var err error
	if p := mc.Catch(func() { k, err = ecdsa.CreateKey(ci.C, append([]byte{}, b...)) }); p != "" {
		return nil, &mc.Viol{Sig: ci.Name + ": CreateKey panics", What: fmt.Sprintf("CreateKey(%x): %s", b, p)}
	}
	if err != nil || k == nil || k.D == nil || k.X == nil || k.Y == nil {
		return nil, &mc.Viol{Sig: ci.Name + ": CreateKey fails", What: fmt.Sprintf("CreateKey(%x): err=%v", b, err)}
	}
	return k, nil
}

func (k keyRef) materialise() (*mat, *mc.Viol) {
	ci := curveByName(k.Curve)
	if ci == nil {
		return nil, &mc.Viol{Sig: "harness: unknown curve", What: k.Curve}
	}
	skb, _ := hex.DecodeString(k.SK)
	bkb, _ := hex.DecodeString(k.BK)
	m := &mat{ci: ci}
	if !k.CtxNil {
		m.ctx, _ = hex.DecodeString(k.Ctx)
		if m.ctx == nil {
			m.ctx = []byte{}
		}
	}
	m.dS = new(big.Int).SetBytes(skb)
	m.dB = new(big.Int).SetBytes(bkb)
	var v *mc.Viol
	if m.skS, v = createKey(ci, skb); v != nil {
		return nil, v
	}
	if m.skB, v = createKey(ci, bkb); v != nil {
		return nil, v
	}
	// key construction from raw scalar bytes: D is OS2IP(bytes), the public part is D*G
	m.pkX, m.pkY = ci.C.ScalarBaseMult(m.dS.Bytes())
	if m.skS.D.Cmp(m.dS) != 0 || m.skS.X.Cmp(m.pkX) != 0 || m.skS.Y.Cmp(m.pkY) != 0 {
		return nil, &mc.Viol{Sig: ci.Name + ": CreateKey does not give (OS2IP(bytes), D*G)", What: fmt.Sprintf("signing key bytes %x", skb)}
	}
	switch k.BKObj {
	case "other-curve":
		oc := curveByName(map[string]string{"P-224": "P-256", "P-256": "P-384", "P-384": "P-521", "P-521": "P-224"}[ci.Name])
		if m.skB, v = createKey(oc, bkb); v != nil {
			return nil, v
		}
	case "bare":
		m.skB = &ecdsa.PrivateKey{D: new(big.Int).SetBytes(bkb)}
	}
	if m.skB.D.Cmp(m.dB) != 0 {
		return nil, &mc.Viol{Sig: ci.Name + ": CreateKey does not give (OS2IP(bytes), D*G)", What: fmt.Sprintf("blind key bytes %x: D=%x", bkb, m.skB.D)}
	}
	m.f = ci.refFactor(m.dB, m.ctx)
	return m, nil
}

func samePoint(a *ecdsa.PublicKey, x, y *big.Int) bool {
	return a != nil && a.X != nil && a.Y != nil && a.X.Cmp(x) == 0 && a.Y.Cmp(y) == 0
}

func clonePub(c elliptic.Curve, x, y *big.Int) *ecdsa.PublicKey {
	return &ecdsa.PublicKey{Curve: c, X: new(big.Int).Set(x), Y: new(big.Int).Set(y)}
}

func blindPub(ci *curveInfo, pk *ecdsa.PublicKey, bk *ecdsa.PrivateKey, ctx []byte, wrapper bool) (out *ecdsa.PublicKey, v *mc.Viol) {
	var err error
	fn := "BlindPublicKeyWithContext"
	p := mc.Catch(func() {
		if wrapper {
			fn = "BlindPublicKey"
			out, err = ecdsa.BlindPublicKey(ci.C, pk, bk)
		} else {
			out, err = ecdsa.BlindPublicKeyWithContext(ci.C, pk, bk, ctx)
		}
	})
	if p != "" {
		return nil, &mc.Viol{Sig: ci.Name + ": " + fn + " panics", What: p}
	}
	if err != nil || out == nil || out.X == nil || out.Y == nil {
		return nil, &mc.Viol{Sig: ci.Name + ": " + fn + " fails on a valid key", What: fmt.Sprint(err)}
	}
	return out, nil
}

func unblindPub(ci *curveInfo, pk *ecdsa.PublicKey, bk *ecdsa.PrivateKey, ctx []byte, wrapper bool) (out *ecdsa.PublicKey, v *mc.Viol) {
	var err error
	fn := "UnblindPublicKeyWithContext"
	p := mc.Catch(func() {
		if wrapper {
			fn = "UnblindPublicKey"
			out, err = ecdsa.UnblindPublicKey(ci.C, pk, bk)
		} else {
			out, err = ecdsa.UnblindPublicKeyWithContext(ci.C, pk, bk, ctx)
		}
	})
	if p != "" {
		return nil, &mc.Viol{Sig: ci.Name + ": " + fn + " panics", What: p}
	}
	if err != nil || out == nil || out.X == nil || out.Y == nil {
		return nil, &mc.Viol{Sig: ci.Name + ": " + fn + " fails on a valid key", What: fmt.Sprint(err)}
	}
	return out, nil
}

func blindClass(ci *curveInfo, b []byte) string {
	d := new(big.Int).SetBytes(b)
	s := "minimal encoding, D<N"
	switch {
	case d.Cmp(ci.N()) >= 0 && len(b) > ci.byteLen():
		s = "D>=N, longer than the field"
	case d.Cmp(ci.N()) >= 0:
		s = "D>=N"
	case len(b) > 0 && b[0] == 0:
		s = "leading zero bytes"
	case len(b) < ci.byteLen():
		s = "shorter than the field"
	}
	return s
}

// plainShape: the shape the repository's own tests already use (blind scalar below N in
// its full-width minimal encoding, empty context). Everything else counts as non-trivial.
func plainShape(ci *curveInfo, blind, ctx []byte) bool {
	return blindClass(ci, blind) == "minimal encoding, D<N" && len(ctx) == 0
}

// checkKey: reference factor, inverse, wrappers. Returns the blinded key for the pair phase.
func checkKey(k keyRef) (*ecdsa.PublicKey, bool, *mc.Viol) {
	m, v := k.materialise()
	if v != nil {
		return nil, false, v
	}
	ci := m.ci
	bkb, _ := hex.DecodeString(k.BK)
	desc := fmt.Sprintf("%s [blind class: %s]", k.label(), blindClass(ci, bkb))
	if m.f.Sign() == 0 {
		return nil, false, &mc.Viol{Sig: "harness: reference factor is zero", What: desc}
	}
	wantX, wantY := ci.C.ScalarMult(m.pkX, m.pkY, m.f.Bytes())
	// the same point through the scalar side: (f*d mod N)*G
	fd := new(big.Int).Mul(m.f, m.dS)
	fd.Mod(fd, ci.N())
	if x2, y2 := ci.C.ScalarBaseMult(fd.Bytes()); x2.Cmp(wantX) != 0 || y2.Cmp(wantY) != 0 {
		return nil, false, &mc.Viol{Sig: "harness: reference point arithmetic inconsistent", What: desc}
	}
	pk := clonePub(ci.C, m.pkX, m.pkY)
	got, v := blindPub(ci, pk, m.skB, m.ctx, false)
	if v != nil {
		v.What = desc + ": " + v.What
		return nil, false, v
	}
	if pk.X.Cmp(m.pkX) != 0 || pk.Y.Cmp(m.pkY) != 0 {
		return nil, false, &mc.Viol{Sig: ci.Name + ": BlindPublicKeyWithContext changes its input key", What: desc}
	}
	if !samePoint(got, wantX, wantY) {
		return nil, false, &mc.Viol{Sig: ci.Name + ": blinded public key != hash_to_field(bytes(D)||00||ctx) * pk",
			What: fmt.Sprintf("%s: got X=%x, reference factor=%x gives X=%x", desc, got.X, m.f, wantX)}
	}
	if !ci.C.IsOnCurve(got.X, got.Y) {
		return nil, false, &mc.Viol{Sig: ci.Name + ": blinded public key is not on the curve", What: desc}
	}
	un, v := unblindPub(ci, clonePub(ci.C, got.X, got.Y), m.skB, m.ctx, false)
	if v != nil {
		v.What = desc + ": " + v.What
		return nil, false, v
	}
	if !samePoint(un, m.pkX, m.pkY) {
		return nil, false, &mc.Viol{Sig: ci.Name + ": Unblind(Blind(pk)) != pk", What: fmt.Sprintf("%s: got X=%x want X=%x", desc, un.X, m.pkX)}
	}
	if len(m.ctx) == 0 {
		// the context-free entry points are the empty context
		g2, v := blindPub(ci, clonePub(ci.C, m.pkX, m.pkY), m.skB, nil, true)
		if v != nil {
			v.What = desc + ": " + v.What
			return nil, false, v
		}
		if !samePoint(g2, wantX, wantY) {
			return nil, false, &mc.Viol{Sig: ci.Name + ": BlindPublicKey != reference with empty context", What: desc}
		}
		u2, v := unblindPub(ci, clonePub(ci.C, g2.X, g2.Y), m.skB, nil, true)
		if v != nil {
			v.What = desc + ": " + v.What
			return nil, false, v
		}
		if !samePoint(u2, m.pkX, m.pkY) {
			return nil, false, &mc.Viol{Sig: ci.Name + ": UnblindPublicKey(BlindPublicKey(pk)) != pk", What: desc}
		}
	}
	return got, plainShape(ci, bkb, m.ctx) == false, nil
}

type signP struct {
	keyRef
	DLen    int    `json:"digest_len"`
	Digest  string `json:"digest_hex"`
	Wrapper bool   `json:"context_free_entry_points"`
	Seed    int64  `json:"entropy_seed"`
}

func (p signP) label() string {
	return fmt.Sprintf("%s|dlen=%d|wrapper=%v", p.keyRef.label(), p.DLen, p.Wrapper)
}

// checkSign: the signature made with the blinded signing key verifies under the
// blinded public key (this package and crypto/ecdsa) and not under the unblinded key.
func checkSign(p signP) (string, *mc.Viol) {
	m, v := p.keyRef.materialise()
	if v != nil {
		return "", v
	}
	ci := m.ci
	digest, _ := hex.DecodeString(p.Digest)
	desc := p.label()
	rd := mc.NewStream(p.Seed, "c12-sign|"+desc)
	var r, s *big.Int
	var err error
	fn := "BlindKeySignWithContext"
	pn := mc.Catch(func() {
		if p.Wrapper {
			fn = "BlindKeySign"
			r, s, err = ecdsa.BlindKeySign(rd, m.skS, m.skB, append([]byte{}, digest...))
		} else {
			r, s, err = ecdsa.BlindKeySignWithContext(rd, m.skS, m.skB, append([]byte{}, digest...), m.ctx)
		}
	})
	if pn != "" {
		return "", &mc.Viol{Sig: ci.Name + ": " + fn + " panics", What: desc + ": " + pn}
	}
	if err != nil || r == nil || s == nil {
		return "", &mc.Viol{Sig: ci.Name + ": " + fn + " fails on valid keys", What: fmt.Sprintf("%s: err=%v", desc, err)}
	}
	pkR, v := blindPub(ci, clonePub(ci.C, m.pkX, m.pkY), m.skB, m.ctx, p.Wrapper)
	if v != nil {
		v.What = desc + ": " + v.What
		return "", v
	}
	// the signature is ONE pair of integers that the caller shows to four verifiers in turn
	r0, s0 := new(big.Int).Set(r), new(big.Int).Set(s)
	var okHere, okStd, unHere, unStd bool
	if pn := mc.Catch(func() { okHere = ecdsa.Verify(pkR, digest, r, s) }); pn != "" {
		return "", &mc.Viol{Sig: ci.Name + ": Verify panics on a blinded key", What: desc + ": " + pn}
	}
	if !okHere {
		return "", &mc.Viol{Sig: ci.Name + ": blind-key signature does not verify under the blinded public key (this package)", What: desc}
	}
	if pn := mc.Catch(func() {
		okStd = stdecdsa.Verify(&stdecdsa.PublicKey{Curve: ci.C, X: pkR.X, Y: pkR.Y}, digest, r, s)
	}); pn != "" {
		return "", &mc.Viol{Sig: ci.Name + ": crypto/ecdsa.Verify panics on the blinded key", What: desc + ": " + pn}
	}
	if !okStd {
		return "", &mc.Viol{Sig: ci.Name + ": blind-key signature does not verify under the blinded public key (crypto/ecdsa)", What: desc}
	}
	if pn := mc.Catch(func() {
		unHere = ecdsa.Verify(clonePub(ci.C, m.pkX, m.pkY), digest, r, s)
	}); pn != "" {
		return "", &mc.Viol{Sig: ci.Name + ": Verify panics on the unblinded key", What: desc + ": " + pn}
	}
	unStd = stdecdsa.Verify(&stdecdsa.PublicKey{Curve: ci.C, X: m.pkX, Y: m.pkY}, digest, r, s)
	if unHere || unStd {
		return "", &mc.Viol{Sig: ci.Name + ": blind-key signature verifies under the unblinded key", What: fmt.Sprintf("%s: here=%v crypto/ecdsa=%v", desc, unHere, unStd)}
	}
	if r.Cmp(r0) != 0 || s.Cmp(s0) != 0 {
		return "", &mc.Viol{Sig: ci.Name + ": verification changes the signature it was given", What: desc}
	}
	return "sign: accepted under blinded key by both verifiers, rejected under unblinded key", nil
}

type pairP struct {
	A keyRef `json:"a"`
	B keyRef `json:"b"` // same curve and signing key as A
}

// checkCommute: Blind_a(Blind_b(pk)) == Blind_b(Blind_a(pk)) == (fa*fb*d)*G.
func checkCommute(p pairP) *mc.Viol {
	ma, v := p.A.materialise()
	if v != nil {
		return v
	}
	mb, v := p.B.materialise()
	if v != nil {
		return v
	}
	ci := ma.ci
	desc := fmt.Sprintf("%s then/and %s|%s", p.A.label(), p.B.BKName, p.B.CtxName)
	pk := clonePub(ci.C, ma.pkX, ma.pkY)
	ka, v := blindPub(ci, pk, ma.skB, ma.ctx, false)
	if v != nil {
		return v
	}
	kab, v := blindPub(ci, ka, mb.skB, mb.ctx, false)
	if v != nil {
		return v
	}
	kb, v := blindPub(ci, clonePub(ci.C, ma.pkX, ma.pkY), mb.skB, mb.ctx, false)
	if v != nil {
		return v
	}
	kba, v := blindPub(ci, kb, ma.skB, ma.ctx, false)
	if v != nil {
		return v
	}
	if !samePoint(kab, kba.X, kba.Y) {
		return &mc.Viol{Sig: ci.Name + ": blinding with two blinds depends on the order", What: desc}
	}
	e := new(big.Int).Mul(ma.f, mb.f)
	e.Mul(e, ma.dS)
	e.Mod(e, ci.N())
	wx, wy := ci.C.ScalarBaseMult(e.Bytes())
	if !samePoint(kab, wx, wy) {
		return &mc.Viol{Sig: ci.Name + ": double-blinded key != (f_a*f_b) * pk of the reference", What: desc}
	}
	// unblinding in the other order returns to pk as well
	u1, v := unblindPub(ci, clonePub(ci.C, kab.X, kab.Y), ma.skB, ma.ctx, false)
	if v != nil {
		return v
	}
	u2, v := unblindPub(ci, u1, mb.skB, mb.ctx, false)
	if v != nil {
		return v
	}
	if !samePoint(u2, ma.pkX, ma.pkY) {
		return &mc.Viol{Sig: ci.Name + ": unblinding a double-blinded key in the same order does not return pk", What: desc}
	}
	return nil
}

// relation demanded between two (blind, context) choices for the same signing key
func relation(a, b keyRef) string {
	ab, _ := hex.DecodeString(a.BK)
	bb, _ := hex.DecodeString(b.BK)
	sameD := new(big.Int).SetBytes(ab).Cmp(new(big.Int).SetBytes(bb)) == 0
	ac, _ := hex.DecodeString(a.Ctx)
	bc, _ := hex.DecodeString(b.Ctx)
	sameC := bytes.Equal(ac, bc)
	switch {
	case sameD && sameC:
		return "equal"
	case sameD != sameC:
		return "differ"
	}
	return "" // both changed at once: the statement demands nothing
}

func checkSep(p pairP) *mc.Viol {
	rel := relation(p.A, p.B)
	if rel == "" {
		return nil
	}
	ka, _, v := checkKeyQuiet(p.A)
	if v != nil {
		return v
	}
	kb, _, v := checkKeyQuiet(p.B)
	if v != nil {
		return v
	}
	return sepVerdict(p, rel, ka, kb)
}

func sepVerdict(p pairP, rel string, ka, kb *ecdsa.PublicKey) *mc.Viol {
	same := samePoint(ka, kb.X, kb.Y)
	desc := fmt.Sprintf("%s vs %s|%s", p.A.label(), p.B.BKName, p.B.CtxName)
	if rel == "equal" && !same {
		return &mc.Viol{Sig: p.A.Curve + ": two encodings of the same blind scalar / empty context give different blinded keys", What: desc}
	}
	if rel == "differ" && same {
		what := "context"
		if p.A.BK != p.B.BK {
			what = "blind"
		}
		return &mc.Viol{Sig: p.A.Curve + ": changing the " + what + " does not change the blinded key", What: desc}
	}
	return nil
}

// checkKeyQuiet: only the blinded key (no reference comparison), for the separation replay.
func checkKeyQuiet(k keyRef) (*ecdsa.PublicKey, bool, *mc.Viol) {
	m, v := k.materialise()
	if v != nil {
		return nil, false, v
	}
	got, v := blindPub(m.ci, clonePub(m.ci.C, m.pkX, m.pkY), m.skB, m.ctx, false)
	return got, true, v
}

// ---------------------------------------------------------------------------------------

func main() {
	r := mc.Start("C12", "exploration")
	mc.InstallDRBG(r.Seed)
	r.RegisterReplay("key", func(pj json.RawMessage) *mc.Viol {
		var k keyRef
		json.Unmarshal(pj, &k)
		_, _, v := checkKey(k)
		return v
	})
	r.RegisterReplay("sign", func(pj json.RawMessage) *mc.Viol {
		var p signP
		json.Unmarshal(pj, &p)
		_, v := checkSign(p)
		return v
	})
	r.RegisterReplay("commute", func(pj json.RawMessage) *mc.Viol {
		var p pairP
		json.Unmarshal(pj, &p)
		return checkCommute(p)
	})
	r.RegisterReplay("sep", func(pj json.RawMessage) *mc.Viol {
		var p pairP
		json.Unmarshal(pj, &p)
		return checkSep(p)
	})
	if r.IsReplay() {
		r.DoReplay()
	}
	if e := xmdSelfTest(); e != "" {
		r.Note("%s; nothing decided", e)
		r.NotExhaustive("reference self-test failed: %s", e)
		r.Finish()
	}

	th := r.Thorough()
	dlens := mc.Pick(r, []int{0, 1, 32, 48, 66, 128}, []int{0, 1, 20, 28, 31, 32, 33, 48, 64, 65, 66, 67, 127, 128})
	ctxs := contexts(r.Seed, th)

	r.SetRule("product of fixed alphabets: curve x signing scalar (values in [1,N-1], several encodings) x blind-key byte string x context [x digest length] for the reference/inverse/signature clauses; every unordered pair of blinds x a context pair for commutativity; every pair of (blind, context) choices that differ in exactly one of the two (or in encoding only) for separation. Cases are distinct tuples; a key or signature case is non-trivial when it is not the shape the repository's tests already use (blind scalar below N in full-width minimal encoding with an empty context), a pair case when both blinded keys were obtained")
	r.Assume("signing keys are valid key pairs (scalar in [1, N-1]); a blind key with D = 0 is not exercised",
		"values (scalars, contexts, digests) are fixed alphabets of representatives per visible code shortcut, not the 2^256+ value spaces",
		"reference: RFC 9380 expand_message_xmd/hash_to_field written for this check over crypto/sha256, crypto/sha512 and math/big, self-tested against five RFC vectors at start; curve arithmetic of the reference is crypto/elliptic (shared with the implementation), second verifier crypto/ecdsa",
		"'blind-key bytes' is the minimal big-endian magnitude of the blind scalar D; (hash, L) = P-224:(SHA-256,32) P-256:(SHA-256,48) P-384:(SHA-384,72) P-521:(SHA-512,98)",
		"separation is demanded only when exactly one of blind scalar / context changes; bytes(D)||00||ctx is not injective when both change (D=07,ctx=0005 vs D=0700,ctx=05) and the statement does not claim it")

	// ---- phase 1: key cases ----
	type unit struct {
		ci   *curveInfo
		sks  []named
		bks  []named
		keys [][][]*ecdsa.PublicKey // [sk][bk][ctx]
	}
	var units []*unit
	type kc struct {
		u          *unit
		si, bi, ci int
	}
	var kcs []kc
	dims := map[string]any{}
	for _, ci := range curves {
		u := &unit{ci: ci, sks: signScalars(ci, r.Seed, th), bks: blindScalars(ci, r.Seed, th)}
		u.keys = make([][][]*ecdsa.PublicKey, len(u.sks))
		for si := range u.sks {
			u.keys[si] = make([][]*ecdsa.PublicKey, len(u.bks))
			for bi := range u.bks {
				u.keys[si][bi] = make([]*ecdsa.PublicKey, len(ctxs))
				for ci2 := range ctxs {
					kcs = append(kcs, kc{u, si, bi, ci2})
				}
			}
		}
		units = append(units, u)
		if ci.Name == "P-256" {
			var a, b []string
			for _, s := range u.sks {
				a = append(a, s.Name)
			}
			for _, s := range u.bks {
				b = append(b, s.Name)
			}
			dims["signing_scalars"] = a
			dims["blind_keys"] = b
		}
	}
	var cn []string
	for _, c := range ctxs {
		cn = append(cn, c.Name)
	}
	dims["contexts"] = cn
	dims["digest_lens"] = dlens
	dims["curves"] = []string{"P-224", "P-256", "P-384", "P-521"}
	r.Set("dimensions", dims)

	r.Par(len(kcs), func(i int) {
		c := kcs[i]
		k := mkRef(c.u.ci, c.u.sks[c.si], c.u.bks[c.bi], ctxs[c.ci])
		got, nt, v := checkKey(k)
		out := "key: blinded key = reference factor * pk, unblind inverts"
		if v != nil {
			out = v.Sig
			r.Violation("key", k, v)
			// keep the pair phase going with whatever the implementation returns
			got, _, _ = checkKeyQuiet(k)
		}
		c.u.keys[c.si][c.bi][c.ci] = got
		r.Case("key|"+k.label(), nt, out)
		if i == len(kcs)/3 || i == 2*len(kcs)/3 {
			r.Sample(map[string]any{"kind": "key", "case": k})
		}
	})

	// ---- phase 1b: the blinding key as an object built for another curve, or without any curve ----
	{
		var ks []keyRef
		for i, c := range kcs {
			if i%7 != 0 && c.bi > 1 {
				continue
			}
			for _, obj := range []string{"other-curve", "bare"} {
				k := mkRef(c.u.ci, c.u.sks[c.si], c.u.bks[c.bi], ctxs[c.ci])
				k.BKObj = obj
				ks = append(ks, k)
			}
		}
		r.Par(len(ks), func(i int) {
			k := ks[i]
			_, _, v := checkKey(k)
			out := "key: blinded key = reference factor * pk, unblind inverts (blinding key object: " + k.BKObj + ")"
			if v != nil {
				out = v.Sig
				r.Violation("key", k, v)
			}
			r.Case("key|"+k.label()+"|"+k.BKObj, true, out)
			if i%5 == 0 {
				p := signP{keyRef: k, DLen: 32, Seed: r.Seed}
				p.Digest = hex.EncodeToString(mc.Fill(r.Seed, "c12-digest-32", 32))
				out, v := checkSign(p)
				if v != nil {
					out = v.Sig
					r.Violation("sign", p, v)
				}
				r.Case("sign|"+p.label()+"|"+k.BKObj, true, out)
			}
		})
	}

	// ---- phase 2: signatures ----
	type sc struct {
		kc
		dlen    int
		wrapper bool
	}
	var scs []sc
	for _, c := range kcs {
		for _, dl := range dlens {
			scs = append(scs, sc{c, dl, false})
		}
		if len(ctxs[c.ci].B) == 0 {
			scs = append(scs, sc{c, 32, true})
		}
	}
	r.Par(len(scs), func(i int) {
		if r.OutOfTime() {
			r.NotExhaustive("time budget hit in the signature phase")
			return
		}
		c := scs[i]
		p := signP{keyRef: mkRef(c.u.ci, c.u.sks[c.si], c.u.bks[c.bi], ctxs[c.ci]), DLen: c.dlen, Wrapper: c.wrapper, Seed: r.Seed}
		p.Digest = hex.EncodeToString(mc.Fill(r.Seed, fmt.Sprintf("c12-digest-%d", c.dlen), c.dlen))
		out, v := checkSign(p)
		if v != nil {
			out = v.Sig
			r.Violation("sign", p, v)
		}
		r.Case("sign|"+p.label(), v == nil && !plainShape(c.u.ci, c.u.bks[c.bi].B, ctxs[c.ci].B), out)
		if i == len(scs)/3 || i == 2*len(scs)/3 || i == len(scs)-1 {
			r.Sample(map[string]any{"kind": "sign", "case": p})
		}
	})

	// ---- phase 3: commutativity over all unordered pairs of blinds ----
	cpairs := [][2]int{{0, 0}, {0, 3}, {3, 5}, {5, 5}, {6, 2}} // indices into ctxs: nil/nil, nil/05, 05/32B, 32B/32B, 300B/00
	if th {
		cpairs = append(cpairs, [2]int{1, 0}, [2]int{4, 3}, [2]int{2, 2}, [2]int{12, 14}, [2]int{7, 6})
	}
	type cc struct {
		u          *unit
		si, b1, b2 int
		c1, c2     int
	}
	var ccs []cc
	for _, u := range units {
		sis := []int{2, 1}
		if th {
			sis = []int{0, 1, 2, 3, 5}
		}
		for _, si := range sis {
			for b1 := range u.bks {
				for b2 := b1; b2 < len(u.bks); b2++ {
					for _, cp := range cpairs {
						if b1 == b2 && cp[0] == cp[1] {
							continue
						}
						ccs = append(ccs, cc{u, si, b1, b2, cp[0], cp[1]})
					}
				}
			}
		}
	}
	r.Par(len(ccs), func(i int) {
		if r.OutOfTime() {
			r.NotExhaustive("time budget hit in the commutativity phase")
			return
		}
		c := ccs[i]
		p := pairP{A: mkRef(c.u.ci, c.u.sks[c.si], c.u.bks[c.b1], ctxs[c.c1]), B: mkRef(c.u.ci, c.u.sks[c.si], c.u.bks[c.b2], ctxs[c.c2])}
		var v *mc.Viol
		if pn := mc.CatchStack(func() { v = checkCommute(p) }); pn != "" {
			v = &mc.Viol{Sig: c.u.ci.Name + ": double blinding panics", What: pn}
		}
		out := "commute: both orders give (f_a*f_b)*pk"
		if v != nil {
			out = v.Sig
			r.Violation("commute", p, v)
		}
		r.Case("commute|"+p.A.label()+"|"+p.B.BKName+"|"+p.B.CtxName, v == nil, out)
		if i == len(ccs)/3 || i == 2*len(ccs)/3 {
			r.Sample(map[string]any{"kind": "commute", "case": p})
		}
	})

	// ---- phase 4: separation, from the table of phase 1 ----
	type su struct {
		u  *unit
		si int
	}
	var sus []su
	for _, u := range units {
		for si := range u.sks {
			sus = append(sus, su{u, si})
		}
	}
	r.Par(len(sus), func(i int) {
		u, si := sus[i].u, sus[i].si
		type ent struct{ bi, ci int }
		var es []ent
		for bi := range u.bks {
			for ci := range ctxs {
				es = append(es, ent{bi, ci})
			}
		}
		refs := make([]keyRef, len(es))
		for j, e := range es {
			refs[j] = mkRef(u.ci, u.sks[si], u.bks[e.bi], ctxs[e.ci])
		}
		var nEq, nDf, nNone int64
		for a := 0; a < len(es); a++ {
			for b := a + 1; b < len(es); b++ {
				rel := relation(refs[a], refs[b])
				if rel == "" {
					nNone++
					continue
				}
				ka, kb := u.keys[si][es[a].bi][es[a].ci], u.keys[si][es[b].bi][es[b].ci]
				if ka == nil || kb == nil {
					continue
				}
				p := pairP{A: refs[a], B: refs[b]}
				if v := sepVerdict(p, rel, ka, kb); v != nil {
					r.Violation("sep", p, v)
					r.Case("sep|"+refs[a].label()+"|"+refs[b].label(), true, v.Sig)
					continue
				}
				if rel == "equal" {
					nEq++
				} else {
					nDf++
				}
			}
		}
		r.Bulk(nEq, nEq, "pair: same blind scalar and context bytes (other encoding / nil vs empty) -> same blinded key")
		r.Bulk(nDf, nDf, "pair: blind scalar or context changed -> different blinded key")
		_ = nNone
		if i == 0 {
			r.Sample(map[string]any{"kind": "sep", "case": pairP{A: refs[0], B: refs[1]}, "relation": relation(refs[0], refs[1])})
		}
	})
	r.Finish()
}
