// C01: honest issuance over the wire always yields a valid, correctly bound token.
//
// Bounded exhaustive enumeration of (token type x issuer key x challenge length x
// nonce x entropy seed x batch size x origin name x client secret x blind) on the
// real client/issuer/attester code; every message crosses the wire as bytes and is
// decoded into a fresh object. Oracle: no error at any step, exact token layout,
// authenticator verified by an independent verifier and by the issuer's Verify.
package main

import (
	"bytes"
	"encoding/hex"
	"encoding/json"
	"fmt"
	"math/big"

	"crypto/elliptic"

	"github.com/cloudflare/circl/group"
	"github.com/cloudflare/circl/oprf"
	"github.com/cloudflare/pat-go/tokens/type1"
	"github.com/cloudflare/pat-go/tokens/type2"
	"github.com/cloudflare/pat-go/tokens/type3"
	"github.com/cloudflare/pat-go/tokens/type5"

	"verif/mc"
	"verif/px"
)

type P struct {
	T       int `json:"type"`
	Key     int `json:"key"`
	CL      int `json:"challenge_len"`
	NK      int `json:"nonce_kind"` // 0 zeros, 1 ff, 2 drbg
	Seed    int `json:"entropy_seed"`
	Batch   int `json:"batch,omitempty"`
	NameLen int `json:"origin_len,omitempty"`
	Blind   int `json:"blind_kind"`  // 0 = client randomness; >0 = WithBlind entry point, alphabet index
	Secret  int `json:"secret_kind"` // type 3 client secret alphabet index
}

func (p P) label() string {
	return fmt.Sprintf("t%d-k%d-c%d-n%d-s%d-b%d-o%d-bl%d-se%d", p.T, p.Key, p.CL, p.NK, p.Seed, p.Batch, p.NameLen, p.Blind, p.Secret)
}

var seedBase int64

func nonce(p P, i int) []byte {
	switch p.NK {
	case 0:
		return make([]byte, 32)
	case 1:
		return bytes.Repeat([]byte{0xff}, 32)
	}
	return mc.Fill(seedBase, fmt.Sprintf("nonce-%s-%d", p.label(), i), 32)
}

func p384Scalar(kind int, label string) []byte {
	n := elliptic.P384().Params().N
	out := make([]byte, 48)
	switch kind {
	case 1:
		out[47] = 1
	case 2:
		out[47] = 2
	case 3:
		new(big.Int).Sub(n, big.NewInt(1)).FillBytes(out)
	case 4: // leading zero byte
		copy(out[1:], mc.Fill(seedBase, "lz-"+label, 47))
	// 6..10: type-3 request blinds only (byte strings that are hashed, not scalars)
	case 6: // zero
		return out
	case 7: // the group order itself
		return n.FillBytes(out)
	case 8: // empty
		return []byte{}
	case 9: // 2^384-1
		return bytes.Repeat([]byte{0xff}, 48)
	case 10: // 64 bytes
		return mc.Fill(seedBase, "blind64-"+label, 64)
	default:
		v := new(big.Int).SetBytes(mc.Fill(seedBase, "sc-"+label, 56))
		v.Mod(v, new(big.Int).Sub(n, big.NewInt(1)))
		v.Add(v, big.NewInt(1))
		v.FillBytes(out)
	}
	return out
}

func ristScalar(kind int, label string) []byte {
	g := group.Ristretto255
	var s group.Scalar
	switch kind {
	case 1:
		s = g.NewScalar().SetUint64(1)
	case 2:
		s = g.NewScalar().SetUint64(2)
	case 3:
		s = g.NewScalar()
		s.Sub(s, g.NewScalar().SetUint64(1))
	case 4:
		s = g.NewScalar().SetUint64(1<<40 + 5)
	default:
		s = g.HashToScalar(mc.Fill(seedBase, "rs-"+label, 32), []byte("verif"))
	}
	b, _ := s.MarshalBinary()
	return b
}

func rsaBlind(kind int, n *big.Int, label string) []byte {
	switch kind {
	case 1:
		return []byte{1}
	case 2:
		return []byte{2}
	case 3:
		return []byte{3}
	case 4:
		return []byte{1, 0, 1}
	case 6: // a value below N in 257 bytes: leading zero byte in front of the full-width form (type 2 only)
		v := new(big.Int).SetBytes(mc.Fill(seedBase, "rb-"+label, 300))
		v.Mod(v, n)
		return append([]byte{0}, v.FillBytes(make([]byte, (n.BitLen()+7)/8))...)
	case 7: // N-1
		return new(big.Int).Sub(n, big.NewInt(1)).Bytes()
	default:
		v := new(big.Int).SetBytes(mc.Fill(seedBase, "rb-"+label, 300))
		v.Mod(v, n)
		return v.Bytes()
	}
}

func run(p P) *mc.Viol {
	mc.Entropy("c01-" + p.label())
	var chal []byte // CL < 0: the empty challenge handed over as a nil slice
	if p.CL >= 0 {
		chal = mc.Fill(seedBase, fmt.Sprintf("chal-%d-%d", p.CL, p.Seed), p.CL)
	}
	fail := func(se *px.StageErr) *mc.Viol {
		return &mc.Viol{Sig: fmt.Sprintf("type%d honest flow fails at %s: %s", p.T, se.Stage, trunc(se.Err, 60)), What: fmt.Sprintf("case %s: %s", p.label(), se.Error())}
	}
	bad := func(what string, err error) *mc.Viol {
		return &mc.Viol{Sig: fmt.Sprintf("type%d token %s", p.T, what), What: fmt.Sprintf("case %s: %v", p.label(), err)}
	}
	switch p.T {
	case 1:
		w := px.NewW1(p.Key)
		var blind []byte
		if p.Blind > 0 {
			blind = p384Scalar(p.Blind, p.label())
		}
		n := nonce(p, 0)
		o, se := w.Flow(chal, n, blind)
		if se != nil {
			return fail(se)
		}
		tok := o.Tokens[0]
		if err := px.CheckLayout(tok, 1, n, chal, w.KeyID); err != nil {
			return bad("layout wrong", err)
		}
		if err := px.VerifyOPRFToken(oprf.SuiteP384, w.KeyBytes, tok); err != nil {
			return bad("does not verify (reference VOPRF)", err)
		}
		t, err := type1.UnmarshalPrivateToken(tok)
		if err != nil {
			return bad("does not decode", err)
		}
		if err := w.Issuer.Verify(t); err != nil {
			return bad("rejected by issuer.Verify", err)
		}
	case 2:
		w := px.NewW2(p.Key)
		var blind, salt []byte
		if p.Blind > 0 {
			blind = rsaBlind(p.Blind, w.Key.N, p.label())
			salt = mc.Fill(seedBase, "salt-"+p.label(), 48)
		}
		n := nonce(p, 0)
		o, se := w.Flow(chal, n, blind, salt)
		if se != nil {
			return fail(se)
		}
		tok := o.Tokens[0]
		if err := px.CheckLayout(tok, 2, n, chal, w.KeyID); err != nil {
			return bad("layout wrong", err)
		}
		if err := px.VerifyRSAToken(&w.Key.PublicKey, tok); err != nil {
			return bad("does not verify (crypto/rsa PSS)", err)
		}
	case 5:
		w := px.NewW5(p.Key)
		nonces := make([][]byte, p.Batch)
		var blinds [][]byte
		for i := range nonces {
			nonces[i] = nonce(p, i)
			if p.Blind > 0 {
				blinds = append(blinds, ristScalar(p.Blind+i%2, fmt.Sprintf("%s-%d", p.label(), i)))
			}
		}
		o, se := w.Flow(chal, nonces, blinds)
		if se != nil {
			return fail(se)
		}
		for i, tok := range o.Tokens {
			if err := px.CheckLayout(tok, 5, nonces[i], chal, w.KeyID); err != nil {
				return bad("layout wrong", fmt.Errorf("token %d: %v", i, err))
			}
			if err := px.VerifyOPRFToken(oprf.SuiteRistretto255, w.KeyBytes, tok); err != nil {
				return bad("does not verify (reference VOPRF)", fmt.Errorf("token %d: %v", i, err))
			}
			t, err := type5.UnmarshalBatchedPrivateToken(tok)
			if err != nil {
				return bad("does not decode", err)
			}
			if err := w.Issuer.Verify(t); err != nil {
				return bad("rejected by issuer.Verify", err)
			}
		}
	case 3:
		w := px.NewW3(p.Key)
		name := string(originName(p.NameLen, p.Seed))
		if err := w.Issuer.AddOrigin(name); err != nil {
			return &mc.Viol{Sig: "type3 AddOrigin fails", What: err.Error()}
		}
		att := type3.NewRateLimitedAttester(px.NewMemCache())
		n := nonce(p, 0)
		a := px.T3Args{Secret: p384Scalar(p.Secret, "sec-"+p.label()), Blind: p384Scalar(p.Blind, "bl-"+p.label()), Challenge: chal, Nonce: n, Origin: name,
			AnonOrigin: mc.Fill(seedBase, "anon-"+p.label(), 32)}
		o, se := w.Flow(att, a)
		if se != nil {
			return fail(se)
		}
		tok := o.Tokens[0]
		if err := px.CheckLayout(tok, 3, n, chal, w.KeyID); err != nil {
			return bad("layout wrong", err)
		}
		if err := px.VerifyRSAToken(&w.Key.PublicKey, tok); err != nil {
			return bad("does not verify (crypto/rsa PSS)", err)
		}
		if !bytes.Equal(o.ClientKey, px.ClientPubKeyBytes(a.Secret)) {
			return &mc.Viol{Sig: "type3 client key is not secret*G", What: p.label()}
		}
	}
	return nil
}

// runReuse: a sequence of honest issuances in which the issuer decodes every request into
// ONE request object that it keeps between requests (and the client keeps one client value).
type reuseP struct {
	T         int   `json:"type"`
	Key       int   `json:"key"`
	Seq       []int `json:"batch_sizes_or_challenge_lens"`
	Pipelined bool  `json:"pipelined,omitempty"` // all requests are evaluated before the first response is finalized (fresh request object each)
}

func runReuse(p reuseP) *mc.Viol {
	if p.Pipelined {
		return runPipelined(p)
	}
	lbl := fmt.Sprintf("reuse-t%d-k%d-%v", p.T, p.Key, p.Seq)
	mc.Entropy("c01-" + lbl)
	fail := func(step int, what string, err error) *mc.Viol {
		return &mc.Viol{Sig: fmt.Sprintf("type%d honest issuance fails when the issuer reuses its request object: %s", p.T, what), What: fmt.Sprintf("%s step %d: %v", lbl, step, err)}
	}
	switch p.T {
	case 1:
		w := px.NewW1(p.Key)
		req := new(type1.BasicPrivateTokenRequest)
		for i, cl := range p.Seq {
			chal, n := mc.Fill(seedBase, fmt.Sprintf("%s-chal-%d", lbl, i), cl), mc.Fill(seedBase, fmt.Sprintf("%s-n-%d", lbl, i), 32)
			st, err := w.Create(chal, n, nil)
			if err != nil {
				return fail(i, "client-create", err)
			}
			if !req.Unmarshal(append([]byte{}, st.Request().Marshal()...)) {
				return fail(i, "issuer-decode", fmt.Errorf("rejected"))
			}
			resp, err := w.Issuer.Evaluate(req)
			if err != nil {
				return fail(i, "issuer-evaluate", err)
			}
			tok, err := st.FinalizeToken(resp)
			if err != nil {
				return fail(i, "client-finalize", err)
			}
			if err := px.CheckLayout(tok.Marshal(), 1, n, chal, w.KeyID); err != nil {
				return fail(i, "token layout", err)
			}
			if err := px.VerifyOPRFToken(oprf.SuiteP384, w.KeyBytes, tok.Marshal()); err != nil {
				return fail(i, "token invalid", err)
			}
		}
	case 2:
		w := px.NewW2(p.Key)
		req := new(type2.BasicPublicTokenRequest)
		for i, cl := range p.Seq {
			chal, n := mc.Fill(seedBase, fmt.Sprintf("%s-chal-%d", lbl, i), cl), mc.Fill(seedBase, fmt.Sprintf("%s-n-%d", lbl, i), 32)
			st, err := w.Create(chal, n, nil, nil)
			if err != nil {
				return fail(i, "client-create", err)
			}
			if !req.Unmarshal(append([]byte{}, st.Request().Marshal()...)) {
				return fail(i, "issuer-decode", fmt.Errorf("rejected"))
			}
			resp, err := w.Issuer.Evaluate(req)
			if err != nil {
				return fail(i, "issuer-evaluate", err)
			}
			tok, err := st.FinalizeToken(resp)
			if err != nil {
				return fail(i, "client-finalize", err)
			}
			if err := px.CheckLayout(tok.Marshal(), 2, n, chal, w.KeyID); err != nil {
				return fail(i, "token layout", err)
			}
			if err := px.VerifyRSAToken(&w.Key.PublicKey, tok.Marshal()); err != nil {
				return fail(i, "token invalid", err)
			}
		}
	case 5:
		w := px.NewW5(p.Key)
		req := new(type5.BatchedPrivateTokenRequest)
		for i, b := range p.Seq {
			chal := mc.Fill(seedBase, fmt.Sprintf("%s-chal-%d", lbl, i), 32)
			var ns [][]byte
			for j := 0; j < b; j++ {
				ns = append(ns, mc.Fill(seedBase, fmt.Sprintf("%s-n-%d-%d", lbl, i, j), 32))
			}
			st, err := w.Create(chal, ns, nil)
			if err != nil {
				return fail(i, "client-create", err)
			}
			if !req.Unmarshal(append([]byte{}, st.Request().Marshal()...)) {
				return fail(i, "issuer-decode", fmt.Errorf("rejected"))
			}
			resp, err := w.Issuer.Evaluate(req)
			if err != nil {
				return fail(i, "issuer-evaluate", err)
			}
			toks, err := st.FinalizeTokens(resp)
			if err != nil {
				return fail(i, "client-finalize", err)
			}
			if len(toks) != b {
				return fail(i, "token count", fmt.Errorf("%d tokens for %d nonces", len(toks), b))
			}
			for j, t := range toks {
				if err := px.CheckLayout(t.Marshal(), 5, ns[j], chal, w.KeyID); err != nil {
					return fail(i, "token layout", err)
				}
				if err := px.VerifyOPRFToken(oprf.SuiteRistretto255, w.KeyBytes, t.Marshal()); err != nil {
					return fail(i, "token invalid", err)
				}
			}
		}
	}
	return nil
}

// runPipelined: several honest requests are in flight at one issuer: all are evaluated first
// (responses kept by the caller), then all are finalized.
func runPipelined(p reuseP) *mc.Viol {
	lbl := fmt.Sprintf("pipelined-t%d-k%d-%v", p.T, p.Key, p.Seq)
	mc.Entropy("c01-" + lbl)
	fail := func(step int, what string, err error) *mc.Viol {
		return &mc.Viol{Sig: fmt.Sprintf("type%d honest issuance fails when several requests are in flight at one issuer: %s", p.T, what), What: fmt.Sprintf("%s request %d: %v", lbl, step, err)}
	}
	type fin func() error
	var fins []fin
	switch p.T {
	case 1:
		w := px.NewW1(p.Key)
		for i, cl := range p.Seq {
			i := i
			chal, n := mc.Fill(seedBase, fmt.Sprintf("%s-chal-%d", lbl, i), cl), mc.Fill(seedBase, fmt.Sprintf("%s-n-%d", lbl, i), 32)
			st, err := w.Create(chal, n, nil)
			if err != nil {
				return fail(i, "client-create", err)
			}
			resp, se := w.EvaluateWire(st.Request().Marshal())
			if se != nil {
				return fail(i, se.Stage, se)
			}
			fins = append(fins, func() error {
				tok, err := st.FinalizeToken(resp)
				if err != nil {
					return err
				}
				if err := px.CheckLayout(tok.Marshal(), 1, n, chal, w.KeyID); err != nil {
					return err
				}
				return px.VerifyOPRFToken(oprf.SuiteP384, w.KeyBytes, tok.Marshal())
			})
		}
	case 2:
		w := px.NewW2(p.Key)
		for i, cl := range p.Seq {
			chal, n := mc.Fill(seedBase, fmt.Sprintf("%s-chal-%d", lbl, i), cl), mc.Fill(seedBase, fmt.Sprintf("%s-n-%d", lbl, i), 32)
			st, err := w.Create(chal, n, nil, nil)
			if err != nil {
				return fail(i, "client-create", err)
			}
			resp, se := w.EvaluateWire(st.Request().Marshal())
			if se != nil {
				return fail(i, se.Stage, se)
			}
			fins = append(fins, func() error {
				tok, err := st.FinalizeToken(resp)
				if err != nil {
					return err
				}
				if err := px.CheckLayout(tok.Marshal(), 2, n, chal, w.KeyID); err != nil {
					return err
				}
				return px.VerifyRSAToken(&w.Key.PublicKey, tok.Marshal())
			})
		}
	case 5:
		w := px.NewW5(p.Key)
		for i, b := range p.Seq {
			chal := mc.Fill(seedBase, fmt.Sprintf("%s-chal-%d", lbl, i), 32)
			var ns [][]byte
			for j := 0; j < b; j++ {
				ns = append(ns, mc.Fill(seedBase, fmt.Sprintf("%s-n-%d-%d", lbl, i, j), 32))
			}
			st, err := w.Create(chal, ns, nil)
			if err != nil {
				return fail(i, "client-create", err)
			}
			resp, se := w.EvaluateWire(st.Request().Marshal())
			if se != nil {
				return fail(i, se.Stage, se)
			}
			fins = append(fins, func() error {
				toks, err := st.FinalizeTokens(resp)
				if err != nil {
					return err
				}
				if len(toks) != len(ns) {
					return fmt.Errorf("%d tokens for %d nonces", len(toks), len(ns))
				}
				for j, t := range toks {
					if err := px.CheckLayout(t.Marshal(), 5, ns[j], chal, w.KeyID); err != nil {
						return err
					}
					if err := px.VerifyOPRFToken(oprf.SuiteRistretto255, w.KeyBytes, t.Marshal()); err != nil {
						return err
					}
				}
				return nil
			})
		}
	}
	for i, f := range fins {
		if err := f(); err != nil {
			return fail(i, "client-finalize / token check", err)
		}
	}
	return nil
}

func runSafe(p P) (v *mc.Viol) {
	if pn := mc.CatchStack(func() { v = run(p) }); pn != "" {
		v = &mc.Viol{Sig: fmt.Sprintf("type%d honest flow panics: %s", p.T, trunc(pn, 60)), What: p.label() + ": " + pn}
	}
	return v
}

// specialNames: spellings that canonicalisation, trimming or text-oriented processing tends to
// damage; the issuer must serve exactly the name that was registered.
var specialNames = []string{"origin.example.", ".", "a.", "..", "Origin.Example", "origin.example:8443", "origin.example/", " origin.example", "origin.example ", "caf\u00e9.example", "example.caf\u00e9", "\u4f8b\u3048.jp", "a,b", "*.example", "origin.example\n"}

// originName: printable bytes, never ending in a zero byte; a negative length selects a special name.
func originName(n, seed int) []byte {
	if n < 0 {
		return []byte(specialNames[-n-1])
	}
	b := mc.Fill(seedBase, fmt.Sprintf("origin-%d-%d", n, seed), n)
	for i := range b {
		b[i] = 'a' + b[i]%26
	}
	return b
}

func trunc(s string, n int) string {
	if len(s) > n {
		return s[:n]
	}
	return s
}

func main() {
	r := mc.Start("C01", "exploration")
	seedBase = r.Seed
	mc.InstallDRBG(r.Seed)
	r.RegisterReplay("flow", func(pj json.RawMessage) *mc.Viol {
		var p P
		json.Unmarshal(pj, &p)
		return runSafe(p)
	})
	r.RegisterReplay("reuse", func(pj json.RawMessage) *mc.Viol {
		var p reuseP
		json.Unmarshal(pj, &p)
		var v *mc.Viol
		if pn := mc.CatchStack(func() { v = runReuse(p) }); pn != "" {
			return &mc.Viol{Sig: fmt.Sprintf("type%d honest flow panics: %s", p.T, trunc(pn, 60)), What: pn}
		}
		return v
	})
	r.RegisterReplay("life", func(pj json.RawMessage) *mc.Viol {
		var p lifeP
		json.Unmarshal(pj, &p)
		var v *mc.Viol
		if pn := mc.CatchStack(func() { v = runLife(p) }); pn != "" {
			return &mc.Viol{Sig: "type3 honest flow panics in the life of one client object: " + trunc(pn, 60), What: pn}
		}
		return v
	})
	if r.IsReplay() {
		r.DoReplay()
	}
	// the life of one type-3 client object across origins and issuers
	{
		var lives []lifeP
		for sib := 0; sib < 3; sib++ {
			for ord := 0; ord < 2; ord++ {
				lives = append(lives, lifeP{Sibling: sib, Order: ord, RSA: sib % 2})
			}
		}
		r.Par(len(lives), func(i int) {
			var v *mc.Viol
			if pn := mc.CatchStack(func() { v = runLife(lives[i]) }); pn != "" {
				v = &mc.Viol{Sig: "type3 honest flow panics in the life of one client object: " + trunc(pn, 60), What: pn}
			}
			if v != nil {
				r.Violation("life", lives[i], v)
			}
			r.Case(fmt.Sprintf("life-%+v", lives[i]), true, "type3 life of one client object: six honest issuances, all valid")
		})
	}

	var cases []P
	th := r.Thorough()
	oprfKeys := mc.Pick(r, []int{0, 3}, []int{0, 1, 3, 4, 5})
	// keys whose truncated id (the only part a request carries) is 00 and ff, found by search
	extraKeys := map[int][]int{}
	for _, t := range []int{1, 5} {
		su := oprf.SuiteP384
		if t == 5 {
			su = oprf.SuiteRistretto255
		}
		extraKeys[t] = []int{px.FindOPRFKey(su, 0x00), px.FindOPRFKey(su, 0xff)}
	}
	rsaKeysIdx := mc.Pick(r, []int{0, 1}, []int{0, 1, 2, 3})
	lens := mc.Pick(r, []int{0, 1, 32, 64, 255, 65535}, px.ChallengeLens)
	nonces := mc.Pick(r, []int{0, 2}, []int{0, 1, 2})
	seeds := mc.Pick(r, 2, 4)
	// types 1 and 2: full product with client randomness, plus the WithBlind entry points
	for _, t := range []int{1, 2} {
		keys := oprfKeys
		if t == 2 {
			keys = rsaKeysIdx
		} else {
			keys = append(append([]int{}, oprfKeys...), extraKeys[1]...)
		}
		for _, k := range keys {
			for _, cl := range lens {
				for _, nk := range nonces {
					for s := 0; s < seeds; s++ {
						cases = append(cases, P{T: t, Key: k, CL: cl, NK: nk, Seed: s})
					}
				}
			}
			for bl := 1; bl <= 7; bl++ {
				if t != 2 && bl > 5 {
					continue
				}
				for _, cl := range []int{0, 32} {
					cases = append(cases, P{T: t, Key: k, CL: cl, NK: 2, Seed: 0, Blind: bl})
				}
			}
		}
	}
	// type 5: batch sizes incl. the varint class boundaries of the element list (64 B = 2 elements ... 16384 B = 512)
	batches := []int{1, 2, 3, 4}
	if th {
		batches = []int{1, 2, 3, 4, 5, 6, 7, 8, 63, 64, 65, 511, 512, 513}
	} else {
		batches = append(batches, 511, 512)
	}
	for _, k := range append(append([]int{}, oprfKeys...), extraKeys[5]...) {
		for _, b := range batches {
			ls := lens
			if b > 8 {
				ls = []int{32}
			}
			for _, cl := range ls {
				for _, nk := range nonces {
					if b > 8 && nk != 2 {
						continue
					}
					cases = append(cases, P{T: 5, Key: k, CL: cl, NK: nk, Seed: 0, Batch: b})
				}
			}
			if b <= 4 {
				for bl := 1; bl <= 5; bl++ {
					cases = append(cases, P{T: 5, Key: k, CL: 32, NK: 2, Seed: 1, Batch: b, Blind: bl})
				}
			}
		}
	}
	// type 3
	var names []int
	if th {
		for i := 0; i <= 70; i++ {
			names = append(names, i)
		}
		names = append(names, 255, 256, 1000, 4096)
	} else {
		names = []int{0, 1, 31, 32, 33, 64, 65}
	}
	for _, k := range mc.Pick(r, []int{0}, []int{0, 1, 2}) {
		for _, nl := range names {
			for _, cl := range mc.Pick(r, []int{0, 32}, []int{0, 32, 65535}) {
				cases = append(cases, P{T: 3, Key: k, CL: cl, NK: 2, Seed: 0, NameLen: nl, Blind: 5, Secret: 5})
			}
		}
		for sec := 1; sec <= 5; sec++ {
			for bl := 1; bl <= 5; bl++ {
				cases = append(cases, P{T: 3, Key: k, CL: 32, NK: sec % 3, Seed: 1, NameLen: 14, Blind: bl, Secret: sec})
			}
		}
		for bl := 6; bl <= 10; bl++ { // request blinds that are not scalars of the group
			cases = append(cases, P{T: 3, Key: k, CL: 32, NK: 2, Seed: 1, NameLen: 14, Blind: bl, Secret: 5})
		}
		for i := range specialNames {
			cases = append(cases, P{T: 3, Key: k, CL: 32, NK: 2, Seed: 2, NameLen: -(i + 1), Blind: 5, Secret: 5})
		}
	}

	r.SetRule("product of the per-type alphabets (type x key x challenge length x nonce kind x entropy seed x batch x origin length x blind kind x secret kind); every case is a distinct tuple; non-trivial = the flow reached client finalization (all honest cases should)")
	r.Assume("values (keys, nonces, challenges, blinds) come from fixed alphabets of representatives, not from the full 2^256+ spaces",
		"independent verifiers: crypto/rsa.VerifyPSS for types 2/3; RFC 9497 Evaluate recomposed from circl group primitives for types 1/5 (shares circl's group arithmetic with the implementation)",
		"crypto/rand.Reader is replaced by a per-goroutine SHA-256 counter DRBG")
	r.Set("dimensions", map[string]any{"oprf_keys": oprfKeys, "rsa_keys": rsaKeysIdx, "challenge_lens": lens, "nonce_kinds": nonces, "entropy_seeds": seeds, "type5_batches": batches, "type3_origin_lens": names})
	// the empty challenge written as a nil slice: every case with a zero-length challenge once more
	for _, c := range append([]P{}, cases...) {
		if c.CL == 0 {
			c.CL = -1
			cases = append(cases, c)
		}
	}
	r.Par(len(cases), func(i int) {
		if r.OutOfTime() {
			r.NotExhaustive("time budget")
			return
		}
		p := cases[i]
		v := runSafe(p)
		out := "valid-token"
		if v != nil {
			out = v.Sig
			r.Violation("flow", p, v)
		}
		r.Case(p.label(), v == nil, fmt.Sprintf("type%d:%s", p.T, out))
		if i%97 == 0 {
			r.Sample(p)
		}
	})
	// issuer-side object reuse: every permutation-free sequence of batch sizes / challenge lengths of length <= 3 (4)
	var reuse []reuseP
	alpha := map[int][]int{1: {0, 32, 255}, 2: {0, 32, 255}, 5: {1, 2, 3, 4}}
	maxLen := mc.Pick(r, 3, 4)
	for _, t := range []int{1, 2, 5} {
		var build func(cur []int)
		build = func(cur []int) {
			if len(cur) >= 2 {
				reuse = append(reuse, reuseP{T: t, Key: 0, Seq: append([]int{}, cur...)})
				reuse = append(reuse, reuseP{T: t, Key: 0, Seq: append([]int{}, cur...), Pipelined: true})
			}
			if len(cur) == maxLen {
				return
			}
			for _, a := range alpha[t] {
				build(append(cur, a))
			}
		}
		build(nil)
	}
	r.Par(len(reuse), func(i int) {
		var v *mc.Viol
		if pn := mc.CatchStack(func() { v = runReuse(reuse[i]) }); pn != "" {
			v = &mc.Viol{Sig: fmt.Sprintf("type%d honest flow panics: %s", reuse[i].T, trunc(pn, 60)), What: pn}
		}
		out := "valid-tokens"
		if v != nil {
			out = v.Sig
			r.Violation("reuse", reuse[i], v)
		}
		r.Case(fmt.Sprintf("reuse-%+v", reuse[i]), v == nil, fmt.Sprintf("type%d-reused-request-object:%s", reuse[i].T, out))
	})
	r.Set("issuer_object_reuse_sequences", len(reuse))
	_ = hex.EncodeToString
	r.Finish()
}
