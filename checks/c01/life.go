package main

// Life of ONE type-3 client object and of issuer objects that go on being configured while in
// use: the client talks to issuer A about a long origin name, A registers a second, shorter
// origin only after it has served the first request, the client asks for that one, then talks
// to issuer B - whose token key is a sibling of A's (same modulus, other exponent) chosen by
// search so that their key ids agree in the first / last byte (or an unrelated key) - and finally
// to A again. Every one of these honest issuances must yield a valid token of its own request.

import (
	"crypto/rsa"
	"fmt"

	"github.com/cloudflare/pat-go/tokens/type3"
	"github.com/cloudflare/pat-go/util"

	"verif/mc"
	"verif/px"
)

type lifeP struct {
	Sibling int `json:"issuer_b_key"`       // 0: key id agrees with A's in byte 0; 1: in byte 31; 2: unrelated key
	Order   int `json:"origin_name_order"`  // 0: long name first, then shorter ones; 1: short first
	RSA     int `json:"issuer_a_key_index"` // index into the fixed RSA keys
}

func spkiOf(pub *rsa.PublicKey) []byte {
	b, err := util.MarshalTokenKeyPSSOID(pub)
	if err != nil {
		panic(err)
	}
	return b
}

func runLife(p lifeP) *mc.Viol {
	mc.Entropy(fmt.Sprintf("c01-life-%d-%d-%d", p.Sibling, p.Order, p.RSA))
	ka := px.RSAKeys()[p.RSA]
	var kb *rsa.PrivateKey
	switch p.Sibling {
	case 0:
		kb = px.SiblingRSAKey(ka, 0, spkiOf)
	case 1:
		kb = px.SiblingRSAKey(ka, 31, spkiOf)
	default:
		kb = px.RSAKeys()[(p.RSA+1)%len(px.RSAKeys())]
	}
	wa, wb := px.NewW3Key(ka), px.NewW3Key(kb)
	secret := p384Scalar(5, "life-secret")
	cl := type3.NewRateLimitedClientFromSecret(append([]byte{}, secret...))
	att := type3.NewRateLimitedAttester(px.NewMemCache())
	names := []string{"a-rather-long-origin-name-that-needs-two-blocks.shop.example", "mid-size-origin.example", "b.example"}
	if p.Order == 1 {
		names[0], names[2] = names[2], names[0]
	}
	step := 0
	issue := func(w *px.W3, who, origin string) *mc.Viol {
		step++
		a := px.T3Args{Secret: secret, Blind: p384Scalar(5, fmt.Sprintf("life-blind-%d", step)), Challenge: mc.Fill(seedBase, fmt.Sprintf("life-chal-%d", step), 32),
			Nonce: mc.Fill(seedBase, fmt.Sprintf("life-nonce-%d", step), 32), Origin: origin, AnonOrigin: mc.Fill(seedBase, "life-anon-"+who+origin, 32), Client: &cl}
		out, se := w.Flow(att, a)
		where := fmt.Sprintf("step %d (issuer %s, origin %q) of one client's life", step, who, origin)
		if se != nil {
			return &mc.Viol{Sig: "type3 honest flow fails at " + se.Stage + " in the life of one client object: " + trunc(se.Err, 50), What: where + ": " + se.Error()}
		}
		if err := px.CheckLayout(out.Tokens[0], 3, a.Nonce, a.Challenge, w.KeyID); err != nil {
			return &mc.Viol{Sig: "type3 token of a later request of one client object is not bound to its request", What: where + ": " + err.Error()}
		}
		if err := px.VerifyRSAToken(&w.Key.PublicKey, out.Tokens[0]); err != nil {
			return &mc.Viol{Sig: "type3 token of a later request of one client object does not verify under the issuer's key", What: where + ": " + err.Error()}
		}
		return nil
	}
	must := func(err error) {
		if err != nil {
			panic("harness: " + err.Error())
		}
	}
	must(wa.Issuer.AddOrigin(names[0]))
	if v := issue(wa, "A", names[0]); v != nil {
		return v
	}
	must(wa.Issuer.AddOrigin(names[1])) // registered after the issuer has served a request
	if v := issue(wa, "A", names[1]); v != nil {
		return v
	}
	must(wb.Issuer.AddOrigin(names[2]))
	must(wb.Issuer.AddOrigin(names[0]))
	if v := issue(wb, "B", names[2]); v != nil {
		return v
	}
	if v := issue(wb, "B", names[0]); v != nil {
		return v
	}
	must(wa.Issuer.AddOrigin(names[2]))
	if v := issue(wa, "A", names[2]); v != nil {
		return v
	}
	return issue(wa, "A", names[0])
}
