// C13: the ECDSA fork accepts and produces exactly standard ECDSA.
//
// Differential bounded enumeration of /repo/ecdsa against crypto/ecdsa: (r,s) boundary
// pairs around honest signatures, digest variants, DER mutations of honest ASN.1
// signatures, cross acceptance of every producer, and every entropy-reader fault script
// with a bounded number of deviations (mc.FaultReader / mc.ExploreFaults).
package main

import (
	"bytes"
	stdecdsa "crypto/ecdsa"
	"crypto/elliptic"
	"encoding/hex"
	"encoding/json"
	"fmt"
	"math/big"
	"sort"
	"strings"

	"github.com/cloudflare/pat-go/ecdsa"

	"verif/mc"
)

var curves = map[string]elliptic.Curve{"P-224": elliptic.P224(), "P-256": elliptic.P256(), "P-384": elliptic.P384(), "P-521": elliptic.P521()}
var curveNames = []string{"P-224", "P-256", "P-384", "P-521"}

var one = big.NewInt(1)

func orderBytes(c elliptic.Curve) int { return (c.Params().N.BitLen() + 7) / 8 }

// ---- keys: valid key pairs only (scalar in [1, N-1], public point = d*G by crypto/elliptic) ----

type keyPair struct {
	c    elliptic.Curve
	d    *big.Int
	x, y *big.Int
}

func keyFromHex(curve, dHex string) *keyPair {
	c := curves[curve]
	b, _ := hex.DecodeString(dHex)
	d := new(big.Int).SetBytes(b)
	x, y := c.ScalarBaseMult(d.Bytes())
	return &keyPair{c, d, x, y}
}
func (k *keyPair) fork() *ecdsa.PrivateKey {
	return &ecdsa.PrivateKey{PublicKey: ecdsa.PublicKey{Curve: k.c, X: new(big.Int).Set(k.x), Y: new(big.Int).Set(k.y)}, D: new(big.Int).Set(k.d)}
}
func (k *keyPair) forkPub() *ecdsa.PublicKey {
	return &ecdsa.PublicKey{Curve: k.c, X: new(big.Int).Set(k.x), Y: new(big.Int).Set(k.y)}
}
func (k *keyPair) std() *stdecdsa.PrivateKey {
	return &stdecdsa.PrivateKey{PublicKey: stdecdsa.PublicKey{Curve: k.c, X: new(big.Int).Set(k.x), Y: new(big.Int).Set(k.y)}, D: new(big.Int).Set(k.d)}
}
func (k *keyPair) stdPub() *stdecdsa.PublicKey {
	return &stdecdsa.PublicKey{Curve: k.c, X: new(big.Int).Set(k.x), Y: new(big.Int).Set(k.y)}
}

type namedHex struct{ Name, Hex string }

func keyAlphabet(curve string, seed int64, thorough bool) []namedHex {
	c := curves[curve]
	N := c.Params().N
	fill := func(label string) string {
		v := new(big.Int).SetBytes(mc.Fill(seed, "c13-key-"+curve+"-"+label, orderBytes(c)+8))
		v.Mod(v, new(big.Int).Sub(N, one))
		v.Add(v, one)
		return hex.EncodeToString(v.Bytes())
	}
	out := []namedHex{{"fill", fill("a")}, {"N-1", hex.EncodeToString(new(big.Int).Sub(N, one).Bytes())}}
	if thorough {
		out = append(out, namedHex{"fill2", fill("b")}, namedHex{"1", "01"})
	}
	return out
}

func digestOf(seed int64, kind string, n int) []byte {
	switch kind {
	case "zero":
		return make([]byte, n)
	case "ff":
		return bytes.Repeat([]byte{0xff}, n)
	}
	return mc.Fill(seed, fmt.Sprintf("c13-digest-%d", n), n)
}

// ---- base case: curve, key, digest, and the entropy label of the honest signature ----

type base struct {
	Curve   string `json:"curve"`
	KeyName string `json:"key"`
	Key     string `json:"key_scalar_hex"`
	DKind   string `json:"digest_kind"`
	Digest  string `json:"digest_hex"`
	SigIdx  int    `json:"honest_signature_index"`
	Seed    int64  `json:"entropy_seed"`
}

func (b base) label() string {
	return fmt.Sprintf("%s|key=%s|digest=%s/%d|sig=%d", b.Curve, b.KeyName, b.DKind, len(b.Digest)/2, b.SigIdx)
}
func (b base) digest() []byte { d, _ := hex.DecodeString(b.Digest); return d }

// honest signature with the fork (deterministic given the stream)
func (b base) honest() (r, s *big.Int, v *mc.Viol) {
	k := keyFromHex(b.Curve, b.Key)
	var err error
	if p := mc.Catch(func() { r, s, err = ecdsa.Sign(mc.NewStream(b.Seed, "c13-honest|"+b.label()), k.fork(), b.digest()) }); p != "" {
		return nil, nil, &mc.Viol{Sig: "Sign panics on a valid key", What: b.label() + ": " + p}
	}
	if err != nil || r == nil || s == nil {
		return nil, nil, &mc.Viol{Sig: "Sign fails on a valid key with a healthy entropy source", What: fmt.Sprintf("%s: %v", b.label(), err)}
	}
	return r, s, nil
}

// ---- part A: verdict agreement on (r, s) and digest variants ----

type vrP struct {
	base
	RName string `json:"r_name"`
	SName string `json:"s_name"`
	R     string `json:"r_decimal"`
	S     string `json:"s_decimal"`
	VDig  string `json:"verified_digest_hex"`
	VName string `json:"verified_digest_name"`
}

func verdicts(k *keyPair, digest []byte, r, s *big.Int) (here, std bool, pHere, pStd string) {
	pHere = mc.Catch(func() {
		here = ecdsa.Verify(k.forkPub(), append([]byte{}, digest...), new(big.Int).Set(r), new(big.Int).Set(s))
	})
	pStd = mc.Catch(func() {
		std = stdecdsa.Verify(k.stdPub(), append([]byte{}, digest...), new(big.Int).Set(r), new(big.Int).Set(s))
	})
	return
}

func acc(b bool) string {
	if b {
		return "accept"
	}
	return "reject"
}

func checkVerdict(p vrP) (string, *mc.Viol) {
	k := keyFromHex(p.Curve, p.Key)
	r, ok1 := new(big.Int).SetString(p.R, 10)
	s, ok2 := new(big.Int).SetString(p.S, 10)
	if !ok1 || !ok2 {
		return "", &mc.Viol{Sig: "harness: bad case parameters", What: p.R + " " + p.S}
	}
	dg, _ := hex.DecodeString(p.VDig)
	// the verifier has just accepted the honest signature of this key and digest: nothing it may
	// remember of that (a cache of accepted signatures, of the last digest, ...) may decide this case
	if hr, hs, hv := p.base.honest(); hv == nil {
		ok := false
		if pn := mc.Catch(func() { ok = ecdsa.Verify(k.forkPub(), p.base.digest(), hr, hs) }); pn != "" || !ok {
			return "", &mc.Viol{Sig: p.Curve + ": Verify rejects an honest signature of this package", What: p.label() + " " + pn}
		}
	}
	here, std, pHere, pStd := verdicts(k, dg, r, s)
	desc := fmt.Sprintf("%s r=%s s=%s digest-variant=%s", p.label(), p.RName, p.SName, p.VName)
	if pStd != "" {
		return "", &mc.Viol{Sig: "harness: crypto/ecdsa.Verify panics", What: desc + ": " + pStd}
	}
	if pHere != "" {
		return "", &mc.Viol{Sig: p.Curve + ": Verify panics where crypto/ecdsa " + acc(std) + "s", What: desc + ": " + pHere}
	}
	if here != std {
		return "", &mc.Viol{Sig: fmt.Sprintf("%s: Verify %ss what crypto/ecdsa %ss", p.Curve, acc(here), acc(std)), What: desc}
	}
	return "verify: both " + acc(std), nil
}

// ---- constructed signatures whose nonce point has an affine x in [N, P) -----------------
//
// For such a point R = (x, y) the signature component is r = x - N (x mod N): a valid
// signature that random signing produces with probability ~2^-128 and that a verifier comparing
// x with r without the final reduction rejects. The public key is recovered from the chosen
// (R, s, digest): Q = r^-1 (s R - e G); no private key is known for it.

type wrapP struct {
	Curve  string `json:"curve"`
	T      int    `json:"x_is_N_plus"` // x = N + T
	YOdd   bool   `json:"y_odd"`
	S      string `json:"s_decimal"`
	Digest string `json:"digest_hex"` // 20 bytes: never truncated on these curves
	RForm  string `json:"r_form"`     // "x-N" (valid) | "x" (out of range) | "x-N+1" (wrong)
	Tiny   bool   `json:"tiny_x,omitempty"` // the nonce point's x is T itself (not N+T): r = T, a one-byte INTEGER; with a small s the DER signature is as short as DER allows
}

func sqrtOnCurve(c elliptic.Curve, x *big.Int) *big.Int {
	P, B := c.Params().P, c.Params().B
	y2 := new(big.Int).Mul(x, x)
	y2.Mul(y2, x)
	y2.Sub(y2, new(big.Int).Mul(big.NewInt(3), x))
	y2.Add(y2, B)
	y2.Mod(y2, P)
	return new(big.Int).ModSqrt(y2, P)
}

// wrapPoints returns the first k values t >= 1 such that x = N + t < P is the x-coordinate of a curve point.
func wrapPoints(c elliptic.Curve, k int) []int { return xPoints(c, k, false) }

// xPoints: the first k values t >= 1 such that N+t (or, tiny, t itself) is the x-coordinate of a curve point.
func xPoints(c elliptic.Curve, k int, tiny bool) []int {
	var out []int
	N, P := c.Params().N, c.Params().P
	for t := 1; len(out) < k && t < 4096; t++ {
		x := new(big.Int).Add(N, big.NewInt(int64(t)))
		if tiny {
			x = big.NewInt(int64(t))
		}
		if x.Cmp(P) >= 0 {
			break
		}
		if sqrtOnCurve(c, x) != nil {
			out = append(out, t)
		}
	}
	return out
}

func checkWrap(p wrapP) (string, *mc.Viol) {
	c := curves[p.Curve]
	N, P := c.Params().N, c.Params().P
	x := new(big.Int).Add(N, big.NewInt(int64(p.T)))
	if p.Tiny {
		x = big.NewInt(int64(p.T))
	}
	y := sqrtOnCurve(c, x)
	if y == nil || x.Cmp(P) >= 0 {
		return "", &mc.Viol{Sig: "harness: bad case parameters", What: fmt.Sprint(p)}
	}
	if (y.Bit(0) == 1) != p.YOdd {
		y.Sub(P, y)
	}
	s, ok := new(big.Int).SetString(p.S, 10)
	dg, _ := hex.DecodeString(p.Digest)
	if !ok || len(dg) != 20 {
		return "", &mc.Viol{Sig: "harness: bad case parameters", What: fmt.Sprint(p)}
	}
	rv := big.NewInt(int64(p.T)) // x - N
	e := new(big.Int).SetBytes(dg)
	rinv := new(big.Int).ModInverse(rv, N)
	u := new(big.Int).Mul(s, rinv)
	u.Mod(u, N)
	v := new(big.Int).Mul(e, rinv)
	v.Neg(v)
	v.Mod(v, N)
	x1, y1 := c.ScalarMult(x, y, u.Bytes())
	x2, y2 := c.ScalarBaseMult(v.Bytes())
	qx, qy := c.Add(x1, y1, x2, y2)
	if qx.Sign() == 0 && qy.Sign() == 0 {
		return "harness: recovered key is the point at infinity", nil
	}
	rr := new(big.Int).Set(rv)
	switch p.RForm {
	case "x":
		rr = new(big.Int).Set(x)
	case "x-N+1":
		rr.Add(rr, one)
	}
	var here, std, hereDER, stdDER bool
	pHere := mc.Catch(func() {
		here = ecdsa.Verify(&ecdsa.PublicKey{Curve: c, X: new(big.Int).Set(qx), Y: new(big.Int).Set(qy)}, append([]byte{}, dg...), new(big.Int).Set(rr), new(big.Int).Set(s))
	})
	std = stdecdsa.Verify(&stdecdsa.PublicKey{Curve: c, X: qx, Y: qy}, dg, rr, s)
	desc := fmt.Sprintf("%s: nonce point x = N+%d (y odd %v), r = %s, s = %s, digest %s, recovered public key (%x, %x)", p.Curve, p.T, p.YOdd, p.RForm, p.S, p.Digest, qx, qy)
	if p.Tiny {
		desc = fmt.Sprintf("%s: nonce point x = %d (y odd %v), r = x, s = %s, digest %s, recovered public key (%x, %x)", p.Curve, p.T, p.YOdd, p.S, p.Digest, qx, qy)
	}
	if pHere != "" {
		return "", &mc.Viol{Sig: p.Curve + ": Verify panics where crypto/ecdsa " + acc(std) + "s", What: desc + ": " + pHere}
	}
	if p.RForm == "x-N" && !std {
		return "harness: crypto/ecdsa rejects the constructed signature", nil
	}
	if here != std {
		return "", &mc.Viol{Sig: fmt.Sprintf("%s: Verify %ss what crypto/ecdsa %ss (nonce point with x >= N)", p.Curve, acc(here), acc(std)), What: desc}
	}
	if rr.Sign() > 0 && rr.Cmp(N) < 0 {
		der := tlv([]byte{0x30}, cat(tlv([]byte{0x02}, encInt(rr), 0), tlv([]byte{0x02}, encInt(s), 0)), 0)
		pDER := mc.Catch(func() {
			hereDER = ecdsa.VerifyASN1(&ecdsa.PublicKey{Curve: c, X: new(big.Int).Set(qx), Y: new(big.Int).Set(qy)}, append([]byte{}, dg...), der)
		})
		stdDER = stdecdsa.VerifyASN1(&stdecdsa.PublicKey{Curve: c, X: qx, Y: qy}, dg, der)
		if pDER != "" || hereDER != stdDER {
			return "", &mc.Viol{Sig: fmt.Sprintf("%s: VerifyASN1 %ss what crypto/ecdsa %ss (nonce point with x >= N)", p.Curve, acc(hereDER), acc(stdDER)), What: desc + " " + pDER}
		}
	}
	return "wrap: both " + acc(std), nil
}

// ---- signatures under special public keys ----
//
// Public keys with a coordinate that is zero (x = 0 exists on P-256, P-384, P-521) or tiny: valid
// points whose discrete logarithm nobody knows. A valid (digest, r, s) is made the other way
// round: R = u1*G + u2*Q, r = x(R) mod N, s = r/u2, e = u1*s, and the digest is e itself.

type skP struct {
	Curve string `json:"curve"`
	X     int    `json:"public_key_x"`
	YOdd  bool   `json:"y_odd"`
	Idx   int    `json:"index"`
	Flip  bool   `json:"digest_bit_flipped,omitempty"` // an invalid variant: same (r, s), another digest
}

func checkSpecialKey(p skP) (string, *mc.Viol) {
	c := curves[p.Curve]
	N, P := c.Params().N, c.Params().P
	qx := big.NewInt(int64(p.X))
	qy := sqrtOnCurve(c, qx)
	if qy == nil {
		return "no such point", nil
	}
	if (qy.Bit(0) == 1) != p.YOdd {
		qy.Sub(P, qy)
	}
	u1 := new(big.Int).SetBytes(mc.Fill(0, fmt.Sprintf("c13-sk-u1-%s-%d-%d", p.Curve, p.X, p.Idx), 80))
	u1.Mod(u1, new(big.Int).Sub(N, one)).Add(u1, one)
	u2 := new(big.Int).SetBytes(mc.Fill(0, fmt.Sprintf("c13-sk-u2-%s-%d-%d", p.Curve, p.X, p.Idx), 80))
	u2.Mod(u2, new(big.Int).Sub(N, one)).Add(u2, one)
	x1, y1 := c.ScalarBaseMult(u1.Bytes())
	x2, y2 := c.ScalarMult(qx, qy, u2.Bytes())
	rx, _ := c.Add(x1, y1, x2, y2)
	r := new(big.Int).Mod(rx, N)
	if r.Sign() == 0 {
		return "harness: r = 0", nil
	}
	s := new(big.Int).Mul(r, new(big.Int).ModInverse(u2, N))
	s.Mod(s, N)
	e := new(big.Int).Mul(u1, s)
	e.Mod(e, N)
	ob := orderBytes(c)
	dg := new(big.Int).Lsh(e, uint(8*ob-N.BitLen())).FillBytes(make([]byte, ob))
	if p.Flip {
		dg[ob/2] ^= 0x10
	}
	var here bool
	pn := mc.Catch(func() {
		here = ecdsa.Verify(&ecdsa.PublicKey{Curve: c, X: new(big.Int).Set(qx), Y: new(big.Int).Set(qy)}, append([]byte{}, dg...), new(big.Int).Set(r), new(big.Int).Set(s))
	})
	std := stdecdsa.Verify(&stdecdsa.PublicKey{Curve: c, X: qx, Y: qy}, dg, r, s)
	desc := fmt.Sprintf("%s: public key (%d, %x), digest %x, r = %s, s = %s", p.Curve, p.X, qy, dg, r, s)
	if pn != "" {
		return "", &mc.Viol{Sig: p.Curve + ": Verify panics where crypto/ecdsa " + acc(std) + "s (public key with a special coordinate)", What: desc + ": " + pn}
	}
	if !p.Flip && !std {
		return "harness: crypto/ecdsa rejects the constructed signature", nil
	}
	if here != std {
		return "", &mc.Viol{Sig: fmt.Sprintf("%s: Verify %ss what crypto/ecdsa %ss (public key with a special coordinate)", p.Curve, acc(here), acc(std)), What: desc}
	}
	return "special key: both " + acc(std), nil
}

// ---- key generation on boundary entropy ----
//
// Whatever the entropy source delivers, a generated key is a valid ECDSA key: 1 <= D <= N-1,
// (X, Y) = D*G, and a signature made with it verifies under crypto/ecdsa.

type kgP struct {
	Curve string `json:"curve"`
	Name  string `json:"entropy"`
	Block string `json:"entropy_block_hex"`
}

type blockReader struct {
	b []byte
}

func (r *blockReader) Read(p []byte) (int, error) {
	for i := range p {
		if len(r.b) > 0 {
			p[i] = r.b[0]
			r.b = r.b[1:]
		} else {
			p[i] = 0
		}
	}
	return len(p), nil
}

func checkKeyGen(p kgP) (string, *mc.Viol) {
	c := curves[p.Curve]
	blk, _ := hex.DecodeString(p.Block)
	var k *ecdsa.PrivateKey
	var err error
	if pn := mc.Catch(func() { k, err = ecdsa.GenerateKey(c, &blockReader{b: append([]byte{}, blk...)}) }); pn != "" {
		return "", &mc.Viol{Sig: p.Curve + ": GenerateKey panics on a healthy entropy source", What: p.Name + ": " + pn}
	}
	if err != nil || k == nil {
		return "", &mc.Viol{Sig: p.Curve + ": GenerateKey fails on a healthy entropy source", What: fmt.Sprintf("%s: %v", p.Name, err)}
	}
	N := c.Params().N
	if k.D == nil || k.D.Sign() <= 0 || k.D.Cmp(N) >= 0 {
		return "", &mc.Viol{Sig: p.Curve + ": GenerateKey returns a private scalar outside [1, N-1]", What: fmt.Sprintf("%s: D = %v", p.Name, k.D)}
	}
	x, y := c.ScalarBaseMult(k.D.Bytes())
	if k.X == nil || k.Y == nil || x.Cmp(k.X) != 0 || y.Cmp(k.Y) != 0 {
		return "", &mc.Viol{Sig: p.Curve + ": GenerateKey returns a public key that is not D*G", What: p.Name}
	}
	dg := digestOf(0, "fill", 32)
	var r, s2 *big.Int
	if pn := mc.Catch(func() { r, s2, err = ecdsa.Sign(mc.NewStream(0, "c13-keygen-sign"), k, dg) }); pn != "" || err != nil {
		return "", &mc.Viol{Sig: p.Curve + ": Sign fails with a freshly generated key", What: fmt.Sprintf("%s: %s %v", p.Name, pn, err)}
	}
	if !stdecdsa.Verify(&stdecdsa.PublicKey{Curve: c, X: x, Y: y}, dg, r, s2) {
		return "", &mc.Viol{Sig: p.Curve + ": a signature made with a freshly generated key is rejected by crypto/ecdsa", What: p.Name}
	}
	return "keygen: valid key on boundary entropy", nil
}

type nb struct {
	Name string
	V    *big.Int
}

func boundarySet(c elliptic.Curve, r, s *big.Int) []nb {
	N := c.Params().N
	add := func(a, b *big.Int) *big.Int { return new(big.Int).Add(a, b) }
	sub := func(a, b *big.Int) *big.Int { return new(big.Int).Sub(a, b) }
	return []nb{
		{"-1", big.NewInt(-1)}, {"0", big.NewInt(0)}, {"1", big.NewInt(1)}, {"2", big.NewInt(2)},
		{"N-1", sub(N, one)}, {"N", new(big.Int).Set(N)}, {"N+1", add(N, one)}, {"2N-1", sub(add(N, N), one)},
		{"r*", new(big.Int).Set(r)}, {"s*", new(big.Int).Set(s)}, {"N-s*", sub(N, s)}, {"s*+N", add(s, N)}, {"r*+N", add(r, N)},
		{"2^bits", new(big.Int).Lsh(one, uint(N.BitLen()))}, {"-s*", new(big.Int).Neg(s)}, {"s*-N", sub(s, N)}, {"-r*", new(big.Int).Neg(r)}, {"N-r*", sub(N, r)},
	}
}

func digestVariants(c elliptic.Curve, d []byte) []namedHex {
	h := func(b []byte) string { return hex.EncodeToString(b) }
	out := []namedHex{{"same", h(d)}, {"empty", ""}, {"plus 00", h(append(append([]byte{}, d...), 0))}}
	if len(d) > 0 {
		f := append([]byte{}, d...)
		f[0] ^= 0x80
		out = append(out, namedHex{"first bit flipped", h(f)})
		l := append([]byte{}, d...)
		l[len(l)-1] ^= 0x01
		out = append(out, namedHex{"last bit flipped", h(l)}, namedHex{"last byte dropped", h(d[:len(d)-1])})
	}
	if ob := orderBytes(c); len(d) > ob {
		out = append(out, namedHex{"truncated to the order length", h(d[:ob])})
		t := append([]byte{}, d...)
		t[ob] ^= 0xff
		out = append(out, namedHex{"byte behind the order length changed", h(t)})
	}
	return out
}

// ---- part B: DER ----

type drP struct {
	base
	Mut string `json:"mutation"`
	Sig string `json:"signature_hex"`
}

func checkDER(p drP) (string, *mc.Viol) {
	k := keyFromHex(p.Curve, p.Key)
	sig, _ := hex.DecodeString(p.Sig)
	var here, std bool
	pStd := mc.Catch(func() { std = stdecdsa.VerifyASN1(k.stdPub(), p.digest(), append([]byte{}, sig...)) })
	pHere := mc.Catch(func() { here = ecdsa.VerifyASN1(k.forkPub(), p.digest(), append([]byte{}, sig...)) })
	desc := fmt.Sprintf("%s mutation=%s sig=%s", p.label(), p.Mut, p.Sig)
	if pStd != "" {
		return "", &mc.Viol{Sig: "harness: crypto/ecdsa.VerifyASN1 panics", What: desc + ": " + pStd}
	}
	if pHere != "" {
		return "", &mc.Viol{Sig: p.Curve + ": VerifyASN1 panics where crypto/ecdsa " + acc(std) + "s", What: desc + ": " + pHere}
	}
	if here != std {
		return "", &mc.Viol{Sig: fmt.Sprintf("%s: VerifyASN1 %ss what crypto/ecdsa %ss", p.Curve, acc(here), acc(std)), What: desc}
	}
	return "verifyASN1: both " + acc(std), nil
}

// hand-written DER
func encLen(n, form int) []byte {
	if form == 0 {
		if n < 128 {
			return []byte{byte(n)}
		}
		form = 1
		for x := n >> 8; x > 0; x >>= 8 {
			form++
		}
	}
	out := []byte{0x80 | byte(form)}
	for i := form - 1; i >= 0; i-- {
		out = append(out, byte(n>>(8*uint(i))))
	}
	return out
}

// encInt: minimal two's-complement content octets.
func encInt(v *big.Int) []byte {
	if v.Sign() == 0 {
		return []byte{0}
	}
	if v.Sign() > 0 {
		b := v.Bytes()
		if b[0]&0x80 != 0 {
			b = append([]byte{0}, b...)
		}
		return b
	}
	m := new(big.Int).Neg(v)
	m.Sub(m, one) // -v-1
	k := m.BitLen()/8 + 1
	t := new(big.Int).Lsh(one, uint(8*k))
	t.Add(t, v)
	return t.FillBytes(make([]byte, k))
}

func tlv(tag []byte, content []byte, form int) []byte {
	out := append([]byte{}, tag...)
	out = append(out, encLen(len(content), form)...)
	return append(out, content...)
}

func cat(parts ...[]byte) []byte {
	var out []byte
	for _, p := range parts {
		out = append(out, p...)
	}
	return out
}

type mut struct {
	Name string
	B    []byte
}

func derMutations(honest []byte, c elliptic.Curve, r, s *big.Int, seed int64) []mut {
	N := c.Params().N
	var out []mut
	add := func(name string, b []byte) { out = append(out, mut{name, b}) }
	tI, tS := []byte{0x02}, []byte{0x30}
	I := func(v *big.Int) []byte { return tlv(tI, encInt(v), 0) }
	SEQ := func(parts ...[]byte) []byte { return tlv(tS, cat(parts...), 0) }
	nS := new(big.Int).Sub(N, s)
	canon := SEQ(I(r), I(s))

	add("honest", honest)
	add("canonical re-encoding", canon)
	add("canonical (r*, N-s*)", SEQ(I(r), I(nS)))
	add("swapped (s*, r*)", SEQ(I(s), I(r)))
	// non-minimal / negative / out-of-range integers
	pad := func(v *big.Int, n int) []byte { return tlv(tI, append(make([]byte, n), encInt(v)...), 0) }
	add("r with extra 00", SEQ(pad(r, 1), I(s)))
	add("s with extra 00", SEQ(I(r), pad(s, 1)))
	add("r and s with extra 00 00", SEQ(pad(r, 2), pad(s, 2)))
	add("r first content byte dropped", SEQ(tlv(tI, encInt(r)[1:], 0), I(s)))
	add("s first content byte dropped", SEQ(I(r), tlv(tI, encInt(s)[1:], 0)))
	add("r as unsigned bytes (no sign padding)", SEQ(tlv(tI, r.Bytes(), 0), I(s)))
	add("s as unsigned bytes (no sign padding)", SEQ(I(r), tlv(tI, s.Bytes(), 0)))
	add("r fixed width", SEQ(tlv(tI, r.FillBytes(make([]byte, orderBytes(c)+1)), 0), I(s)))
	for _, x := range []struct {
		n    string
		a, b *big.Int
	}{
		{"(-r*, s*)", new(big.Int).Neg(r), s}, {"(r*, -s*)", r, new(big.Int).Neg(s)},
		{"(r*-N, s*)", new(big.Int).Sub(r, N), s}, {"(r*, s*-N)", r, new(big.Int).Sub(s, N)},
		{"(0, s*)", big.NewInt(0), s}, {"(r*, 0)", r, big.NewInt(0)}, {"(0, 0)", big.NewInt(0), big.NewInt(0)},
		{"(r*+N, s*)", new(big.Int).Add(r, N), s}, {"(r*, s*+N)", r, new(big.Int).Add(s, N)},
		{"(N, s*)", N, s}, {"(r*, N)", r, N}, {"(1, 1)", one, one}, {"(r*, 1)", r, one}, {"(-1, -1)", big.NewInt(-1), big.NewInt(-1)},
		{"(r*, 2N-s*)", r, new(big.Int).Sub(new(big.Int).Add(N, N), s)},
	} {
		add("integers "+x.n, SEQ(I(x.a), I(x.b)))
	}
	add("r empty INTEGER", SEQ(tlv(tI, nil, 0), I(s)))
	add("s empty INTEGER", SEQ(I(r), tlv(tI, nil, 0)))
	add("negative zero ff", SEQ(I(r), tlv(tI, []byte{0xff}, 0)))
	add("s with ff padding", SEQ(I(r), tlv(tI, append([]byte{0xff}, encInt(s)...), 0)))
	// length forms
	for f := 1; f <= 5; f++ {
		add(fmt.Sprintf("SEQUENCE long-form length, %d length bytes", f), tlv(tS, cat(I(r), I(s)), f))
		add(fmt.Sprintf("r long-form length, %d length bytes", f), SEQ(tlv(tI, encInt(r), f), I(s)))
		add(fmt.Sprintf("s long-form length, %d length bytes", f), SEQ(I(r), tlv(tI, encInt(s), f)))
	}
	add("SEQUENCE indefinite length", cat([]byte{0x30, 0x80}, I(r), I(s), []byte{0, 0}))
	add("SEQUENCE length byte 80 without end marker", cat([]byte{0x30, 0x80}, I(r), I(s)))
	add("r indefinite length", SEQ(cat([]byte{0x02, 0x80}, encInt(r), []byte{0, 0}), I(s)))
	add("SEQUENCE length ff", cat([]byte{0x30, 0xff}, I(r), I(s)))
	// tags
	for _, t := range []byte{0x31, 0x10, 0x70, 0xa0, 0x24, 0x20, 0xb0, 0x00} {
		add(fmt.Sprintf("SEQUENCE tag %02x", t), tlv([]byte{t}, cat(I(r), I(s)), 0))
	}
	for _, t := range []byte{0x03, 0x04, 0x22, 0x82, 0x0a, 0x01, 0x42, 0x00} {
		add(fmt.Sprintf("r tag %02x", t), SEQ(tlv([]byte{t}, encInt(r), 0), I(s)))
		add(fmt.Sprintf("s tag %02x", t), SEQ(I(r), tlv([]byte{t}, encInt(s), 0)))
	}
	add("r high-tag-number form 1f 02", SEQ(tlv([]byte{0x1f, 0x02}, encInt(r), 0), I(s)))
	add("SEQUENCE high-tag-number form 3f 10", tlv([]byte{0x3f, 0x10}, cat(I(r), I(s)), 0))
	// extra / missing elements, trailing bytes inside and outside
	add("third INTEGER inside", SEQ(I(r), I(s), I(one)))
	add("trailing 00 inside the SEQUENCE", SEQ(I(r), I(s), []byte{0}))
	add("trailing NULL inside the SEQUENCE", SEQ(I(r), I(s), []byte{5, 0}))
	add("trailing 32 bytes inside the SEQUENCE", SEQ(I(r), I(s), mc.Fill(seed, "c13-trail", 32)))
	add("trailing empty INTEGER inside", SEQ(I(r), I(s), []byte{2, 0}))
	for _, base := range []struct {
		n string
		b []byte
	}{{"honest", honest}, {"canonical", canon}} {
		add(base.n+" + 00 outside", cat(base.b, []byte{0}))
		add(base.n+" + 00 00 outside", cat(base.b, []byte{0, 0}))
		add(base.n+" + NULL outside", cat(base.b, []byte{5, 0}))
		add(base.n+" + 32 bytes outside", cat(base.b, mc.Fill(seed, "c13-trail", 32)))
		add(base.n+" twice", cat(base.b, base.b))
		add("00 + "+base.n, cat([]byte{0}, base.b))
	}
	body := cat(I(r), I(s))
	add("SEQUENCE length one too long", cat([]byte{0x30}, encLen(len(body)+1, 0), body))
	add("SEQUENCE length one too long, padded", cat([]byte{0x30}, encLen(len(body)+1, 0), body, []byte{0}))
	add("SEQUENCE length one too short", cat([]byte{0x30}, encLen(len(body)-1, 0), body))
	add("only r", SEQ(I(r)))
	add("only s", SEQ(I(s)))
	add("empty SEQUENCE", []byte{0x30, 0x00})
	add("empty input", []byte{})
	add("nested SEQUENCE", SEQ(canon))
	add("r and s each wrapped in a SEQUENCE", SEQ(SEQ(I(r)), SEQ(I(s))))
	add("bare integers without SEQUENCE", body)
	add("raw r||s fixed width", cat(r.FillBytes(make([]byte, orderBytes(c))), s.FillBytes(make([]byte, orderBytes(c)))))

	// structural mutations of the honest encoding
	for i := 0; i < len(honest); i++ {
		add(fmt.Sprintf("prefix of %d bytes", i), honest[:i])
	}
	for i := 0; i < len(honest)*8; i++ {
		b := append([]byte{}, honest...)
		b[i/8] ^= 0x80 >> uint(i%8)
		add(fmt.Sprintf("bit %d flipped", i), b)
	}
	// header byte positions of SEQUENCE{INTEGER,INTEGER}
	var hdr []int
	if len(honest) > 8 && honest[0] == 0x30 {
		p := 1
		hdr = append(hdr, 0, 1)
		if honest[1]&0x80 != 0 {
			for j := 0; j < int(honest[1]&0x7f); j++ {
				hdr = append(hdr, 2+j)
			}
			p = 1 + int(honest[1]&0x7f)
		}
		p++ // first INTEGER tag
		if p+1 < len(honest) && honest[p+1] < 0x80 {
			hdr = append(hdr, p, p+1)
			q := p + 2 + int(honest[p+1])
			if q+1 < len(honest) {
				hdr = append(hdr, q, q+1)
			}
		}
	}
	sigma := []byte{0x00, 0x01, 0x02, 0x03, 0x04, 0x05, 0x0a, 0x10, 0x1f, 0x20, 0x21, 0x22, 0x30, 0x31, 0x3f, 0x40, 0x42, 0x7f, 0x80, 0x81, 0x82, 0x83, 0x84, 0x88, 0xa0, 0xa2, 0xc2, 0xe2, 0xfe, 0xff}
	for _, pos := range hdr {
		vals := append([]byte{}, sigma...)
		vals = append(vals, honest[pos]+1, honest[pos]-1, honest[pos]+2, honest[pos]-2)
		seen := map[byte]bool{honest[pos]: true}
		for _, v := range vals {
			if seen[v] {
				continue
			}
			seen[v] = true
			b := append([]byte{}, honest...)
			b[pos] = v
			add(fmt.Sprintf("header byte %d := %02x", pos, v), b)
		}
	}
	return out
}

// ---- part C: cross acceptance ----

type crP struct {
	base
	Blind string `json:"blind_key_bytes_hex"`
	Ctx   string `json:"context_hex"`
}

type crossResult struct{ Producer, Outcome string }

func checkCross(p crP) ([]crossResult, *mc.Viol) {
	k := keyFromHex(p.Curve, p.Key)
	dg := p.digest()
	var res []crossResult
	lbl := "c13-cross|" + p.label() + "|" + p.Blind + "|" + p.Ctx
	bad := func(prod, what string) *mc.Viol {
		return &mc.Viol{Sig: p.Curve + ": " + prod + ": " + what, What: p.label()}
	}
	okRS := func(prod string, pub *keyPair, r, s *big.Int) *mc.Viol {
		here, std, pH, pS := verdicts(pub, dg, r, s)
		if pH != "" || pS != "" {
			return bad(prod, "verification panics: "+pH+pS)
		}
		if !std {
			return bad(prod, "signature does not verify under crypto/ecdsa.Verify")
		}
		if !here {
			return bad(prod, "signature does not verify under this package's Verify")
		}
		res = append(res, crossResult{prod, "accepted by both verifiers"})
		return nil
	}
	okASN1 := func(prod string, sig []byte) *mc.Viol {
		var here, std bool
		if pn := mc.Catch(func() {
			std = stdecdsa.VerifyASN1(k.stdPub(), dg, sig)
			here = ecdsa.VerifyASN1(k.forkPub(), dg, sig)
		}); pn != "" {
			return bad(prod, "verification panics: "+pn)
		}
		if !std {
			return bad(prod, "ASN.1 signature does not verify under crypto/ecdsa.VerifyASN1")
		}
		if !here {
			return bad(prod, "ASN.1 signature does not verify under this package's VerifyASN1")
		}
		res = append(res, crossResult{prod, "accepted by both verifiers"})
		return nil
	}
	var r, s *big.Int
	var sig []byte
	var err error
	// producers of this package
	if pn := mc.Catch(func() { r, s, err = ecdsa.Sign(mc.NewStream(p.Seed, lbl+"|Sign"), k.fork(), dg) }); pn != "" || err != nil || r == nil || s == nil {
		return res, bad("Sign", fmt.Sprintf("fails with a healthy entropy source: %v %s", err, pn))
	}
	if v := okRS("Sign", k, r, s); v != nil {
		return res, v
	}
	if pn := mc.Catch(func() { sig, err = ecdsa.SignASN1(mc.NewStream(p.Seed, lbl+"|SignASN1"), k.fork(), dg) }); pn != "" || err != nil || len(sig) == 0 {
		return res, bad("SignASN1", fmt.Sprintf("fails with a healthy entropy source: %v %s", err, pn))
	}
	if v := okASN1("SignASN1", sig); v != nil {
		return res, v
	}
	if pn := mc.Catch(func() { sig, err = k.fork().Sign(mc.NewStream(p.Seed, lbl+"|PrivateKey.Sign"), dg, nil) }); pn != "" || err != nil || len(sig) == 0 {
		return res, bad("PrivateKey.Sign", fmt.Sprintf("fails with a healthy entropy source: %v %s", err, pn))
	}
	if v := okASN1("PrivateKey.Sign", sig); v != nil {
		return res, v
	}
	// key-blinded producers: verified under the blinded public key this package computes
	bkb, _ := hex.DecodeString(p.Blind)
	ctx, _ := hex.DecodeString(p.Ctx)
	var bk *ecdsa.PrivateKey
	var pkR *ecdsa.PublicKey
	if pn := mc.Catch(func() {
		bk, err = ecdsa.CreateKey(k.c, bkb)
		if err == nil {
			pkR, err = ecdsa.BlindPublicKeyWithContext(k.c, k.forkPub(), bk, ctx)
		}
	}); pn != "" || err != nil || pkR == nil {
		return res, bad("BlindPublicKeyWithContext", fmt.Sprintf("fails: %v %s", err, pn))
	}
	if !k.c.IsOnCurve(pkR.X, pkR.Y) {
		return res, bad("BlindPublicKeyWithContext", "blinded key is not on the curve")
	}
	kR := &keyPair{c: k.c, x: pkR.X, y: pkR.Y}
	if pn := mc.Catch(func() {
		r, s, err = ecdsa.BlindKeySignWithContext(mc.NewStream(p.Seed, lbl+"|BlindKeySignWithContext"), k.fork(), bk, dg, ctx)
	}); pn != "" || err != nil || r == nil || s == nil {
		return res, bad("BlindKeySignWithContext", fmt.Sprintf("fails with a healthy entropy source: %v %s", err, pn))
	}
	if v := okRS("BlindKeySignWithContext", kR, r, s); v != nil {
		return res, v
	}
	if len(ctx) == 0 {
		if pn := mc.Catch(func() { r, s, err = ecdsa.BlindKeySign(mc.NewStream(p.Seed, lbl+"|BlindKeySign"), k.fork(), bk, dg) }); pn != "" || err != nil || r == nil || s == nil {
			return res, bad("BlindKeySign", fmt.Sprintf("fails with a healthy entropy source: %v %s", err, pn))
		}
		if v := okRS("BlindKeySign", kR, r, s); v != nil {
			return res, v
		}
	}
	// producers of the standard library
	var pnS string
	pnS = mc.Catch(func() { r, s, err = stdecdsa.Sign(mc.NewStream(p.Seed, lbl+"|std.Sign"), k.std(), dg) })
	if pnS != "" || err != nil {
		return res, &mc.Viol{Sig: "harness: crypto/ecdsa.Sign fails", What: fmt.Sprintf("%s: %v %s", p.label(), err, pnS)}
	}
	if v := okRS("crypto/ecdsa.Sign", k, r, s); v != nil {
		return res, v
	}
	pnS = mc.Catch(func() { sig, err = stdecdsa.SignASN1(mc.NewStream(p.Seed, lbl+"|std.SignASN1"), k.std(), dg) })
	if pnS != "" || err != nil {
		return res, &mc.Viol{Sig: "harness: crypto/ecdsa.SignASN1 fails", What: fmt.Sprintf("%s: %v %s", p.label(), err, pnS)}
	}
	if v := okASN1("crypto/ecdsa.SignASN1", sig); v != nil {
		return res, v
	}
	return res, nil
}

// ---- part D: entropy faults ----

type ftP struct {
	Op     string   `json:"operation"`
	Curve  string   `json:"curve"`
	Key    string   `json:"key_scalar_hex"`
	Blind  string   `json:"blind_key_bytes_hex"`
	Ctx    string   `json:"context_hex"`
	Digest string   `json:"digest_hex"`
	Devs   []mc.Dev `json:"deviations"`
	Seed   int64    `json:"entropy_seed"`
}

func (p ftP) readerLabel() string { return "c13-fault|" + p.Op + "|" + p.Curve }
func (p ftP) label() string {
	dj, _ := json.Marshal(p.Devs)
	return p.readerLabel() + "|" + string(dj)
}

var coinOps = map[string]bool{"Sign": true, "SignASN1": true, "PrivateKey.Sign": true, "BlindKeySign": true, "BlindKeySignWithContext": true}

const coinCap = 64

type opOut struct {
	err    error
	empty  bool   // no key / no r,s / no signature returned
	repr   string // canonical form of the result
	panicv string
}

// runOnce executes the operation once under the script.
func runOnce(p ftP, devs []mc.Dev) (opOut, *mc.FaultReader) {
	fr := mc.NewFaultReader(p.Seed, p.readerLabel(), devs)
	k := keyFromHex(p.Curve, p.Key)
	dg, _ := hex.DecodeString(p.Digest)
	var o opOut
	rs := func(r, s *big.Int, err error) {
		o.err = err
		o.empty = r == nil && s == nil
		o.repr = fmt.Sprintf("r=%v s=%v", r, s)
	}
	o.panicv = mc.Catch(func() {
		switch p.Op {
		case "GenerateKey":
			key, err := ecdsa.GenerateKey(k.c, fr)
			o.err = err
			o.empty = key == nil
			if key != nil {
				o.repr = fmt.Sprintf("D=%v X=%v Y=%v", key.D, key.X, key.Y)
			}
		case "Sign":
			rs(ecdsa.Sign(fr, k.fork(), dg))
		case "SignASN1":
			sig, err := ecdsa.SignASN1(fr, k.fork(), dg)
			o.err, o.empty, o.repr = err, len(sig) == 0, hex.EncodeToString(sig)
		case "PrivateKey.Sign":
			sig, err := k.fork().Sign(fr, dg, nil)
			o.err, o.empty, o.repr = err, len(sig) == 0, hex.EncodeToString(sig)
		case "BlindKeySign", "BlindKeySignWithContext":
			bkb, _ := hex.DecodeString(p.Blind)
			bk, err := ecdsa.CreateKey(k.c, bkb)
			if err != nil {
				o.err = err
				return
			}
			if p.Op == "BlindKeySign" {
				rs(ecdsa.BlindKeySign(fr, k.fork(), bk, dg))
			} else {
				ctx, _ := hex.DecodeString(p.Ctx)
				rs(ecdsa.BlindKeySignWithContext(fr, k.fork(), bk, dg, ctx))
			}
		default:
			panic("harness: unknown operation " + p.Op)
		}
	})
	return o, fr
}

type faultRun struct {
	log       []mc.Rec
	outcome   string
	capHit    bool
	execs     int
	coinsSeen [2]bool
}

// runScript executes the script until both MaybeReadByte coin outcomes were observed
// (operations without the coin: twice) and applies the oracle to every execution.
// def is the result of the default script ("" = this is the default script).
func runScript(p ftP, def string) (fr faultRun, defRepr string, v *mc.Viol) {
	desc := p.label()
	tries := coinCap
	if !coinOps[p.Op] {
		tries = 2
	}
	first := ""
	for t := 0; t < tries; t++ {
		o, rd := runOnce(p, p.Devs)
		fr.execs++
		fr.log = rd.NonCoin()
		if coinOps[p.Op] {
			if rd.CoinSeen() {
				fr.coinsSeen[1] = true
			} else {
				fr.coinsSeen[0] = true
			}
		}
		lj, _ := json.Marshal(rd.Log)
		ctxt := fmt.Sprintf("%s reads=%s", desc, lj)
		if o.panicv != "" {
			return fr, "", &mc.Viol{Sig: p.Op + " panics under an entropy fault script", What: ctxt + ": " + o.panicv}
		}
		if rd.Failed {
			fr.outcome = "entropy error -> error and no result"
			if o.err == nil {
				return fr, "", &mc.Viol{Sig: p.Op + " returns no error although the entropy reader failed", What: fmt.Sprintf("%s result=%s", ctxt, o.repr)}
			}
			if !o.empty {
				return fr, "", &mc.Viol{Sig: p.Op + " returns a result together with the entropy error", What: fmt.Sprintf("%s err=%v result=%s", ctxt, o.err, o.repr)}
			}
		} else {
			if o.err != nil || o.empty {
				return fr, "", &mc.Viol{Sig: p.Op + " fails although the entropy reader delivered every byte (short reads only)", What: fmt.Sprintf("%s err=%v", ctxt, o.err)}
			}
			if t == 0 {
				first = o.repr
			} else if o.repr != first {
				return fr, "", &mc.Viol{Sig: p.Op + " result depends on the MaybeReadByte coin / is not a function of the entropy stream", What: fmt.Sprintf("%s first=%s now=%s", ctxt, first, o.repr)}
			}
			if def == "" {
				fr.outcome = "default script -> result"
			} else {
				fr.outcome = "short reads only -> same result as the default script"
				if o.repr != def {
					return fr, "", &mc.Viol{Sig: p.Op + " result changes when the entropy reader returns short reads", What: fmt.Sprintf("%s default=%s now=%s", ctxt, def, o.repr)}
				}
			}
		}
		if !coinOps[p.Op] {
			continue
		}
		if fr.coinsSeen[0] && fr.coinsSeen[1] {
			break
		}
	}
	if coinOps[p.Op] && !(fr.coinsSeen[0] && fr.coinsSeen[1]) {
		fr.capHit = true
	}
	return fr, first, nil
}

// validateDefault: the default-script result is a valid key / a signature crypto/ecdsa accepts.
func validateDefault(p ftP) *mc.Viol {
	k := keyFromHex(p.Curve, p.Key)
	dg, _ := hex.DecodeString(p.Digest)
	fr := mc.NewFaultReader(p.Seed, p.readerLabel(), nil)
	var v *mc.Viol
	pn := mc.Catch(func() {
		switch p.Op {
		case "GenerateKey":
			key, err := ecdsa.GenerateKey(k.c, fr)
			if err != nil || key == nil {
				v = &mc.Viol{Sig: "GenerateKey fails with a healthy entropy source", What: fmt.Sprint(err)}
				return
			}
			x, y := k.c.ScalarBaseMult(key.D.Bytes())
			if key.D.Sign() <= 0 || key.D.Cmp(k.c.Params().N) >= 0 || x.Cmp(key.X) != 0 || y.Cmp(key.Y) != 0 {
				v = &mc.Viol{Sig: "GenerateKey returns an invalid key pair", What: fmt.Sprintf("%s D=%v", p.Curve, key.D)}
			}
		case "Sign":
			r, s, err := ecdsa.Sign(fr, k.fork(), dg)
			if err != nil || r == nil || s == nil || !stdecdsa.Verify(k.stdPub(), dg, r, s) {
				v = &mc.Viol{Sig: "Sign default-script signature is not accepted by crypto/ecdsa", What: p.label()}
			}
		case "SignASN1", "PrivateKey.Sign":
			sig, err := ecdsa.SignASN1(fr, k.fork(), dg)
			if err != nil || !stdecdsa.VerifyASN1(k.stdPub(), dg, sig) {
				v = &mc.Viol{Sig: "SignASN1 default-script signature is not accepted by crypto/ecdsa", What: p.label()}
			}
		}
	})
	if pn != "" {
		return &mc.Viol{Sig: p.Op + " panics with a healthy entropy source", What: pn}
	}
	return v
}

// replayFault rebuilds the default result and then runs the script.
func replayFault(p ftP) *mc.Viol {
	d := p
	d.Devs = nil
	if v := validateDefault(d); v != nil {
		return v
	}
	_, def, v := runScript(d, "")
	if v != nil || len(p.Devs) == 0 {
		return v
	}
	_, _, v = runScript(p, def)
	return v
}

// ---------------------------------------------------------------------------------------

func main() {
	r := mc.Start("C13", "exploration")
	mc.InstallDRBG(r.Seed)
	r.RegisterReplay("verdict", func(pj json.RawMessage) *mc.Viol {
		var p vrP
		json.Unmarshal(pj, &p)
		_, v := checkVerdict(p)
		return v
	})
	r.RegisterReplay("specialkey", func(pj json.RawMessage) *mc.Viol {
		var p skP
		json.Unmarshal(pj, &p)
		_, v := checkSpecialKey(p)
		return v
	})
	r.RegisterReplay("keygen", func(pj json.RawMessage) *mc.Viol {
		var p kgP
		json.Unmarshal(pj, &p)
		_, v := checkKeyGen(p)
		return v
	})
	r.RegisterReplay("wrap", func(pj json.RawMessage) *mc.Viol {
		var p wrapP
		json.Unmarshal(pj, &p)
		_, v := checkWrap(p)
		return v
	})
	r.RegisterReplay("der", func(pj json.RawMessage) *mc.Viol {
		var p drP
		json.Unmarshal(pj, &p)
		_, v := checkDER(p)
		return v
	})
	r.RegisterReplay("cross", func(pj json.RawMessage) *mc.Viol {
		var p crP
		json.Unmarshal(pj, &p)
		_, v := checkCross(p)
		return v
	})
	r.RegisterReplay("honest", func(pj json.RawMessage) *mc.Viol {
		var b base
		json.Unmarshal(pj, &b)
		_, _, v := b.honest()
		return v
	})
	r.RegisterReplay("fault", func(pj json.RawMessage) *mc.Viol {
		var p ftP
		json.Unmarshal(pj, &p)
		return replayFault(p)
	})
	if r.IsReplay() {
		r.DoReplay()
	}
	th := r.Thorough()
	dlens := mc.Pick(r, []int{0, 20, 32, 48, 66, 128}, []int{0, 1, 20, 28, 32, 48, 64, 66, 128})
	dkinds := mc.Pick(r, []string{"fill", "zero"}, []string{"fill", "zero", "ff"})
	nsig := mc.Pick(r, 1, 3)

	r.SetRule("(A) curve x key x digest (length x kind) x honest signature x (r,s) in B x B with B the 18-element boundary set around the honest (r*,s*), plus digest variants under (r*,s*); (A2) signatures constructed around nonce points whose affine x lies in [N, P) (r = x-N valid, r = x and r = x-N+1 invalid) and with a tiny x (shortest possible DER signatures) under the public key recovered from them; (A3) valid and invalid signatures made backwards for public keys with x = 0..5 (no private key known); (B) every DER mutation of the honest ASN.1 signature (every prefix, every single bit flip, header byte substitutions, hand-built non-minimal/negative/out-of-range integers, length forms, tags, trailing bytes inside/outside); (C) every producer x blind key x context; (D) every entropy fault script with <=1 deviation at every byte position (and <=2 deviations at edge positions in the thorough tier) x 4 answer kinds, each executed until both MaybeReadByte coin outcomes were seen. Cases are distinct tuples; non-trivial = (A) both r and s inside [1,N-1] so that the verification equation is evaluated, (B) the mutated signature is not the honest one, (C) all, (D) scripts with at least one deviation")
	r.Assume("valid public keys only (d*G with d in [1,N-1]); an off-curve key panics inside crypto/elliptic by design and is out of scope",
		"the reference is crypto/ecdsa (Go 1.23.5) Verify/VerifyASN1/Sign/SignASN1; values come from fixed alphabets of representatives",
		"entropy scripts: a deviation delivers k < requested bytes with no error (short read) or with io.EOF / io.ErrUnexpectedEOF / a custom error; the MaybeReadByte coin read itself never fails",
		"key-blinded signatures are verified under the blinded public key computed by this package (its derivation is property C12)")
	r.Set("dimensions", map[string]any{"curves": curveNames, "digest_lens": dlens, "digest_kinds": dkinds, "honest_signatures": nsig,
		"rs_boundary_set": []string{"-1", "0", "1", "2", "N-1", "N", "N+1", "2N-1", "r*", "s*", "N-s*", "s*+N", "r*+N", "2^bits", "-s*", "s*-N", "-r*", "N-r*"}})

	// ---- bases ----
	var bases []base
	for _, cn := range curveNames {
		for _, k := range keyAlphabet(cn, r.Seed, th) {
			for _, dl := range dlens {
				for _, dk := range dkinds {
					if dl == 0 && dk != "fill" {
						continue
					}
					for si := 0; si < nsig; si++ {
						bases = append(bases, base{Curve: cn, KeyName: k.Name, Key: k.Hex, DKind: dk, Digest: hex.EncodeToString(digestOf(r.Seed, dk, dl)), SigIdx: si, Seed: r.Seed})
					}
				}
			}
		}
	}
	r.Set("bases", len(bases))

	// ---- part A ----
	r.Par(len(bases), func(i int) {
		b := bases[i]
		c := curves[b.Curve]
		rs, ss, v := b.honest()
		if v != nil {
			r.Violation("honest", b, v)
			r.Case("honest|"+b.label(), true, v.Sig)
			return
		}
		B := boundarySet(c, rs, ss)
		N := c.Params().N
		inRange := func(x *big.Int) bool { return x.Sign() > 0 && x.Cmp(N) < 0 }
		for _, rv := range B {
			for _, sv := range B {
				p := vrP{base: b, RName: rv.Name, SName: sv.Name, R: rv.V.String(), S: sv.V.String(), VDig: b.Digest, VName: "same"}
				out, v := checkVerdict(p)
				if v != nil {
					out = v.Sig
					r.Violation("verdict", p, v)
				}
				r.Case("rs|"+b.label()+"|"+rv.Name+"|"+sv.Name, inRange(rv.V) && inRange(sv.V), out)
			}
		}
		for _, dv := range digestVariants(c, b.digest()) {
			p := vrP{base: b, RName: "r*", SName: "s*", R: rs.String(), S: ss.String(), VDig: dv.Hex, VName: dv.Name}
			out, v := checkVerdict(p)
			if v != nil {
				out = v.Sig
				r.Violation("verdict", p, v)
			}
			r.Case("dv|"+b.label()+"|"+dv.Name, true, out)
		}
		if i == len(bases)/3 || i == 2*len(bases)/3 {
			r.Sample(map[string]any{"kind": "verdict", "case": vrP{base: b, RName: "r*", SName: "s*+N", R: rs.String(), S: new(big.Int).Add(ss, N).String(), VDig: b.Digest, VName: "same"}})
		}
	})

	// ---- part A2: nonce points with x in [N, P) ----
	{
		var ws []wrapP
		for _, cn := range curveNames {
			c := curves[cn]
			N := c.Params().N
			svals := []*big.Int{big.NewInt(1), big.NewInt(2), new(big.Int).Sub(N, one), new(big.Int).Mod(new(big.Int).SetBytes(mc.Fill(r.Seed, "c13-wrap-s-"+cn, 80)), N)}
			for _, t := range wrapPoints(c, mc.Pick(r, 3, 8)) {
				for _, odd := range []bool{false, true} {
					for si, sv := range svals {
						if sv.Sign() == 0 {
							continue
						}
						for di, dk := range []string{"fill", "zero", "ff"} {
							if !th && (si+di)%2 == 1 {
								continue
							}
							for _, form := range []string{"x-N", "x", "x-N+1"} {
								ws = append(ws, wrapP{Curve: cn, T: t, YOdd: odd, S: sv.String(), Digest: hex.EncodeToString(digestOf(r.Seed, dk, 20)), RForm: form})
							}
						}
					}
				}
			}
		}
		// the shortest signatures DER allows: r and s one-byte integers (nonce point with a tiny x)
		for _, cn := range curveNames {
			for _, t := range xPoints(curves[cn], 2, true) {
				for _, odd := range []bool{false, true} {
					for _, sv := range []string{"1", "2", "127", "128"} {
						ws = append(ws, wrapP{Curve: cn, T: t, YOdd: odd, S: sv, Digest: hex.EncodeToString(digestOf(r.Seed, "fill", 20)), RForm: "x-N", Tiny: true})
					}
				}
			}
		}
		r.Par(len(ws), func(i int) {
			out, v := checkWrap(ws[i])
			if v != nil {
				out = v.Sig
				r.Violation("wrap", ws[i], v)
			}
			if strings.HasPrefix(out, "harness") {
				r.Note("%s: %+v", out, ws[i])
			}
			r.Case(fmt.Sprintf("wrap|%+v", ws[i]), ws[i].RForm != "x", out)
		})
		r.Set("nonce_points_with_x_ge_N", len(ws))
	}

	// ---- part A3: public keys with x = 0, 1, 2, ... ----
	{
		var sk []skP
		for _, cn := range curveNames {
			for x := 0; x <= 5; x++ {
				if sqrtOnCurve(curves[cn], big.NewInt(int64(x))) == nil {
					continue
				}
				for _, odd := range []bool{false, true} {
					for i := 0; i < mc.Pick(r, 2, 6); i++ {
						sk = append(sk, skP{Curve: cn, X: x, YOdd: odd, Idx: i}, skP{Curve: cn, X: x, YOdd: odd, Idx: i, Flip: true})
					}
				}
			}
		}
		r.Par(len(sk), func(i int) {
			out, v := checkSpecialKey(sk[i])
			if v != nil {
				out = v.Sig
				r.Violation("specialkey", sk[i], v)
			}
			if strings.HasPrefix(out, "harness") {
				r.Note("%s: %+v", out, sk[i])
			}
			r.Case(fmt.Sprintf("specialkey|%+v", sk[i]), true, out)
		})
		r.Set("special_public_key_cases", len(sk))
	}

	// ---- part A4: key generation on boundary entropy ----
	{
		var ks []kgP
		for _, cn := range curveNames {
			c := curves[cn]
			N := c.Params().N
			n := c.Params().BitSize/8 + 8
			two := big.NewInt(2)
			nm1 := new(big.Int).Sub(N, one)
			vals := map[string]*big.Int{"0": big.NewInt(0), "1": one, "N-2": new(big.Int).Sub(N, two), "N-1": nm1, "N": N, "N+1": new(big.Int).Add(N, one),
				"2(N-1)-1": new(big.Int).Sub(new(big.Int).Mul(nm1, two), one), "2(N-1)": new(big.Int).Mul(nm1, two), "2N": new(big.Int).Mul(N, two),
				"all ff": new(big.Int).Sub(new(big.Int).Lsh(one, uint(8*n)), one), "k(N-1) just below 2^bits": new(big.Int).Mul(nm1, new(big.Int).Div(new(big.Int).Lsh(one, uint(8*n)), nm1))}
			names := make([]string, 0, len(vals))
			for k := range vals {
				names = append(names, k)
			}
			sort.Strings(names)
			for _, name := range names {
				v := vals[name]
				if v.BitLen() > 8*n {
					continue
				}
				ks = append(ks, kgP{Curve: cn, Name: "entropy block = " + name, Block: hex.EncodeToString(v.FillBytes(make([]byte, n)))})
			}
		}
		for _, p := range ks {
			out, v := checkKeyGen(p)
			if v != nil {
				out = v.Sig
				r.Violation("keygen", p, v)
			}
			r.Case(fmt.Sprintf("keygen|%s|%s", p.Curve, p.Name), true, out)
		}
	}

	// ---- part B: DER, split into chunks for load balance ----
	const chunks = 8
	var derBases []base
	for _, b := range bases {
		if b.SigIdx < 2 && (b.DKind == "fill" || (th && b.DKind == "zero" && len(b.Digest) == 64)) {
			derBases = append(derBases, b)
		}
	}
	r.Par(len(derBases)*chunks, func(i int) {
		if r.OutOfTime() {
			r.NotExhaustive("time budget hit in the DER phase")
			return
		}
		b := derBases[i/chunks]
		ch := i % chunks
		k := keyFromHex(b.Curve, b.Key)
		var honest []byte
		var err error
		if pn := mc.Catch(func() { honest, err = ecdsa.SignASN1(mc.NewStream(b.Seed, "c13-der|"+b.label()), k.fork(), b.digest()) }); pn != "" || err != nil || len(honest) == 0 {
			if ch == 0 {
				v := &mc.Viol{Sig: "Sign fails on a valid key with a healthy entropy source", What: fmt.Sprintf("SignASN1 %s: %v %s", b.label(), err, pn)}
				r.Violation("honest", b, v)
			}
			return
		}
		// recover (r*, s*) with the reference parser's view: canonical DER
		rs, ss := parseCanonical(honest)
		if rs == nil {
			// whether such an output is acceptable is decided by the cross-acceptance phase
			// (crypto/ecdsa.VerifyASN1 must accept it); here it only means no mutations can be built
			if ch == 0 {
				r.Note("SignASN1 output of %s is not minimal DER SEQUENCE{INTEGER,INTEGER}: %x; DER mutations skipped for this base", b.label(), honest)
				r.NotExhaustive("DER mutations skipped for %s", b.label())
			}
			return
		}
		ms := derMutations(honest, k.c, rs, ss, r.Seed)
		for j := ch; j < len(ms); j += chunks {
			m := ms[j]
			p := drP{base: b, Mut: m.Name, Sig: hex.EncodeToString(m.B)}
			out, v := checkDER(p)
			if v != nil {
				out = v.Sig
				r.Violation("der", p, v)
			}
			r.Case("der|"+b.label()+"|"+m.Name, !bytes.Equal(m.B, honest), out)
			if (i == len(derBases)*chunks/3 || i == 2*len(derBases)*chunks/3) && j == ch+chunks*3 {
				r.Sample(map[string]any{"kind": "der", "case": p})
			}
		}
	})

	// ---- part C: cross acceptance ----
	var crs []crP
	for _, b := range bases {
		if b.SigIdx != 0 {
			continue
		}
		c := curves[b.Curve]
		N := c.Params().N
		blinds := []string{"07", hex.EncodeToString(mc.Fill(r.Seed, "c13-blind-"+b.Curve, orderBytes(c))), hex.EncodeToString(new(big.Int).Add(N, big.NewInt(5)).Bytes())}
		ctxs := []string{"", "a5", hex.EncodeToString(mc.Fill(r.Seed, "c13-ctx", 32))}
		if !th {
			blinds = blinds[:2]
		}
		for _, bl := range blinds {
			for _, cx := range ctxs {
				crs = append(crs, crP{base: b, Blind: bl, Ctx: cx})
			}
		}
	}
	r.Par(len(crs), func(i int) {
		if r.OutOfTime() {
			r.NotExhaustive("time budget hit in the cross-acceptance phase")
			return
		}
		p := crs[i]
		var res []crossResult
		var v *mc.Viol
		if pn := mc.CatchStack(func() { res, v = checkCross(p) }); pn != "" {
			v = &mc.Viol{Sig: "harness: cross-acceptance case panics outside a guarded call", What: pn}
		}
		for _, x := range res {
			r.Case("cross|"+p.label()+"|"+p.Blind+"|"+p.Ctx+"|"+x.Producer, true, "cross: "+x.Producer+" "+x.Outcome)
		}
		if v != nil {
			r.Violation("cross", p, v)
			r.Case("cross|"+p.label()+"|"+p.Blind+"|"+p.Ctx+"|failed", true, v.Sig)
		}
		if i == len(crs)/3 || i == 2*len(crs)/3 {
			r.Sample(map[string]any{"kind": "cross", "case": p})
		}
	})

	// ---- part D: entropy faults ----
	type fexp struct {
		p     ftP
		bound int
		edge  bool
	}
	var fexps []fexp
	for _, cn := range curveNames {
		key := keyAlphabet(cn, r.Seed, false)[0].Hex
		for _, op := range []string{"GenerateKey", "Sign", "SignASN1", "PrivateKey.Sign", "BlindKeySign", "BlindKeySignWithContext"} {
			p := ftP{Op: op, Curve: cn, Key: key, Digest: hex.EncodeToString(digestOf(r.Seed, "fill", 32)), Seed: r.Seed}
			if strings.HasPrefix(op, "BlindKeySign") {
				p.Blind = hex.EncodeToString(mc.Fill(r.Seed, "c13-blind-"+cn, orderBytes(curves[cn])))
			}
			if op == "BlindKeySignWithContext" {
				p.Ctx = hex.EncodeToString(mc.Fill(r.Seed, "c13-ctx", 32))
			}
			fexps = append(fexps, fexp{p, 1, false})
			if th {
				fexps = append(fexps, fexp{p, 2, true})
			}
		}
	}
	r.Par(len(fexps), func(i int) {
		fe := fexps[i]
		d := fe.p
		if v := validateDefault(d); v != nil {
			r.Violation("fault", d, v)
			r.Case("fault-default|"+d.label(), false, v.Sig)
			return
		}
		def := ""
		ks := mc.AllK
		if fe.edge {
			ks = mc.EdgeK
		}
		scripts := mc.ExploreFaults(fe.bound, ks, []int{0, 1, 2, 3}, func(devs []mc.Dev) []mc.Rec {
			p := d
			p.Devs = devs
			run, first, v := runScript(p, def)
			if len(devs) == 0 && v == nil {
				def = first
			}
			out := fe.p.Op + ": " + run.outcome
			if v != nil {
				out = v.Sig
				r.Violation("fault", p, v)
			}
			if run.capHit {
				r.NotExhaustive("%s: only one MaybeReadByte coin outcome seen in %d executions", p.label(), coinCap)
			}
			r.Case(p.label(), len(devs) > 0, out)
			if len(devs) == fe.bound && len(devs) > 0 && devs[0].K == 1 && devs[0].Err == 2 && d.Curve == "P-256" && (d.Op == "Sign" || d.Op == "GenerateKey") && len(devs) == 1 {
				r.Sample(map[string]any{"kind": "fault", "case": p, "reads": run.log})
			}
			return run.log
		})
		_ = scripts
	})
	r.Finish()
}

// parseCanonical reads SEQUENCE{INTEGER r, INTEGER s} in minimal DER with positive
// integers; nil if the input is anything else.
func parseCanonical(b []byte) (r, s *big.Int) {
	rd := func(b []byte, tag byte) (content, rest []byte, ok bool) {
		if len(b) < 2 || b[0] != tag {
			return nil, nil, false
		}
		n, off := int(b[1]), 2
		if b[1] == 0x81 {
			if len(b) < 3 || b[2] < 128 {
				return nil, nil, false
			}
			n, off = int(b[2]), 3
		} else if b[1] >= 0x80 {
			return nil, nil, false
		}
		if len(b) < off+n {
			return nil, nil, false
		}
		return b[off : off+n], b[off+n:], true
	}
	body, rest, ok := rd(b, 0x30)
	if !ok || len(rest) != 0 {
		return nil, nil
	}
	rc, rest, ok := rd(body, 0x02)
	if !ok {
		return nil, nil
	}
	sc, rest, ok := rd(rest, 0x02)
	if !ok || len(rest) != 0 {
		return nil, nil
	}
	for _, c := range [][]byte{rc, sc} {
		if len(c) == 0 || c[0]&0x80 != 0 || (len(c) > 1 && c[0] == 0 && c[1]&0x80 == 0) {
			return nil, nil
		}
	}
	return new(big.Int).SetBytes(rc), new(big.Int).SetBytes(sc)
}
