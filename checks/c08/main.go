// C08: the anonymous issuer origin ID is stable per client and origin, and nothing else.
//
// Depth-bounded exhaustive enumeration (mc.Seq, no state merging) of every history of
// <= 2 (quick) / <= 3 (thorough) honest requests of one client on one attester over the
// alphabet (origin in {o1,o2,o3 with distinct index keys}) x (request blind in {b1..b4}),
// crossed with clients {c1,c2,c3} and two index-key sets. Every step is the full flow
// client -> attester.VerifyRequest -> issuer.Evaluate -> attester.FinalizeIndex on the real
// code; nonce, challenge (also its length) and all entropy differ at every step.
//
// Oracle at every step: FinalizeIndex's ID == an independent reference (RFC 9380 XMD
// hash_to_field + crypto/elliptic + x/crypto/hkdf, see ref.go), hence equal across blinds,
// nonces, challenges and history position; IDs returned earlier on the path still hold
// their value; Evaluate's second return value == compressed(f * requestKey). At the end the
// observed IDs of all (client, index key) pairs are pairwise distinct.
package main

import (
	"bytes"
	"crypto/elliptic"
	"encoding/hex"
	"encoding/json"
	"fmt"
	"math/big"
	"sort"
	"strings"
	"sync"

	"github.com/cloudflare/pat-go/ecdsa"
	"github.com/cloudflare/pat-go/tokens/type3"

	"verif/mc"
	"verif/px"
)

const (
	nClients = 5
	nKeySets = 2
	nOrigins = 3
	nBlinds  = 7
)

// Op is one honest request. Client and key set are constant along a history; they are
// part of the operation so that a history alone rebuilds its world on replay.
type Op struct {
	C  int  `json:"client"`
	KS int  `json:"keyset"`
	O  int  `json:"origin"`
	B  int  `json:"blind"`
	X  int  `json:"anon"`                 // 0: the origin's own anonymous origin id; 1: one id shared by all origins
	F  bool `json:"in_flight,omitempty"`  // a second request of the same client for the same origin (next blind) is verified and evaluated before this one's index is finalized, and finalized after it
	R  bool `json:"reregister,omitempty"` // before this request the issuer registers origin O again, with the index key the other key set has for it
}

func (o Op) label() string {
	if o.R {
		return fmt.Sprintf("c%dk%d:reregister(o%d)+o%db%d", o.C+1, o.KS, o.O+1, o.O+1, o.B+1)
	}
	return fmt.Sprintf("c%dk%do%db%d%s%s", o.C+1, o.KS, o.O+1, o.B+1, map[int]string{0: "", 1: "x"}[o.X], map[bool]string{true: "+inflight"}[o.F])
}

var seedBase int64

// ---- value alphabets (P-384 scalars as 48 big-endian bytes) ----

func scalarN() *big.Int { return elliptic.P384().Params().N }

func sc(v *big.Int) []byte { return v.FillBytes(make([]byte, 48)) }

func scDRBG(label string) []byte {
	v := new(big.Int).SetBytes(mc.Fill(seedBase, "sc-"+label, 56))
	v.Mod(v, new(big.Int).Sub(scalarN(), big.NewInt(1)))
	v.Add(v, big.NewInt(1))
	return sc(v)
}

func scLeadingZero(label string, zeros int) []byte {
	out := make([]byte, 48)
	copy(out[zeros:], mc.Fill(seedBase, "lz-"+label, 48-zeros))
	if out[zeros] == 0 {
		out[zeros] = 0x5a
	}
	return out
}

// clientSecret: c1 = scalar 1, c2 = a secret with a leading zero byte, c3 = DRBG.
func clientSecret(c int) []byte {
	switch c {
	case 0:
		return sc(big.NewInt(1))
	case 1:
		return scLeadingZero("client", 1)
	case 3:
		return searched(3)
	case 4:
		return searched(4)
	}
	return scDRBG("client")
}

// searched client secrets: c4 = the first secret (counting up from a DRBG value) whose PUBLIC
// KEY has an x coordinate with a leading zero byte (the HKDF salt then contains 02/03 00 ..);
// c5 = the first whose key blinded with index key (set 0, origin o2 = N-1) has such an x (the
// HKDF input keying material then does). A serialisation that drops leading zero bytes of a
// coordinate changes the ID for exactly these clients (about 1 in 256).
var (
	searchOnce sync.Once
	searchedSc [2][]byte
)

func searched(c int) []byte {
	searchOnce.Do(func() {
		curve := elliptic.P384()
		base := new(big.Int).SetBytes(scDRBG("client-search"))
		f := blindFactor(new(big.Int).SetBytes(indexKey(0, 1)), "IssuerBlind")
		for i := int64(0); i < 200000 && (searchedSc[0] == nil || searchedSc[1] == nil); i++ {
			d := new(big.Int).Add(base, big.NewInt(i))
			d.Mod(d, new(big.Int).Sub(curve.Params().N, big.NewInt(1)))
			d.Add(d, big.NewInt(1))
			x, y := curve.ScalarBaseMult(d.Bytes())
			if searchedSc[0] == nil && x.BitLen() <= 376 {
				searchedSc[0] = sc(d)
			}
			if searchedSc[1] == nil {
				bx, _ := curve.ScalarMult(x, y, f.Bytes())
				if bx.BitLen() <= 376 {
					searchedSc[1] = sc(d)
				}
			}
		}
		if searchedSc[0] == nil || searchedSc[1] == nil {
			panic("client search failed")
		}
	})
	return searchedSc[c-3]
}

// indexKey: set 0 = {1, N-1, leading zero byte}, set 1 = {2, DRBG, two leading zero bytes}.
func indexKey(ks, o int) []byte {
	switch ks*nOrigins + o {
	case 0:
		return sc(big.NewInt(1))
	case 1:
		return sc(new(big.Int).Sub(scalarN(), big.NewInt(1)))
	case 2:
		return scLeadingZero("indexkey", 1)
	case 3:
		return sc(big.NewInt(2))
	case 4:
		return scDRBG("indexkey")
	}
	return scLeadingZero("indexkey2", 2)
}

// blind: b1 = 1, b2 = N-1, b3 = leading zero byte, b4 = DRBG, b5 = 2^384-1 (48 bytes, above the
// group order), b6 = 64 bytes. The blind is a byte string that is hashed to the blinding factor
// (as an integer, big-endian, unreduced): it need not be a scalar below N.
func blind(b int) []byte {
	switch b {
	case 4:
		return bytes.Repeat([]byte{0xff}, 48)
	case 5:
		return mc.Fill(seedBase, "blind-64-bytes", 64)
	case 6: // 48 zero bytes: the blind of value zero is hashed like any other
		return make([]byte, 48)
	case 0:
		return sc(big.NewInt(1))
	case 1:
		return sc(new(big.Int).Sub(scalarN(), big.NewInt(1)))
	case 2:
		return scLeadingZero("blind", 1)
	}
	return scDRBG("blind")
}

// originName: the three origins of a key set are near-duplicates of each other (o2 is o1 in
// capitals, o3 is o1 with a trailing dot) and have distinct index keys: any normalisation between
// the name a request carries and the index key that is used shows as a wrong ID.
func originName(ks, o int) string {
	base := fmt.Sprintf("origin.set%d.example", ks)
	switch o {
	case 1:
		return strings.ToUpper(base)
	case 2:
		return base + "."
	}
	return base
}

var challengeLens = []int{32, 0, 65, 1000}

// ---- world: one issuer with three origins, one client ----

type world struct {
	c, ks  int
	w      *px.W3
	secret []byte
	pub    []byte
	refID  [nOrigins][]byte
	refF   [nOrigins]*big.Int
	anon   [nOrigins][]byte
	alt    [nOrigins]bool // origin currently registered with the OTHER key set's index key
}

// register (re-)registers origin o with the index key of key set ks (alt = false) or of the
// other key set (alt = true) and updates the reference values.
func (wd *world) register(o int, alt bool) error {
	ks := wd.ks
	if alt {
		ks = 1 - wd.ks
	}
	kb := indexKey(ks, o)
	k, err := ecdsa.CreateKey(elliptic.P384(), kb)
	if err != nil {
		return err
	}
	if err := wd.w.Issuer.AddOriginWithIndexKey(originName(wd.ks, o), k); err != nil {
		return err
	}
	id, f, err := refIssuerOriginID(wd.pub, new(big.Int).SetBytes(kb))
	if err != nil {
		return err
	}
	wd.refID[o], wd.refF[o], wd.alt[o] = id, f, alt
	return nil
}

func newWorld(c, ks int) (*world, error) {
	mc.Entropy(fmt.Sprintf("c08-world-c%d-k%d", c, ks))
	wd := &world{c: c, ks: ks, w: px.NewW3(0), secret: clientSecret(c)}
	wd.pub = p384Pub(wd.secret)
	for o := 0; o < nOrigins; o++ {
		if err := wd.register(o, false); err != nil {
			return nil, err
		}
		wd.anon[o] = mc.Fill(seedBase, fmt.Sprintf("anon-origin-%d", o), 32)
	}
	return wd, nil
}

type kept struct {
	o    int
	id   []byte // the very slice FinalizeIndex returned (not copied)
	want []byte // copy of its contents when it was returned
}

type State struct {
	wd    *world
	cache *px.MemCache
	att   *type3.RateLimitedAttester // ONE attester object lives through a history
	hist  string
	depth int
	seen  map[[2]int]bool
	first [nOrigins][]byte // copy of the first ID observed per origin on this path
	keptv []kept
	last  []byte           // copy of the ID returned by the last step
	bound [nOrigins][2]int // per origin and per index key in force (own / other key set): which anonymous id choice (X+1) it was first accepted under
}

func cloneState(s *State) *State {
	n := &State{wd: s.wd, hist: s.hist, depth: s.depth, first: s.first, last: s.last, bound: s.bound}
	if s.wd != nil {
		// the issuer is a live object that re-registration mutates: every state owns its issuer
		// (same client, same keys, same registrations; the name key is drawn afresh)
		if wd, err := newWorld(s.wd.c, s.wd.ks); err == nil {
			for o := 0; o < nOrigins; o++ {
				if s.wd.alt[o] {
					wd.register(o, true)
				}
			}
			n.wd = wd
		}
	}
	if s.cache != nil {
		n.cache = px.NewMemCache()
		n.cache.Puts = s.cache.Puts
		for k, v := range s.cache.M {
			n.cache.M[k] = v.VerifClone()
		}
		n.att = type3.NewRateLimitedAttester(n.cache)
	}
	n.seen = map[[2]int]bool{}
	for k, v := range s.seen {
		n.seen[k] = v
	}
	n.keptv = append([]kept{}, s.keptv...)
	return n
}

// observed IDs per (client, keyset, origin), for the distinctness pass
var observed sync.Map // "c-ks-o" -> hex

func apply(s *State, op Op) (obs string, v *mc.Viol) {
	pn := mc.CatchStack(func() { obs, v = applyInner(s, op) })
	if pn != "" {
		return "panic", &mc.Viol{Sig: "honest type-3 flow panics: " + trunc(pn, 60), What: s.hist + op.label() + ": " + pn}
	}
	return obs, v
}

func applyInner(s *State, op Op) (string, *mc.Viol) {
	if op.C < 0 || op.C >= nClients || op.KS < 0 || op.KS >= nKeySets || op.O < 0 || op.O >= nOrigins || op.B < 0 || op.B >= nBlinds {
		return "harness-bad-op", nil
	}
	if s.wd == nil {
		wd, err := newWorld(op.C, op.KS)
		if err != nil {
			return "setup-fails", &mc.Viol{Sig: "issuer setup fails", What: err.Error()}
		}
		s.wd, s.cache, s.seen = wd, px.NewMemCache(), map[[2]int]bool{}
		s.att = type3.NewRateLimitedAttester(s.cache)
	}
	wd := s.wd
	if op.C != wd.c || op.KS != wd.ks {
		return "harness-mixed-history", nil
	}
	if op.R {
		if err := wd.register(op.O, !wd.alt[op.O]); err != nil {
			return "reregister-fails", &mc.Viol{Sig: "AddOriginWithIndexKey fails", What: err.Error()}
		}
		// the origin has another index key now: the ID of (client, origin) legitimately changes;
		// the request of this same step is the first one under the new key
		s.first[op.O] = nil
	}
	here := s.hist + op.label() + ";"
	mc.Entropy("c08-" + here)
	att := s.att
	cl := challengeLens[(s.depth+op.B)%len(challengeLens)]
	a := px.T3Args{
		Secret:     append([]byte{}, wd.secret...),
		Blind:      blind(op.B),
		Challenge:  mc.Fill(seedBase, "chal-"+here, cl),
		Nonce:      mc.Fill(seedBase, "nonce-"+here, 32),
		Origin:     originName(wd.ks, op.O),
		AnonOrigin: append([]byte{}, wd.anon[op.O]...),
	}
	if op.X == 1 {
		a.AnonOrigin = mc.Fill(seedBase, "anon-shared", 32)
	}
	var out *px.Out
	var se *px.StageErr
	var companion *mc.Viol
	if op.F {
		// two requests of this client in flight at the attester at once
		p1, se1 := wd.w.Begin(att, a)
		out, se = p1.Out, se1
		if se1 == nil {
			a2 := a
			a2.Blind = blind((op.B + 1) % 4)
			a2.Nonce = mc.Fill(seedBase, "nonce2-"+here, 32)
			a2.AnonOrigin = append([]byte{}, a.AnonOrigin...)
			p2, se2 := wd.w.Begin(att, a2)
			out, se = wd.w.End(att, p1)
			if se == nil && se2 != nil {
				se = se2
			}
			if se == nil {
				out2, se3 := wd.w.End(att, p2)
				if se3 != nil {
					companion = &mc.Viol{Sig: "honest type-3 flow fails at " + se3.Stage + " (second request in flight)", What: s.hist + op.label() + ": " + se3.Error()}
				} else if !bytes.Equal(out2.IndexID, out.IndexID) {
					companion = &mc.Viol{Sig: "ID differs between two requests of the same client for the same origin (requests in flight together)", What: fmt.Sprintf("%s%s: %x vs %x", s.hist, op.label(), out.IndexID, out2.IndexID)}
				}
			}
		}
	} else {
		out, se = wd.w.Flow(att, a)
	}
	// the attester binds an origin's issuer id to the first anonymous id it saw for it; a
	// request of the same origin under the OTHER anonymous id is legitimately refused (C09's
	// subject) and tells nothing about the ID
	ak := 0
	if wd.alt[op.O] {
		ak = 1
	}
	if se != nil && se.Stage == "attester-index" && s.bound[op.O][ak] != 0 && s.bound[op.O][ak] != op.X+1 {
		s.hist = s.hist + op.label() + ";"
		s.depth++
		return "refused:origin-bound-to-the-other-anonymous-id", nil
	}
	if se == nil && s.bound[op.O][ak] == 0 {
		s.bound[op.O][ak] = op.X + 1
	}

	class := "first-request-for-origin"
	if s.first[op.O] != nil {
		class = "repeat-origin-new-blind"
		if s.seen[[2]int{op.O, op.B}] {
			class = "repeat-origin-same-blind"
		}
	}
	s.seen[[2]int{op.O, op.B}] = true
	s.hist = here
	s.depth++
	where := fmt.Sprintf("history %s (client c%d, key set %d): ", here, wd.c+1, wd.ks)

	if se != nil {
		return "flow-fails", &mc.Viol{Sig: "honest type-3 flow fails at " + se.Stage + " (" + class + ")", What: where + se.Error()}
	}
	id := out.IndexID
	s.last = append([]byte{}, id...)
	if !bytes.Equal(out.ClientKey, wd.pub) {
		return "client-key-wrong", &mc.Viol{Sig: "client key is not secret*G", What: where + hex.EncodeToString(out.ClientKey)}
	}

	var v *mc.Viol
	// Evaluate's second return value
	dec := new(type3.RateLimitedTokenRequest)
	if !dec.Unmarshal(out.Request) {
		return "harness-undecodable-request", nil
	}
	wantBRK, err := mulCompressed(dec.RequestKey, wd.refF[op.O])
	if err != nil {
		v = &mc.Viol{Sig: "request key is not a P-384 point", What: where + err.Error()}
	} else if !bytes.Equal(out.BlindedReqKey, wantBRK) {
		v = &mc.Viol{Sig: "Evaluate's blinded request key is not f*requestKey", What: fmt.Sprintf("%sgot %x want %x", where, out.BlindedReqKey, wantBRK)}
	}

	// stability along the path, then the reference
	if prev := s.first[op.O]; prev != nil && !bytes.Equal(prev, id) {
		v = &mc.Viol{Sig: "ID differs between two requests of the same client for the same origin (" + class + ")",
			What: fmt.Sprintf("%sfirst %x now %x", where, prev, id)}
	} else if !bytes.Equal(id, wd.refID[op.O]) {
		v = &mc.Viol{Sig: "ID is not HKDF-SHA-384(salt=client key, ikm=index-key-blinded client key, IssuerOriginAlias)",
			What: fmt.Sprintf("%sgot %x want %x", where, id, wd.refID[op.O])}
	}
	if s.first[op.O] == nil {
		s.first[op.O] = append([]byte{}, id...)
	}
	if !wd.alt[op.O] {
		observed.LoadOrStore(fmt.Sprintf("%d-%d-%d", wd.c, wd.ks, op.O), hex.EncodeToString(id))
	}
	// IDs handed out earlier must not change under later requests
	if v == nil {
		for _, k := range s.keptv {
			if !bytes.Equal(k.id, k.want) {
				v = &mc.Viol{Sig: "an ID returned earlier changed after a later request",
					What: fmt.Sprintf("%sID returned for o%d was %x, the same slice now holds %x", where, k.o+1, k.want, k.id)}
				break
			}
		}
	}
	s.keptv = append(s.keptv, kept{o: op.O, id: id, want: append([]byte{}, id...)})
	if v == nil {
		v = companion
	}
	return class, v
}

func trunc(s string, n int) string {
	if len(s) > n {
		return s[:n]
	}
	return s
}

type pairP struct {
	A Op `json:"a"`
	B Op `json:"b"`
}

func singleID(op Op) ([]byte, *mc.Viol) {
	s := &State{}
	_, v := apply(s, op)
	return s.last, v
}

func distinctCheck(p pairP) *mc.Viol {
	a, va := singleID(p.A)
	b, vb := singleID(p.B)
	if a == nil || b == nil {
		if va != nil {
			return va
		}
		return vb
	}
	if bytes.Equal(a, b) {
		return &mc.Viol{Sig: "two distinct (client, index key) pairs share one ID",
			What: fmt.Sprintf("%s and %s both give %x", p.A.label(), p.B.label(), a)}
	}
	return nil
}

// ---- client key encodings: whatever spelling of the client's public key the attester
// accepts, the ID must be the one of that client (it depends on the key, not on its bytes) ----

type encCase struct {
	C   int    `json:"client"`
	KS  int    `json:"keyset"`
	O   int    `json:"origin"`
	Enc string `json:"encoding"`
}

func encodeKey(pub []byte, enc string) []byte {
	c := elliptic.P384()
	x, y := elliptic.UnmarshalCompressed(c, pub)
	un := elliptic.Marshal(c, x, y) // 04 || X || Y
	switch enc {
	case "compressed":
		return append([]byte{}, pub...)
	case "uncompressed":
		return un
	case "hybrid":
		h := append([]byte{}, un...)
		h[0] = 0x06 | byte(y.Bit(0))
		return h
	case "compressed-with-leading-zero":
		return append([]byte{0x00}, pub...)
	case "compressed-with-trailing-zero":
		return append(append([]byte{}, pub...), 0x00)
	}
	return nil
}

var keyEncodings = []string{"compressed", "uncompressed", "hybrid", "compressed-with-leading-zero", "compressed-with-trailing-zero"}

func encCheck(k encCase) (string, *mc.Viol) {
	wd, err := newWorld(k.C, k.KS)
	if err != nil {
		return "setup-fails", nil
	}
	mc.Entropy(fmt.Sprintf("c08-enc-%d-%d-%d-%s", k.C, k.KS, k.O, k.Enc))
	att := type3.NewRateLimitedAttester(px.NewMemCache())
	a := px.T3Args{Secret: append([]byte{}, wd.secret...), Blind: blind(3), Challenge: mc.Fill(seedBase, "enc-chal", 32), Nonce: mc.Fill(seedBase, "enc-nonce", 32), Origin: originName(wd.ks, k.O), AnonOrigin: wd.anon[k.O]}
	st, err := wd.w.Create(a)
	if err != nil {
		return "create-fails", nil
	}
	reqBytes := append([]byte{}, st.Request().Marshal()...)
	dec := new(type3.RateLimitedTokenRequest)
	if !dec.Unmarshal(reqBytes) {
		return "harness", nil
	}
	key := encodeKey(wd.pub, k.Enc)
	var id []byte
	var verr, ferr error
	if p := mc.Catch(func() {
		verr = att.VerifyRequest(*dec, a.Blind, key, a.AnonOrigin)
		if verr != nil {
			return
		}
		_, brk, e := wd.w.Issuer.Evaluate(reqBytes)
		if e != nil {
			ferr = e
			return
		}
		id, ferr = att.FinalizeIndex(key, a.Blind, brk, a.AnonOrigin)
	}); p != "" {
		return "panic", nil // C03's subject
	}
	if verr != nil || ferr != nil {
		if k.Enc == "compressed" {
			return "refused", &mc.Viol{Sig: "honest type-3 flow fails with the canonical client key", What: fmt.Sprint(verr, ferr)}
		}
		return "encoding-refused", nil
	}
	if !bytes.Equal(id, wd.refID[k.O]) {
		return "wrong-id", &mc.Viol{Sig: "ID depends on how the client key is spelled (" + k.Enc + " encoding accepted, ID differs from the client's ID)", What: fmt.Sprintf("client c%d key set %d origin o%d: got %x want %x", k.C+1, k.KS, k.O+1, id, wd.refID[k.O])}
	}
	return "encoding-accepted-same-id", nil
}

func newSeq(c, ks, depth int) *mc.Seq[*State, Op] {
	var menu []Op
	for o := 0; o < nOrigins; o++ {
		for b := 0; b < nBlinds; b++ {
			menu = append(menu, Op{C: c, KS: ks, O: o, B: b})
			if b%2 == 0 && b < 4 {
				menu = append(menu, Op{C: c, KS: ks, O: o, B: b, X: 1})
			}
		}
	}
	for o := 0; o < nOrigins; o++ {
		menu = append(menu, Op{C: c, KS: ks, O: o, B: 3, R: true})
		menu = append(menu, Op{C: c, KS: ks, O: o, B: 0, F: true})
	}
	var menu3 []Op
	for _, o := range menu {
		if o.R || (!o.F && (o.B == 0 || o.B == 3)) {
			menu3 = append(menu3, o)
		}
	}
	return &mc.Seq[*State, Op]{
		Init: func() *State { return &State{} },
		Ops: func(_ *State, d int) []Op {
			if d >= 2 {
				return menu3 // third step: two blinds per origin, the shared anonymous id, re-registration
			}
			return menu
		},
		Apply: apply,
		// no Clone: successors are produced by replaying the history on a fresh State, so that ONE
		// issuer object and ONE attester cache live through a whole history (whatever they remember
		// internally is part of the state)
		Depth: depth,
		Kind:  "history",
		Label: func(o Op) string { return o.label() },
	}
}

func main() {
	r := mc.Start("C08", "model_checking")
	seedBase = r.Seed
	mc.InstallDRBG(r.Seed)
	depth := mc.Pick(r, 2, 3)
	newSeq(0, 0, depth).Register(r)
	r.RegisterReplay("distinct", func(pj json.RawMessage) *mc.Viol {
		var p pairP
		if json.Unmarshal(pj, &p) != nil {
			return nil
		}
		return distinctCheck(p)
	})
	r.RegisterReplay("keyenc", func(pj json.RawMessage) *mc.Viol {
		var k encCase
		if json.Unmarshal(pj, &k) != nil {
			return nil
		}
		_, v := encCheck(k)
		return v
	})
	if r.IsReplay() {
		r.DoReplay()
	}

	r.SetRule("for every client in {c1,c2,c3} and index-key set in {0,1}: every sequence of 1..depth honest requests over the menu origin{o1,o2,o3} x blind{b1..b7}, plus per origin a request with a second one in flight (21 letters, no state merging) on one attester; each step runs create -> VerifyRequest -> Evaluate -> FinalizeIndex -> FinalizeToken; every history is a distinct case and non-trivial (an ID is derived at every step); plus all pairs of the 18 (client, index key) combinations for distinctness")
	r.Assume("values come from fixed alphabets: client secrets {1, leading-zero-byte, DRBG}; index keys {1, N-1, leading-zero | 2, DRBG, two-leading-zeros}; blinds {1, N-1, leading-zero, DRBG, 2^384-1, 64 bytes, zero}; client secrets and index keys in [1, N-1]",
		"the anonymous origin id argument is fixed per origin (honest attester input), so FinalizeIndex has no reason to reject",
		"reference: own expand_message_xmd/hash_to_field (RFC 9380, SHA-384, DST 'ECDSA Key Blind', L=72) over minimal big-endian bytes(index key)||00||0003'IssuerBlind', crypto/elliptic point arithmetic, x/crypto/hkdf",
		"nonce, challenge bytes, challenge length (32,0,65,1000 by position) and all entropy differ at every step; crypto/rand.Reader is a per-goroutine SHA-256 counter DRBG")
	r.Set("dimensions", map[string]any{"clients": nClients, "index_key_sets": nKeySets, "origins": nOrigins, "blinds": nBlinds, "depth": depth, "challenge_lens": challengeLens})

	type combo struct{ c, ks int }
	var combos []combo
	for c := 0; c < nClients; c++ {
		for ks := 0; ks < nKeySets; ks++ {
			combos = append(combos, combo{c, ks})
		}
	}
	// depth 3 (thorough) costs 21^3 full flows per (client, key set): it is run for four of the ten
	// combinations (one per kind of client), the others stay at depth 2
	deep := map[combo]bool{{0, 0}: true, {2, 1}: true, {3, 0}: true, {4, 0}: true}
	r.Par(len(combos), func(i int) {
		d := depth
		if d > 2 && !deep[combos[i]] {
			d = 2
		}
		newSeq(combos[i].c, combos[i].ks, d).Run(r)
	})
	r.Set("depth_3_combinations", "clients c1/k0, c3/k1, c4/k0, c5/k0 (thorough); all others depth 2")

	// client key encodings
	var encs []encCase
	for c := 0; c < nClients; c++ {
		for ks := 0; ks < nKeySets; ks++ {
			for _, e := range keyEncodings {
				encs = append(encs, encCase{C: c, KS: ks, O: (c + ks) % nOrigins, Enc: e})
			}
		}
	}
	r.Par(len(encs), func(i int) {
		o, v := encCheck(encs[i])
		if v != nil {
			r.Violation("keyenc", encs[i], v)
		}
		r.Case(fmt.Sprintf("keyenc-%+v", encs[i]), true, "key-encoding:"+o)
	})

	// pairwise distinctness of the IDs observed for the 18 (client, index key) pairs
	var keys []string
	ids := map[string]string{}
	observed.Range(func(k, v any) bool {
		keys = append(keys, k.(string))
		ids[k.(string)] = v.(string)
		return true
	})
	sort.Strings(keys)
	if len(keys) != nClients*nKeySets*nOrigins {
		r.Note("only %d of %d (client, index key) pairs produced an ID", len(keys), nClients*nKeySets*nOrigins)
	}
	parse := func(k string) Op {
		var o Op
		fmt.Sscanf(k, "%d-%d-%d", &o.C, &o.KS, &o.O)
		return o
	}
	for i := 0; i < len(keys); i++ {
		for j := i + 1; j < len(keys); j++ {
			a, b := parse(keys[i]), parse(keys[j])
			out := "pair-distinct"
			if ids[keys[i]] == ids[keys[j]] {
				out = "pair-collides"
				r.Violation("distinct", pairP{A: a, B: b}, &mc.Viol{Sig: "two distinct (client, index key) pairs share one ID",
					What: fmt.Sprintf("%s and %s both give %s", a.label(), b.label(), ids[keys[i]])})
			}
			r.Case("distinct:"+keys[i]+"/"+keys[j], true, out)
		}
	}
	r.Set("distinct_pairs_compared", len(keys)*(len(keys)-1)/2)
	r.Finish()
}
