// C15: Ed25519 key blinding yields ordinary, invertible, context-bound Ed25519 keys.
//
// Bounded exhaustive enumeration of (key seed x 32-byte blind x context x message) and of
// all ordered pairs of (blind, context) on the real github.com/cloudflare/pat-go/ed25519
// package. Reference: r = int_le(SHA-512(blind || 0x00 || context)[0:32]) mod L and the
// blinded key compress(r*A) computed on the math/big curve of verif/checks/edref;
// verifiers: crypto/ed25519.Verify, the package's own Verify, and a plain RFC 8032
// verifier over math/big (cofactorless and cofactored).
//
// Blinds are always handed over as fresh exact-capacity slices: the pinned code appends to
// the caller's blind slice (property C16), which must not disturb this check.
package main

import (
	"bytes"
	stded "crypto/ed25519"
	"crypto/sha512"
	"encoding/hex"
	"encoding/json"
	"fmt"
	"math/big"
	"os"
	"os/exec"
	"runtime/debug"
	"strings"

	ed "github.com/cloudflare/pat-go/ed25519"

	"verif/checks/edref"
	"verif/mc"
)

func hx(b []byte) string { return hex.EncodeToString(b) }
func unhx(s string) []byte {
	b, err := hex.DecodeString(s)
	if err != nil {
		panic("bad hex in params: " + err.Error())
	}
	return b
}

// fresh returns an exact-capacity private copy.
func fresh(b []byte) []byte {
	c := append([]byte(nil), b...)
	return c[:len(c):len(c)]
}

// Ctx is a context string; Nil distinguishes the nil slice from the empty one (they
// mean the same thing and must behave the same).
type Ctx struct {
	Nil bool   `json:"nil,omitempty"`
	Hex string `json:"hex"`
}

func (c Ctx) bytes() []byte {
	if c.Nil {
		return nil
	}
	b := unhx(c.Hex)
	if len(b) == 0 {
		return []byte{} // empty but not nil
	}
	return fresh(b)
}

func (c Ctx) empty() bool { return c.Nil || c.Hex == "" }

// refScalar is the property's formula.
func refScalar(blind, ctx []byte) *big.Int {
	h := sha512.New()
	h.Write(blind)
	h.Write([]byte{0})
	h.Write(ctx)
	d := h.Sum(nil)
	r := edref.FromLE(d[:32])
	return r.Mod(r, edref.L)
}

func catchErr(name string, f func() error) (string, error) {
	var err error
	pn := mc.Catch(func() { err = f() })
	if pn != "" {
		return name + " panics: " + pn, nil
	}
	return "", err
}

// ---------- one (seed, blind, context) with its messages ----------

type blindP struct {
	Seed  string   `json:"seed_hex"`
	Blind string   `json:"blind_hex"`
	Ctx   Ctx      `json:"context"`
	Msgs  []string `json:"msgs_hex"`
}

type blindRes struct {
	key  []byte   // blinded key as returned by the implementation
	r    *big.Int // reference scalar
	sigs [][]byte
}

func checkBlind(p blindP) (*mc.Viol, *blindRes) {
	seed, blind := unhx(p.Seed), unhx(p.Blind)
	if len(seed) != 32 || len(blind) != 32 {
		panic("harness: seed and blind are 32 bytes")
	}
	ctxRef := p.Ctx.bytes()
	where := fmt.Sprintf("seed=%s blind=%s context=%+v", p.Seed, p.Blind, p.Ctx)
	priv := ed.NewKeyFromSeed(fresh(seed))
	A := fresh(priv[32:])
	Aref, ok := edref.Decompress(A)
	if !ok || !bytes.Equal(A, stded.NewKeyFromSeed(seed)[32:]) {
		return &mc.Viol{Sig: "NewKeyFromSeed does not give the standard public key (C14 territory)", What: where}, nil
	}
	r := refScalar(blind, ctxRef)
	want := edref.Compress(edref.Mul(r, Aref))
	res := &blindRes{r: r}

	// blinding
	type blindFn struct {
		name string
		f    func() (ed.PublicKey, error)
	}
	fns := []blindFn{{"BlindPublicKeyWithContext", func() (ed.PublicKey, error) {
		return ed.BlindPublicKeyWithContext(fresh(A), fresh(blind), p.Ctx.bytes())
	}}}
	if p.Ctx.empty() {
		fns = append(fns, blindFn{"BlindPublicKey", func() (ed.PublicKey, error) { return ed.BlindPublicKey(fresh(A), fresh(blind)) }})
	}
	for _, fn := range fns {
		var bk ed.PublicKey
		pn, err := catchErr(fn.name, func() (e error) { bk, e = fn.f(); return })
		if pn != "" {
			return &mc.Viol{Sig: fn.name + " panics on an honest key", What: where + ": " + pn}, nil
		}
		if err != nil {
			return &mc.Viol{Sig: fn.name + " fails on an honest key", What: where + ": " + err.Error()}, nil
		}
		if !bytes.Equal(bk, want) {
			return &mc.Viol{Sig: fn.name + ": blinded key is not (SHA-512(blind||00||context)[:32] mod L) * A",
				What: fmt.Sprintf("%s: got %x, reference %x (r=%x)", where, []byte(bk), want, edref.LE(r, 32))}, nil
		}
		if res.key == nil {
			res.key = fresh(bk)
		}
	}
	if r.Sign() == 0 {
		return nil, res // the zero scalar has no inverse; unreachable without a SHA-512 preimage
	}

	// unblinding inverts blinding
	type unFn struct {
		name string
		f    func() (ed.PublicKey, error)
	}
	uns := []unFn{{"UnblindPublicKeyWithContext", func() (ed.PublicKey, error) {
		return ed.UnblindPublicKeyWithContext(fresh(want), fresh(blind), p.Ctx.bytes())
	}}}
	if p.Ctx.empty() {
		uns = append(uns, unFn{"UnblindPublicKey", func() (ed.PublicKey, error) { return ed.UnblindPublicKey(fresh(want), fresh(blind)) }})
	}
	for _, fn := range uns {
		var ub ed.PublicKey
		pn, err := catchErr(fn.name, func() (e error) { ub, e = fn.f(); return })
		if pn != "" {
			return &mc.Viol{Sig: fn.name + " panics on a blinded key", What: where + ": " + pn}, nil
		}
		if err != nil {
			return &mc.Viol{Sig: fn.name + " fails on a blinded key", What: where + ": " + err.Error()}, nil
		}
		if !bytes.Equal(ub, A) {
			return &mc.Viol{Sig: fn.name + " does not invert blinding", What: fmt.Sprintf("%s: unblind(blind(A)) = %x, A = %x", where, []byte(ub), A)}, nil
		}
	}

	// signatures
	for _, mh := range p.Msgs {
		msg := unhx(mh)
		mw := fmt.Sprintf("%s len(msg)=%d", where, len(msg))
		type signFn struct {
			name string
			f    func() []byte
		}
		sfs := []signFn{{"BlindKeySignWithContext", func() []byte {
			return ed.BlindKeySignWithContext(ed.PrivateKey(fresh(priv)), fresh(msg), fresh(blind), p.Ctx.bytes())
		}}}
		if p.Ctx.empty() {
			sfs = append(sfs, signFn{"BlindKeySign", func() []byte { return ed.BlindKeySign(ed.PrivateKey(fresh(priv)), fresh(msg), fresh(blind)) }})
		}
		var first []byte
		for _, sf := range sfs {
			for rep := 0; rep < 2; rep++ {
				var sig []byte
				if pn := mc.Catch(func() { sig = sf.f() }); pn != "" {
					return &mc.Viol{Sig: sf.name + " panics on honest input", What: mw + ": " + pn}, nil
				}
				if first == nil {
					first = sig
					continue
				}
				if !bytes.Equal(sig, first) {
					return &mc.Viol{Sig: "blinded signature is not deterministic (" + sf.name + ")", What: fmt.Sprintf("%s: %x then %x", mw, first, sig)}, nil
				}
			}
		}
		sig := first
		res.sigs = append(res.sigs, sig)
		if !stded.Verify(stded.PublicKey(want), msg, sig) {
			return &mc.Viol{Sig: "blinded signature rejected by crypto/ed25519.Verify under the blinded key", What: fmt.Sprintf("%s sig=%x key=%x", mw, sig, want)}, nil
		}
		if !edref.Verify(want, msg, sig, false) || !edref.Verify(want, msg, sig, true) {
			return &mc.Viol{Sig: "blinded signature rejected by the RFC 8032 math/big verifier under the blinded key", What: fmt.Sprintf("%s sig=%x key=%x", mw, sig, want)}, nil
		}
		var own, ownA bool
		if pn := mc.Catch(func() {
			own = ed.Verify(ed.PublicKey(want), msg, sig)
			ownA = ed.Verify(ed.PublicKey(A), msg, sig)
		}); pn != "" {
			return &mc.Viol{Sig: "Verify panics on a blinded signature", What: mw + ": " + pn}, nil
		}
		if !own {
			return &mc.Viol{Sig: "blinded signature rejected by this package's Verify under the blinded key", What: fmt.Sprintf("%s sig=%x key=%x", mw, sig, want)}, nil
		}
		if ownA || stded.Verify(stded.PublicKey(A), msg, sig) {
			return &mc.Viol{Sig: "blinded signature verifies under the original (unblinded) key", What: fmt.Sprintf("%s sig=%x A=%x", mw, sig, A)}, nil
		}
	}
	return nil, res
}

func checkBlindSafe(p blindP) (v *mc.Viol, res *blindRes) {
	if pn := mc.CatchStack(func() { v, res = checkBlind(p) }); pn != "" {
		return &mc.Viol{Sig: "harness-panic", What: pn}, nil
	}
	return
}

// ---------- ordered pairs of (blind, context) ----------

// ---- sequences: one key and one blind signed under several contexts / messages in a row.
// Blind signing is a pure function: what was signed before must not matter. ----

type seqP struct {
	Seed  string `json:"seed"`
	Blind string `json:"blind"`
	Ctxs  []Ctx  `json:"contexts_in_order"`
	Msg   string `json:"message"`
}

func checkSeq(p seqP) *mc.Viol {
	seed, blind, msg := unhx(p.Seed), unhx(p.Blind), unhx(p.Msg)
	// ONE key object, one blind and one message buffer are used for the whole sequence, as a caller
	// would; the reference values come from private copies
	priv := ed.NewKeyFromSeed(fresh(seed))
	stdPriv := stded.NewKeyFromSeed(fresh(seed))
	A := fresh(priv[32:])
	blindBuf, msgBuf := fresh(blind), fresh(msg)
	first := map[string][]byte{}
	for i, c := range p.Ctxs {
		where := fmt.Sprintf("seed=%s blind=%s step %d of contexts %+v", p.Seed, p.Blind, i, p.Ctxs)
		var sig []byte
		var bk ed.PublicKey
		var err error
		if pn := mc.Catch(func() {
			sig = ed.BlindKeySignWithContext(priv, msgBuf, blindBuf, c.bytes())
			bk, err = ed.BlindPublicKeyWithContext(fresh(A), fresh(blind), c.bytes())
		}); pn != "" {
			return &mc.Viol{Sig: "BlindKeySignWithContext panics in a sequence of calls", What: where + ": " + pn}
		}
		if err != nil {
			return &mc.Viol{Sig: "BlindPublicKeyWithContext fails in a sequence of calls", What: where + ": " + err.Error()}
		}
		if !bytes.Equal(priv, stdPriv) || !bytes.Equal(blindBuf, blind) || !bytes.Equal(msgBuf, msg) {
			return &mc.Viol{Sig: "BlindKeySignWithContext changes the key, blind or message it was given", What: fmt.Sprintf("%s: private key now %x", where, []byte(priv))}
		}
		if !stded.Verify(stded.PublicKey(bk), msg, sig) {
			return &mc.Viol{Sig: "blinded signature depends on what was signed before (does not verify under the blinded key after earlier calls with the same key object)", What: where}
		}
		k := fmt.Sprintf("%v/%s", c.Nil, c.Hex)
		if prev, ok := first[k]; ok && !bytes.Equal(prev, sig) {
			return &mc.Viol{Sig: "blind signing is not deterministic: the same key, blind, context and message give another signature later in a sequence", What: where}
		}
		first[k] = fresh(sig)
	}
	// the caller keeps ONE public-key, blind and context buffer and changes them in place between
	// calls; in between, a call with a public key that is not a point fails (legally): every call is
	// judged against the reference for the bytes it was given
	{
		pubBuf, blBuf := fresh(A), fresh(blind)
		ctxBuf := []byte("context kept in one caller-owned buffer")
		Aref, _ := edref.Decompress(A)
		want := func() []byte {
			return edref.Compress(edref.Mul(refScalar(blBuf, ctxBuf), Aref))
		}
		step := func(what string) *mc.Viol {
			var bk, un ed.PublicKey
			var err, err2 error
			if pn := mc.Catch(func() {
				bk, err = ed.BlindPublicKeyWithContext(pubBuf, blBuf, ctxBuf)
				if err == nil {
					un, err2 = ed.UnblindPublicKeyWithContext(fresh(bk), blBuf, ctxBuf)
				}
			}); pn != "" {
				return &mc.Viol{Sig: "BlindPublicKeyWithContext panics in a sequence of calls", What: what + ": " + pn}
			}
			if err != nil || err2 != nil {
				return &mc.Viol{Sig: "BlindPublicKeyWithContext fails in a sequence of calls", What: fmt.Sprintf("%s: %v %v", what, err, err2)}
			}
			if !bytes.Equal(bk, want()) {
				return &mc.Viol{Sig: "blinded key is not r*A for the blind and context given in this call (" + what + ")", What: fmt.Sprintf("seed=%s: got %x want %x", p.Seed, []byte(bk), want())}
			}
			if !bytes.Equal(un, A) {
				return &mc.Viol{Sig: "UnblindPublicKeyWithContext does not invert blinding (" + what + ")", What: fmt.Sprintf("seed=%s", p.Seed)}
			}
			return nil
		}
		if v := step("first call"); v != nil {
			return v
		}
		ctxBuf[len(ctxBuf)-1] ^= 0x01
		if v := step("context changed in place after an earlier call"); v != nil {
			return v
		}
		blBuf[7] ^= 0x40
		if v := step("blind changed in place after an earlier call"); v != nil {
			return v
		}
		for _, notAPoint := range [][]byte{edref.LE(big.NewInt(2), 32), bytes.Repeat([]byte{0xff}, 32)} {
			var err error
			_ = mc.Catch(func() { _, err = ed.BlindPublicKeyWithContext(ed.PublicKey(notAPoint), blBuf, ctxBuf) })
			_ = mc.Catch(func() { _, err = ed.UnblindPublicKeyWithContext(ed.PublicKey(notAPoint), blBuf, ctxBuf) })
			_ = err
			if v := step("after a call that failed on a public key that is not a point"); v != nil {
				return v
			}
		}
	}
	// the key object still signs like crypto/ed25519
	var plain []byte
	if pn := mc.Catch(func() { plain = ed.Sign(priv, msgBuf) }); pn != "" {
		return &mc.Viol{Sig: "Sign panics after blind signatures with the same key object", What: pn}
	}
	if !bytes.Equal(plain, stded.Sign(stdPriv, msg)) {
		return &mc.Viol{Sig: "Sign after blind signatures with the same key object differs from crypto/ed25519", What: fmt.Sprintf("seed=%s contexts %+v", p.Seed, p.Ctxs)}
	}
	return nil
}

type pairP struct {
	Seed   string `json:"seed_hex"`
	Blind1 string `json:"blind1_hex"`
	Ctx1   Ctx    `json:"context1"`
	Blind2 string `json:"blind2_hex"`
	Ctx2   Ctx    `json:"context2"`
}

// checkPair: blinding with (b1,c1) then (b2,c2) equals the reverse order and equals
// (r1 r2 mod L) * A; if the reference scalars differ, the two singly blinded keys differ;
// if both (blind, context) mean the same input, they are equal.
func checkPair(p pairP) (*mc.Viol, string) {
	seed, b1, b2 := unhx(p.Seed), unhx(p.Blind1), unhx(p.Blind2)
	where := fmt.Sprintf("seed=%s (blind=%s context=%+v) and (blind=%s context=%+v)", p.Seed, p.Blind1, p.Ctx1, p.Blind2, p.Ctx2)
	A := []byte(stded.NewKeyFromSeed(seed)[32:])
	Aref, _ := edref.Decompress(A)
	r1, r2 := refScalar(b1, p.Ctx1.bytes()), refScalar(b2, p.Ctx2.bytes())
	bl := func(k []byte, b []byte, c Ctx) ([]byte, *mc.Viol) {
		var out ed.PublicKey
		pn, err := catchErr("BlindPublicKeyWithContext", func() (e error) {
			out, e = ed.BlindPublicKeyWithContext(fresh(k), fresh(b), c.bytes())
			return
		})
		if pn != "" || err != nil {
			return nil, &mc.Viol{Sig: "BlindPublicKeyWithContext fails or panics on a (blinded) honest key", What: fmt.Sprintf("%s: %s %v", where, pn, err)}
		}
		return out, nil
	}
	k1, v := bl(A, b1, p.Ctx1)
	if v != nil {
		return v, ""
	}
	k2, v := bl(A, b2, p.Ctx2)
	if v != nil {
		return v, ""
	}
	k12, v := bl(k1, b2, p.Ctx2)
	if v != nil {
		return v, ""
	}
	k21, v := bl(k2, b1, p.Ctx1)
	if v != nil {
		return v, ""
	}
	if !bytes.Equal(k12, k21) {
		return &mc.Viol{Sig: "two blindings do not commute", What: fmt.Sprintf("%s: %x vs %x", where, k12, k21)}, ""
	}
	rr := new(big.Int).Mul(r1, r2)
	rr.Mod(rr, edref.L)
	want := edref.Compress(edref.Mul(rr, Aref))
	if !bytes.Equal(k12, want) {
		return &mc.Viol{Sig: "doubly blinded key is not (r1*r2 mod L) * A", What: fmt.Sprintf("%s: got %x reference %x", where, k12, want)}, ""
	}
	sameInput := p.Blind1 == p.Blind2 && (p.Ctx1.Hex == p.Ctx2.Hex)
	switch {
	case sameInput:
		if !bytes.Equal(k1, k2) {
			return &mc.Viol{Sig: "the same blind and context (nil vs empty) give different blinded keys", What: where}, ""
		}
		return nil, "pair:same-input:equal-keys+commute"
	case r1.Cmp(r2) != 0:
		if bytes.Equal(k1, k2) {
			return &mc.Viol{Sig: "changing the blind or the context does not change the blinded key", What: fmt.Sprintf("%s: both %x", where, k1)}, ""
		}
		return nil, "pair:different-input:different-keys+commute"
	}
	return nil, "pair:sha512-collision-mod-L(unreachable)"
}

func checkPairSafe(p pairP) (v *mc.Viol, out string) {
	if pn := mc.CatchStack(func() { v, out = checkPair(p) }); pn != "" {
		return &mc.Viol{Sig: "harness-panic", What: pn}, ""
	}
	return
}

// ---------- alphabets ----------

func pattern(f func(i int) byte) []byte {
	b := make([]byte, 32)
	for i := range b {
		b[i] = f(i)
	}
	return b
}

// ---- determinism across processes ----
//
// "Deterministic" means a function of key, blind, context and message: the same four inputs give
// the same signature in another process as well (nothing drawn at start-up may enter it). The
// check runs itself as a second process that prints the signatures of a fixed list of inputs.

type procP struct {
	Index int `json:"input_index"`
}

func procInputs() [][4][]byte {
	var out [][4][]byte
	for i := 0; i < 6; i++ {
		seed := bytes.Repeat([]byte{byte(0x30 + i)}, 32)
		blind := bytes.Repeat([]byte{byte(0x80 + 7*i)}, 32)
		ctx := []byte(fmt.Sprintf("process-independent context %d", i))
		if i == 0 {
			ctx = nil
		}
		msg := bytes.Repeat([]byte{byte(i)}, 1+40*i)
		out = append(out, [4][]byte{seed, blind, ctx, msg})
	}
	return out
}

func procSigs() []string {
	var out []string
	for _, in := range procInputs() {
		priv := ed.NewKeyFromSeed(in[0])
		var sig []byte
		if pn := mc.Catch(func() { sig = ed.BlindKeySignWithContext(priv, in[3], in[1], in[2]) }); pn != "" {
			out = append(out, "panic")
			continue
		}
		out = append(out, hx(sig))
	}
	return out
}

func otherProcessSigs() ([]string, error) {
	cmd := exec.Command(os.Args[0])
	cmd.Env = append(os.Environ(), "C15_PRINT_SIGNATURES=1")
	b, err := cmd.Output()
	if err != nil {
		return nil, err
	}
	return strings.Fields(string(b)), nil
}

func checkProc(p procP) *mc.Viol {
	here := procSigs()
	there, err := otherProcessSigs()
	if err != nil || len(there) != len(here) || p.Index < 0 || p.Index >= len(here) {
		return nil // harness trouble is reported by the caller, never as a verdict
	}
	if here[p.Index] != there[p.Index] {
		return &mc.Viol{Sig: "blind signing is not deterministic: another process signs the same key, blind, context and message differently", What: fmt.Sprintf("input %d: this process %s, second process %s", p.Index, here[p.Index], there[p.Index])}
	}
	return nil
}

func main() {
	if os.Getenv("C15_PRINT_SIGNATURES") != "" {
		for _, s := range procSigs() {
			fmt.Println(s)
		}
		return
	}
	r := mc.Start("C15", "exploration")
	debug.SetGCPercent(-1)
	debug.SetMemoryLimit(1 << 30)
	mc.InstallDRBG(r.Seed)
	r.RegisterReplay("blind", func(pj json.RawMessage) *mc.Viol {
		var p blindP
		json.Unmarshal(pj, &p)
		v, _ := checkBlindSafe(p)
		return v
	})
	r.RegisterReplay("process", func(pj json.RawMessage) *mc.Viol {
		var p procP
		json.Unmarshal(pj, &p)
		return checkProc(p)
	})
	r.RegisterReplay("seq", func(pj json.RawMessage) *mc.Viol {
		var p seqP
		json.Unmarshal(pj, &p)
		return checkSeq(p)
	})
	r.RegisterReplay("pair", func(pj json.RawMessage) *mc.Viol {
		var p pairP
		json.Unmarshal(pj, &p)
		v, _ := checkPairSafe(p)
		return v
	})
	if r.IsReplay() {
		r.DoReplay()
	}
	th := r.Thorough()

	seeds := [][]byte{
		pattern(func(int) byte { return 0 }), pattern(func(int) byte { return 0xff }), pattern(func(int) byte { return 1 }),
		pattern(func(int) byte { return 0x42 }), pattern(func(i int) byte { return byte(i) }),
	}
	for i := 0; i < mc.Pick(r, 3, 11); i++ {
		seeds = append(seeds, mc.Fill(r.Seed, fmt.Sprintf("c15-seed-%d", i), 32))
	}
	blinds := [][]byte{
		pattern(func(int) byte { return 0 }), pattern(func(int) byte { return 0xff }),
		pattern(func(i int) byte { // 01 00 ... 00
			if i == 0 {
				return 1
			}
			return 0
		}),
		pattern(func(i int) byte { // 00 ... 00 01
			if i == 31 {
				return 1
			}
			return 0
		}),
		pattern(func(i int) byte { // 00 ... 00 80
			if i == 31 {
				return 0x80
			}
			return 0
		}),
		pattern(func(i int) byte { return byte(i) }),
		edref.LE(edref.L, 32),
	}
	for i := 0; i < mc.Pick(r, 3, 9); i++ {
		blinds = append(blinds, mc.Fill(r.Seed, fmt.Sprintf("c15-blind-%d", i), 32))
	}
	// blinds found by search whose blinding scalar r (nil context), or whose inverse 1/r mod L, has
	// leading zero bytes (r < 2^240 / 1/r < 2^240: one blind in 4096 each): the boundary values of the
	// scalar encodings that blinding and unblinding go through
	{
		lim := new(big.Int).Lsh(big.NewInt(1), 240)
		found := [2]bool{}
		for i := 0; i < 1<<17 && !(found[0] && found[1]); i++ {
			b := mc.Fill(r.Seed, fmt.Sprintf("c15-search-blind-%d", i), 32)
			rr := refScalar(b, nil)
			if rr.Sign() == 0 {
				continue
			}
			if !found[0] && rr.Cmp(lim) < 0 {
				found[0] = true
				blinds = append(blinds, b)
			}
			if inv := new(big.Int).ModInverse(rr, edref.L); !found[1] && inv != nil && inv.Cmp(lim) < 0 {
				found[1] = true
				blinds = append(blinds, b)
			}
		}
		if !found[0] || !found[1] {
			r.Note("search for a blind with a short scalar / short inverse failed")
			r.NotExhaustive("blind search failed")
		}
	}
	ctxs := []Ctx{{Nil: true}, {Hex: ""}, {Hex: "00"}, {Hex: "41"},
		{Hex: hx(mc.Fill(r.Seed, "c15-ctx-32", 32))}, {Hex: hx(mc.Fill(r.Seed, "c15-ctx-200", 200))},
		{Hex: hx(mc.Fill(r.Seed, "c15-ctx-255", 255))}, {Hex: hx(mc.Fill(r.Seed, "c15-ctx-256", 256))}, {Hex: hx(mc.Fill(r.Seed, "c15-ctx-1000", 1000))}}
	if th {
		ctxs = append(ctxs, Ctx{Hex: "0000"}, Ctx{Hex: hx(mc.Fill(r.Seed, "c15-ctx-79", 79))}, Ctx{Hex: hx(mc.Fill(r.Seed, "c15-ctx-80", 80))})
	}
	// context lengths at which blind(32) || 00 || context crosses a SHA-512 block / padding boundary
	// (33+95 = 128, 33+79 = 112, 33+223 = 256), each in two variants that differ in the last byte only
	for _, n := range mc.Pick(r, []int{78, 79, 95, 96, 97}, []int{78, 79, 80, 94, 95, 96, 97, 111, 127, 128, 222, 223, 224}) {
		c := mc.Fill(r.Seed, "c15-ctx-boundary", n)
		c2 := append([]byte{}, c...)
		c2[n-1] ^= 0x01
		ctxs = append(ctxs, Ctx{Hex: hx(c)}, Ctx{Hex: hx(c2)})
	}
	msgLens := []int{0, 64, 1000}
	var msgs []string
	for _, n := range msgLens {
		msgs = append(msgs, hx(mc.Fill(r.Seed, fmt.Sprintf("c15-msg-%d", n), n)))
	}

	// --- sequences: every ordered sequence of length 2 and 3 over four contexts, for 2 seeds x 2 blinds ---
	{
		cs := []Ctx{ctxs[0], ctxs[2], ctxs[3], ctxs[4]}
		var seqs []seqP
		for si := 0; si < 2; si++ {
			for bi := 0; bi < 2; bi++ {
				for a := range cs {
					for b := range cs {
						seqs = append(seqs, seqP{Seed: hx(seeds[si]), Blind: hx(blinds[bi+3]), Ctxs: []Ctx{cs[a], cs[b]}, Msg: msgs[1]})
						for c := range cs {
							if th || (a+b+c)%2 == 0 {
								seqs = append(seqs, seqP{Seed: hx(seeds[si]), Blind: hx(blinds[bi+3]), Ctxs: []Ctx{cs[a], cs[b], cs[c]}, Msg: msgs[1]})
							}
						}
					}
				}
			}
		}
		// sequences run one after the other on one goroutine: they are about call order
		for i := range seqs {
			v := checkSeq(seqs[i])
			if v != nil {
				r.Violation("seq", seqs[i], v)
			}
			r.Case(fmt.Sprintf("seq-%d", i), true, map[bool]string{true: "sequence-ok", false: "sequence-violation"}[v == nil])
		}
		r.Set("call_sequences", len(seqs))
	}

	// --- tuples ---
	type tuple struct{ s, b, c int }
	var tuples []tuple
	for s := range seeds {
		for b := range blinds {
			for c := range ctxs {
				tuples = append(tuples, tuple{s, b, c})
			}
		}
	}
	results := make([]*blindRes, len(tuples))
	// --- pairs: all ordered pairs of (blind, context) combinations ---
	pairSeeds := mc.Pick(r, 2, 3)
	pairCtx := mc.Pick(r, []int{0, 1, 3, 5}, []int{0, 1, 2, 3, 4, 5})
	type combo struct{ b, c int }
	var combos []combo
	for b := range blinds {
		for _, c := range pairCtx {
			combos = append(combos, combo{b, c})
		}
	}
	type pjob struct{ s, i, j int }
	var pjobs []pjob
	for s := 0; s < pairSeeds; s++ {
		for i := range combos {
			for j := range combos {
				pjobs = append(pjobs, pjob{s, i, j})
			}
		}
	}

	r.SetRule("tuples: key seed x blind x context, each with every message (blinded key vs reference, unblinding, signature determinism, acceptance by crypto/ed25519.Verify, this package's Verify and a math/big RFC 8032 verifier under the blinded key, rejection under the original key); pairs: key seed x every ordered pair of (blind, context) combinations incl. identical ones (commutativity, doubly blinded key vs reference, separation); finally every unordered pair of tuples of one seed is compared for key separation. Alphabets hold no duplicates, so cases are distinct by construction. Non-trivial: every case (all run the full blinding arithmetic)")
	r.Assume("seeds, blinds, contexts and messages come from fixed alphabets of representatives (boundary byte patterns, DRBG filler selected by VERIF_SEED, two blinds found by search whose scalar / inverse scalar is below 2^240), not from the full 2^256 spaces",
		"blinds are exactly 32 bytes and are handed over as fresh exact-capacity slices (other lengths panic by contract; aliasing of spare capacity is property C16)",
		"references: SHA-512 from the standard library, scalar and curve arithmetic over math/big (checks/edref), crypto/ed25519.Verify of go1.23.5",
		"'different blind or context => different key' is demanded whenever the reference scalars differ mod L (a SHA-512 collision mod L is the only exception and does not occur in the alphabet)")
	r.Set("dimensions", map[string]any{"seeds": len(seeds), "blinds": len(blinds), "contexts": len(ctxs), "msg_lens": msgLens,
		"tuples": len(tuples), "pair_seeds": pairSeeds, "pair_combinations": len(combos), "ordered_pairs": len(pjobs)})

	r.Par(len(tuples)+len(pjobs), func(x int) {
		if r.OutOfTime() {
			r.NotExhaustive("time budget")
			return
		}
		if x < len(tuples) {
			t := tuples[x]
			p := blindP{Seed: hx(seeds[t.s]), Blind: hx(blinds[t.b]), Ctx: ctxs[t.c], Msgs: msgs}
			v, res := checkBlindSafe(p)
			results[x] = res
			if v != nil {
				r.Violation("blind", p, v)
				r.Case(fmt.Sprintf("t-%d-%d-%d", t.s, t.b, t.c), true, "violates")
				return
			}
			r.Case(fmt.Sprintf("t-%d-%d-%d", t.s, t.b, t.c), true, "key:matches-reference+unblind-inverts")
			r.Bulk(int64(len(res.sigs)), int64(len(res.sigs)), "signature:deterministic+accepted-under-blinded-key-by-3-verifiers")
			r.Bulk(int64(len(res.sigs)), int64(len(res.sigs)), "signature:rejected-under-original-key-by-2-verifiers")
			if x%97 == 5 {
				r.Sample(map[string]any{"kind": "blind", "seed_hex": p.Seed, "blind_hex": p.Blind, "context": p.Ctx, "r_hex": hx(edref.LE(res.r, 32)), "blinded_key_hex": hx(res.key)})
			}
			return
		}
		j := pjobs[x-len(tuples)]
		ci, cj := combos[j.i], combos[j.j]
		p := pairP{Seed: hx(seeds[j.s]), Blind1: hx(blinds[ci.b]), Ctx1: ctxs[ci.c], Blind2: hx(blinds[cj.b]), Ctx2: ctxs[cj.c]}
		v, out := checkPairSafe(p)
		if v != nil {
			r.Violation("pair", p, v)
			out = "violates"
		}
		r.Case(fmt.Sprintf("p-%d-%d-%d", j.s, j.i, j.j), true, out)
		if (x-len(tuples))%211 == 7 {
			r.Sample(map[string]any{"kind": "pair", "params": p, "outcome": out})
		}
	})

	// separation over all tuples of one seed (uses the keys the implementation returned)
	var nSep, nSame int64
	for a := range tuples {
		for b := a + 1; b < len(tuples); b++ {
			ta, tb := tuples[a], tuples[b]
			if ta.s != tb.s || results[a] == nil || results[b] == nil {
				continue
			}
			differ := results[a].r.Cmp(results[b].r) != 0
			eq := bytes.Equal(results[a].key, results[b].key)
			if differ == !eq {
				if differ {
					nSep++
				} else {
					nSame++
				}
				continue
			}
			p := pairP{Seed: hx(seeds[ta.s]), Blind1: hx(blinds[ta.b]), Ctx1: ctxs[ta.c], Blind2: hx(blinds[tb.b]), Ctx2: ctxs[tb.c]}
			if v, _ := checkPairSafe(p); v != nil {
				r.Violation("pair", p, v)
			}
			r.Bulk(1, 1, "violates")
		}
	}
	r.Bulk(nSep, nSep, "separation:different-blind-or-context:different-key")
	r.Bulk(nSame, nSame, "separation:nil-vs-empty-context:same-key")
	// determinism across processes
	if there, err := otherProcessSigs(); err != nil || len(there) != len(procInputs()) {
		r.Note("the second process could not be run (%v): determinism across processes not checked", err)
		r.NotExhaustive("second process unavailable")
	} else {
		for i := range procInputs() {
			p := procP{Index: i}
			v := checkProc(p)
			if v != nil {
				r.Violation("process", p, v)
			}
			r.Case(fmt.Sprintf("process-%d", i), true, "same signature in a second process")
		}
	}
	r.Finish()
}
