// C10: issuer-side token verification accepts exactly the tokens it issued.
//
// Bounded exhaustive enumeration on the real type-1 / type-5 issuers:
//
//	honest tokens (keys x inputs, produced by full wire flows) crossed with
//	  - every single-bit flip of the marshalled token (decoded by the real decoder),
//	  - every issuer of the alphabet, both types (wire path and struct path),
//	  - a fixed list of hand-built tokens.Token structs with moved field boundaries,
//	    empty / nil fields, shortened / extended / truncated authenticators, foreign
//	    token types, and authenticators recomputed by the reference for the target key.
//
// Oracle (the statement itself): Verify accepts  <=>  authenticator ==
// VOPRF(issuer key, uint16 type || nonce || context || key id as carried), the VOPRF
// being px.RefOPRF (RFC 9497 Evaluate recomposed from group primitives). Verify must
// never panic.
package main

import (
	"bytes"
	"encoding/binary"
	"encoding/hex"
	"encoding/json"
	"fmt"
	"strings"
	"sync"

	"github.com/cloudflare/circl/oprf"
	"github.com/cloudflare/pat-go/tokens"
	"github.com/cloudflare/pat-go/tokens/type1"
	"github.com/cloudflare/pat-go/tokens/type5"

	"verif/mc"
	"verif/px"
)

// ---- materialised case -------------------------------------------------------------------

// TokJ is a tokens.Token with nil-able fields (JSON null = nil slice).
type TokJ struct {
	Type    uint16  `json:"type"`
	Nonce   *string `json:"nonce"`
	Context *string `json:"context"`
	KeyID   *string `json:"key_id"`
	Auth    *string `json:"authenticator"`
}

// P is one fully materialised case: a token (wire bytes to be decoded, or a struct)
// presented to one issuer of the key alphabet.
type P struct {
	Label      string  `json:"label"`
	Class      string  `json:"class"`    // stable class of the variation (goes into the signature)
	Relation   string  `json:"relation"` // own-key | other-key | other-type
	IssuerType int     `json:"issuer_type"`
	IssuerKey  int     `json:"issuer_key"` // index into px.OPRFKeyBytes
	Wire       *string `json:"wire,omitempty"`
	Decoder    int     `json:"decoder,omitempty"` // 1 or 5, for Wire
	Tok        *TokJ   `json:"token,omitempty"`
	// Override (with Wire): after decoding, the caller assigns new values to fields of the decoded
	// struct (nil pointer = field left as decoded); what Verify judges is the struct as presented
	Override *TokJ `json:"fields_assigned_after_decoding,omitempty"`
	OverType bool  `json:"type_assigned_after_decoding,omitempty"`
}

func hx(b []byte) *string {
	if b == nil {
		return nil
	}
	s := hex.EncodeToString(b)
	return &s
}

func unhx(s *string) []byte {
	if s == nil {
		return nil
	}
	b, err := hex.DecodeString(*s)
	if err != nil {
		panic("bad hex in params")
	}
	if b == nil {
		b = []byte{}
	}
	return b
}

func suiteOf(t int) oprf.Suite {
	if t == 5 {
		return oprf.SuiteRistretto255
	}
	return oprf.SuiteP384
}

func authLen(t int) int {
	if t == 5 {
		return 64
	}
	return 48
}

// refInput is the authenticator input as carried, written independently of
// tokens.Token.AuthenticatorInput.
func refInput(typ uint16, nonce, context, keyID []byte) []byte {
	out := make([]byte, 2, 2+len(nonce)+len(context)+len(keyID))
	binary.BigEndian.PutUint16(out, typ)
	out = append(out, nonce...)
	out = append(out, context...)
	out = append(out, keyID...)
	return out
}

var refCache sync.Map // "t/k/input" -> []byte

func refEval(it, ik int, input []byte) []byte {
	key := fmt.Sprintf("%d/%d/%s", it, ik, input)
	if v, ok := refCache.Load(key); ok {
		return v.([]byte)
	}
	out := px.RefOPRF(suiteOf(it), px.OPRFKeyBytes(suiteOf(it), ik), input)
	refCache.Store(key, out)
	return out
}

type verifier interface {
	Verify(tokens.Token) error
}

func issuerFor(it, ik int) verifier {
	k := px.OPRFKeyFromBytes(suiteOf(it), px.OPRFKeyBytes(suiteOf(it), ik))
	if it == 5 {
		return type5.NewBatchedPrivateIssuer(k)
	}
	return type1.NewBasicPrivateIssuer(k)
}

// eval runs one case on the implementation and on the reference. It returns the
// outcome class and the violation (nil if verdicts agree).
func eval(p P) (outcome string, reached bool, v *mc.Viol) {
	var tok tokens.Token
	sigBase := fmt.Sprintf("type%d.Verify [%s, %s]", p.IssuerType, p.Class, p.Relation)
	if p.Wire != nil {
		wire := unhx(p.Wire)
		var t tokens.Token
		var err error
		if pn := mc.CatchStack(func() {
			if p.Decoder == 5 {
				t, err = type5.UnmarshalBatchedPrivateToken(wire)
			} else {
				t, err = type1.UnmarshalPrivateToken(wire)
			}
		}); pn != "" {
			return "decoder-panic", false, &mc.Viol{Sig: sigBase + " token decoder panics", What: p.Label + ": " + pn}
		}
		need := 98 + authLen(p.Decoder)
		if err != nil {
			// Decoding failed: the token is rejected. The reference rejects every
			// wire token of the space that cannot be split by the fixed layout; for a
			// token that can be split the reference predicate decides.
			if len(wire) < need {
				return "decode-reject(ref: too short for the layout)", false, nil
			}
			n, c, k, a := wire[2:34], wire[34:66], wire[66:98], wire[98:need]
			want := refEval(p.IssuerType, p.IssuerKey, refInput(binary.BigEndian.Uint16(wire), n, c, k))
			if bytes.Equal(want, a) {
				return "decode-reject(ref accept)", false, &mc.Viol{Sig: sigBase + " decoder rejects a token the reference accepts", What: fmt.Sprintf("%s: decode error %v", p.Label, err)}
			}
			return "decode-reject(ref reject)", false, nil
		}
		tok = t
		if p.Override != nil {
			if p.OverType {
				tok.TokenType = p.Override.Type
			}
			if p.Override.Nonce != nil {
				tok.Nonce = unhx(p.Override.Nonce)
			}
			if p.Override.Context != nil {
				tok.Context = unhx(p.Override.Context)
			}
			if p.Override.KeyID != nil {
				tok.KeyID = unhx(p.Override.KeyID)
			}
			if p.Override.Auth != nil {
				tok.Authenticator = unhx(p.Override.Auth)
			}
		}
	} else {
		tok = tokens.Token{TokenType: p.Tok.Type, Nonce: unhx(p.Tok.Nonce), Context: unhx(p.Tok.Context), KeyID: unhx(p.Tok.KeyID), Authenticator: unhx(p.Tok.Auth)}
	}
	// reference verdict on the fields exactly as carried
	input := refInput(tok.TokenType, tok.Nonce, tok.Context, tok.KeyID)
	if len(input) > 65535 {
		return "skipped(input longer than the VOPRF allows)", false, nil
	}
	want := refEval(p.IssuerType, p.IssuerKey, input)
	refAccept := bytes.Equal(want, tok.Authenticator)
	is := issuerFor(p.IssuerType, p.IssuerKey)
	var err error
	if pn := mc.CatchStack(func() { err = is.Verify(tok) }); pn != "" {
		return "verify-panic", true, &mc.Viol{Sig: sigBase + " panics", What: p.Label + ": " + pn}
	}
	implAccept := err == nil
	switch {
	case implAccept && refAccept:
		return "accept(ref accept)", true, nil
	case !implAccept && !refAccept:
		return "reject(ref reject)", true, nil
	case implAccept && !refAccept:
		return "ACCEPT(ref reject)", true, &mc.Viol{Sig: sigBase + " accepts a token the reference rejects",
			What: fmt.Sprintf("%s: Verify returned nil but authenticator (%d bytes) is not VOPRF(key %d, type||nonce||context||key id as carried [%d bytes])", p.Label, len(tok.Authenticator), p.IssuerKey, len(input))}
	default:
		return "REJECT(ref accept)", true, &mc.Viol{Sig: sigBase + " rejects a token the reference accepts",
			What: fmt.Sprintf("%s: Verify returned %q but authenticator equals VOPRF(key %d, input as carried [%d bytes])", p.Label, err, p.IssuerKey, len(input))}
	}
}

// ---- presentation sequences on ONE issuer object ------------------------------------------
//
// An issuer verifies many tokens in its life: the verdict on a token must not depend on what it
// was shown before (a tampered twin with the same nonce, the same token, a token of another key).

type SeqP struct {
	IssuerType int   `json:"issuer_type"`
	IssuerKey  int   `json:"issuer_key"`
	Steps      []int `json:"steps"` // indices into seqMenu
}

var seqMenuNames = []string{"token A as issued", "token A, authenticator bit flipped (same nonce)", "token A, last authenticator bit flipped", "token A, nonce bit flipped", "token A, context bit flipped",
	"token B as issued (same key)", "token B, authenticator of token A", "token of another key as issued", "token A with the authenticator recomputed for a changed nonce (valid, new nonce)",
	"the bytes of token A cut differently: key id takes the first authenticator byte", "the bytes of token A cut differently: nonce 31 bytes, context 33 bytes"}

func seqMenu(seed int64, it, ik int) ([]tokens.Token, error) {
	a, err := makeHonest(seed, it, ik, 0)
	if err != nil {
		return nil, err
	}
	b, err := makeHonest(seed, it, ik, 1)
	if err != nil {
		return nil, err
	}
	ok := 0
	if ik == 0 {
		ok = 3
	}
	o, err := makeHonest(seed, it, ok, 0)
	if err != nil {
		return nil, err
	}
	cp := func(h honest) tokens.Token {
		return tokens.Token{TokenType: uint16(h.T), Nonce: append([]byte{}, h.N...), Context: append([]byte{}, h.C...), KeyID: append([]byte{}, h.ID...), Authenticator: append([]byte{}, h.A...)}
	}
	m := make([]tokens.Token, 11)
	m[0] = cp(a)
	m[1] = cp(a)
	m[1].Authenticator[0] ^= 0x80
	m[2] = cp(a)
	m[2].Authenticator[len(a.A)-1] ^= 0x01
	m[3] = cp(a)
	m[3].Nonce[5] ^= 0x04
	m[4] = cp(a)
	m[4].Context[31] ^= 0x01
	m[5] = cp(b)
	m[6] = cp(b)
	m[6].Authenticator = append([]byte{}, a.A...)
	m[7] = cp(o)
	m[8] = cp(a)
	m[8].Nonce[0] ^= 0x01
	m[8] = recompute(m[8], it, ik)
	// same marshalled bytes as token A, other field boundaries (Marshal has no length prefixes)
	m[9] = cp(a)
	m[9].KeyID = append(append([]byte{}, a.ID...), a.A[0])
	m[9].Authenticator = append([]byte{}, a.A[1:]...)
	m[10] = cp(a)
	m[10].Nonce = append([]byte{}, a.N[:31]...)
	m[10].Context = append(append([]byte{}, a.N[31:]...), a.C...)
	return m, nil
}

func evalSeq(seed int64, q SeqP) (string, *mc.Viol) {
	menu, err := seqMenu(seed, q.IssuerType, q.IssuerKey)
	if err != nil {
		return "harness", nil
	}
	is := issuerFor(q.IssuerType, q.IssuerKey)
	hist := ""
	out := ""
	for n, st := range q.Steps {
		if st < 0 || st >= len(menu) {
			return "harness", nil
		}
		src := menu[st]
		// the issuer gets its own copy of every presentation (the caller's buffers are reused)
		tok := tokens.Token{TokenType: src.TokenType, Nonce: append([]byte{}, src.Nonce...), Context: append([]byte{}, src.Context...), KeyID: append([]byte{}, src.KeyID...), Authenticator: append([]byte{}, src.Authenticator...)}
		want := refEval(q.IssuerType, q.IssuerKey, refInput(tok.TokenType, tok.Nonce, tok.Context, tok.KeyID))
		refAccept := bytes.Equal(want, tok.Authenticator)
		var verr error
		if pn := mc.CatchStack(func() { verr = is.Verify(tok) }); pn != "" {
			return "verify-panic", &mc.Viol{Sig: fmt.Sprintf("type%d.Verify panics in a sequence of presentations", q.IssuerType), What: hist + seqMenuNames[st] + ": " + pn}
		}
		for _, b := range [][]byte{tok.Nonce, tok.Context, tok.KeyID, tok.Authenticator} {
			for i := range b {
				b[i] = 0xEE
			}
		}
		if (verr == nil) != refAccept {
			verdict, should := "rejects", "accepts"
			if verr == nil {
				verdict, should = "accepts", "rejects"
			}
			when := "as the first presentation"
			if n > 0 {
				when = "after earlier presentations to the same issuer object"
			}
			return "verdict-depends-on-history", &mc.Viol{Sig: fmt.Sprintf("type%d.Verify %s [%s] %s; the reference %s it", q.IssuerType, verdict, seqMenuNames[st], when, should),
				What: fmt.Sprintf("issuer key %d, history: %s-> %s (err %v)", q.IssuerKey, hist, seqMenuNames[st], verr)}
		}
		if refAccept {
			out += "A"
		} else {
			out += "r"
		}
		hist += seqMenuNames[st] + "; "
	}
	return "verdicts-agree:" + out, nil
}

// ---- honest tokens -----------------------------------------------------------------------

type honest struct {
	T, K, In int
	Wire     []byte
	N, C, ID []byte
	A        []byte
}

func (h honest) name() string { return fmt.Sprintf("t%d-k%d-in%d", h.T, h.K, h.In) }

func makeHonest(seed int64, t, k, in int) (honest, error) {
	mc.Entropy(fmt.Sprintf("c10-honest-%d-%d-%d", t, k, in))
	var chal, nonce []byte
	if in == 0 {
		chal = mc.Fill(seed, fmt.Sprintf("c10-chal-%d-%d", t, k), 32)
		nonce = mc.Fill(seed, fmt.Sprintf("c10-nonce-%d-%d", t, k), 32)
	} else {
		chal = mc.Fill(seed, fmt.Sprintf("c10-chal-%d-%d-%d", t, k, in), 65)
		nonce = bytes.Repeat([]byte{0xff}, 32)
		if in > 1 {
			nonce = make([]byte, 32)
		}
	}
	var o *px.Out
	var se *px.StageErr
	if t == 1 {
		o, se = px.NewW1(k).Flow(chal, nonce, nil)
	} else {
		o, se = px.NewW5(k).Flow(chal, [][]byte{nonce}, nil)
	}
	if se != nil {
		return honest{}, se
	}
	w := o.Tokens[0]
	if len(w) != 98+authLen(t) {
		return honest{}, fmt.Errorf("honest token has %d bytes", len(w))
	}
	return honest{T: t, K: k, In: in, Wire: w, N: w[2:34], C: w[34:66], ID: w[66:98], A: w[98:]}, nil
}

// ---- the space ---------------------------------------------------------------------------

type spec struct {
	h      int // honest token index
	it, ik int // issuer
	kind   int // 0 bitflip, 1 matrix-wire, 2 struct variant
	arg    int
}

func relation(h honest, it, ik int) string {
	switch {
	case h.T != it:
		return "other-type"
	case h.K != ik:
		return "other-key"
	}
	return "own-key"
}

func fieldOfBit(bit int) string {
	switch by := bit / 8; {
	case by < 2:
		return "type"
	case by < 34:
		return "nonce"
	case by < 66:
		return "context"
	case by < 98:
		return "key-id"
	}
	return "authenticator"
}

func cat(bs ...[]byte) []byte {
	out := []byte{}
	for _, b := range bs {
		out = append(out, b...)
	}
	return out
}

// variant describes one hand-built Token struct derived from an honest token.
type variant struct {
	name  string
	class string
	build func(h, other honest, it, ik int, seed int64) tokens.Token
}

func base(h honest) tokens.Token {
	return tokens.Token{TokenType: uint16(h.T), Nonce: h.N, Context: h.C, KeyID: h.ID, Authenticator: h.A}
}

// recompute replaces the authenticator by the reference evaluation under the target issuer's key.
func recompute(t tokens.Token, it, ik int) tokens.Token {
	t.Authenticator = refEval(it, ik, refInput(t.TokenType, t.Nonce, t.Context, t.KeyID))
	return t
}

func variants(alen int) []variant {
	vs := []variant{
		{"as-issued", "struct:as-issued", func(h, o honest, it, ik int, s int64) tokens.Token { return base(h) }},
		{"forged-with-target-key", "struct:authenticator-recomputed-for-target-key", func(h, o honest, it, ik int, s int64) tokens.Token { return recompute(base(h), it, ik) }},
		{"nonce31-context33", "struct:boundary-moved", func(h, o honest, it, ik int, s int64) tokens.Token {
			t := base(h)
			t.Nonce, t.Context = h.N[:31], cat(h.N[31:], h.C)
			return t
		}},
		{"nonce33-context31", "struct:boundary-moved", func(h, o honest, it, ik int, s int64) tokens.Token {
			t := base(h)
			t.Nonce, t.Context = cat(h.N, h.C[:1]), h.C[1:]
			return t
		}},
		{"context33-keyid31", "struct:boundary-moved", func(h, o honest, it, ik int, s int64) tokens.Token {
			t := base(h)
			t.Context, t.KeyID = cat(h.C, h.ID[:1]), h.ID[1:]
			return t
		}},
		{"all-in-nonce", "struct:boundary-moved", func(h, o honest, it, ik int, s int64) tokens.Token {
			t := base(h)
			t.Nonce, t.Context, t.KeyID = cat(h.N, h.C, h.ID), []byte{}, nil
			return t
		}},
		{"all-in-keyid", "struct:boundary-moved", func(h, o honest, it, ik int, s int64) tokens.Token {
			t := base(h)
			t.Nonce, t.Context, t.KeyID = nil, nil, cat(h.N, h.C, h.ID)
			return t
		}},
		{"empty-keyid", "struct:key-id-empty", func(h, o honest, it, ik int, s int64) tokens.Token {
			t := base(h)
			t.KeyID = []byte{}
			return t
		}},
		{"empty-keyid-recomputed", "struct:key-id-empty-authenticator-recomputed", func(h, o honest, it, ik int, s int64) tokens.Token {
			t := base(h)
			t.KeyID = []byte{}
			return recompute(t, it, ik)
		}},
		{"keyid-31", "struct:key-id-length", func(h, o honest, it, ik int, s int64) tokens.Token {
			t := base(h)
			t.KeyID = h.ID[:31]
			return t
		}},
		{"keyid-33", "struct:key-id-length", func(h, o honest, it, ik int, s int64) tokens.Token {
			t := base(h)
			t.KeyID = cat(h.ID, []byte{0})
			return t
		}},
		{"keyid-33-recomputed", "struct:key-id-length-authenticator-recomputed", func(h, o honest, it, ik int, s int64) tokens.Token {
			t := base(h)
			t.KeyID = cat(h.ID, []byte{0})
			return recompute(t, it, ik)
		}},
		{"nonce-empty", "struct:nonce-empty", func(h, o honest, it, ik int, s int64) tokens.Token {
			t := base(h)
			t.Nonce = []byte{}
			return t
		}},
		{"nil-nonce", "struct:nil-field", func(h, o honest, it, ik int, s int64) tokens.Token {
			t := base(h)
			t.Nonce = nil
			return t
		}},
		{"nil-context", "struct:nil-field", func(h, o honest, it, ik int, s int64) tokens.Token {
			t := base(h)
			t.Context = nil
			return t
		}},
		{"nil-keyid", "struct:nil-field", func(h, o honest, it, ik int, s int64) tokens.Token {
			t := base(h)
			t.KeyID = nil
			return t
		}},
		{"nil-all-fields", "struct:nil-field", func(h, o honest, it, ik int, s int64) tokens.Token {
			return tokens.Token{TokenType: uint16(h.T), Authenticator: h.A}
		}},
		{"nil-all-fields-recomputed", "struct:nil-fields-authenticator-recomputed", func(h, o honest, it, ik int, s int64) tokens.Token {
			return recompute(tokens.Token{TokenType: uint16(h.T)}, it, ik)
		}},
		{"zero-token", "struct:zero-value", func(h, o honest, it, ik int, s int64) tokens.Token { return tokens.Token{} }},
		{"auth-nil", "struct:authenticator-nil", func(h, o honest, it, ik int, s int64) tokens.Token {
			t := base(h)
			t.Authenticator = nil
			return t
		}},
		{"auth-minus-last", "struct:authenticator-shortened", func(h, o honest, it, ik int, s int64) tokens.Token {
			t := base(h)
			t.Authenticator = h.A[:len(h.A)-1]
			return t
		}},
		{"auth-minus-first", "struct:authenticator-shortened", func(h, o honest, it, ik int, s int64) tokens.Token {
			t := base(h)
			t.Authenticator = h.A[1:]
			return t
		}},
		{"auth-plus-00", "struct:authenticator-extended", func(h, o honest, it, ik int, s int64) tokens.Token {
			t := base(h)
			t.Authenticator = cat(h.A, []byte{0})
			return t
		}},
		{"auth-plus-ff", "struct:authenticator-extended", func(h, o honest, it, ik int, s int64) tokens.Token {
			t := base(h)
			t.Authenticator = cat(h.A, []byte{0xff})
			return t
		}},
		{"auth-plus-16", "struct:authenticator-extended", func(h, o honest, it, ik int, s int64) tokens.Token {
			t := base(h)
			t.Authenticator = cat(h.A, mc.Fill(s, "c10-ext-"+h.name(), 16))
			return t
		}},
		{"auth-doubled", "struct:authenticator-extended", func(h, o honest, it, ik int, s int64) tokens.Token {
			t := base(h)
			t.Authenticator = cat(h.A, h.A)
			return t
		}},
		{"auth-00-prepended", "struct:authenticator-extended", func(h, o honest, it, ik int, s int64) tokens.Token {
			t := base(h)
			t.Authenticator = cat([]byte{0}, h.A)
			return t
		}},
		{"auth-of-other-input", "struct:authenticator-of-other-token", func(h, o honest, it, ik int, s int64) tokens.Token {
			t := base(h)
			t.Authenticator = o.A
			return t
		}},
		{"auth-zero-bytes", "struct:authenticator-constant", func(h, o honest, it, ik int, s int64) tokens.Token {
			t := base(h)
			t.Authenticator = make([]byte, len(h.A))
			return t
		}},
		{"type-swapped", "struct:token-type-changed", func(h, o honest, it, ik int, s int64) tokens.Token {
			t := base(h)
			t.TokenType = uint16(6 - h.T)
			return t
		}},
		{"type-swapped-recomputed", "struct:token-type-changed-authenticator-recomputed", func(h, o honest, it, ik int, s int64) tokens.Token {
			t := base(h)
			t.TokenType = uint16(6 - h.T)
			return recompute(t, it, ik)
		}},
		{"type-0000", "struct:token-type-changed", func(h, o honest, it, ik int, s int64) tokens.Token {
			t := base(h)
			t.TokenType = 0
			return t
		}},
		{"type-ffff", "struct:token-type-changed", func(h, o honest, it, ik int, s int64) tokens.Token {
			t := base(h)
			t.TokenType = 0xffff
			return t
		}},
		{"long-context", "struct:long-field", func(h, o honest, it, ik int, s int64) tokens.Token {
			t := base(h)
			t.Context = mc.Fill(s, "c10-long-"+h.name(), 65535-2-32-32)
			return t
		}},
		{"long-context-recomputed", "struct:long-field-authenticator-recomputed", func(h, o honest, it, ik int, s int64) tokens.Token {
			t := base(h)
			t.Context = mc.Fill(s, "c10-long-"+h.name(), 65535-2-32-32)
			return recompute(t, it, ik)
		}},
	}
	// every proper prefix of the authenticator (0 = empty, non-nil)
	for l := 0; l < alen; l++ {
		l := l
		vs = append(vs, variant{fmt.Sprintf("auth-prefix-%d", l), "struct:authenticator-truncated-to-prefix", func(h, o honest, it, ik int, s int64) tokens.Token {
			t := base(h)
			t.Authenticator = cat(h.A[:l])
			return t
		}})
	}
	// the authenticator followed by a prefix of itself
	for _, l := range []int{1, 16, alen - 1} {
		l := l
		vs = append(vs, variant{fmt.Sprintf("auth-plus-own-prefix-%d", l), "struct:authenticator-extended", func(h, o honest, it, ik int, s int64) tokens.Token {
			t := base(h)
			t.Authenticator = cat(h.A, h.A[:l])
			return t
		}})
	}
	return vs
}

func tokJ(t tokens.Token) *TokJ {
	return &TokJ{Type: t.TokenType, Nonce: hx(t.Nonce), Context: hx(t.Context), KeyID: hx(t.KeyID), Auth: hx(t.Authenticator)}
}

func main() {
	r := mc.Start("C10", "exploration")
	mc.InstallDRBG(r.Seed)
	r.RegisterReplay("verify", func(pj json.RawMessage) *mc.Viol {
		var p P
		if err := json.Unmarshal(pj, &p); err != nil {
			return &mc.Viol{Sig: "bad-params", What: err.Error()}
		}
		_, _, v := eval(p)
		return v
	})
	r.RegisterReplay("sequence", func(pj json.RawMessage) *mc.Viol {
		var q SeqP
		if err := json.Unmarshal(pj, &q); err != nil {
			return &mc.Viol{Sig: "bad-params", What: err.Error()}
		}
		_, v := evalSeq(r.Seed, q)
		return v
	})
	if r.IsReplay() {
		r.DoReplay()
	}

	keys := mc.Pick(r, []int{0, 3}, []int{0, 1, 3, 5})
	inputs := mc.Pick(r, 2, 3)
	types := []int{1, 5}

	// honest tokens
	var hs []honest
	for _, t := range types {
		for _, k := range keys {
			for in := 0; in < inputs; in++ {
				h, err := makeHonest(r.Seed, t, k, in)
				if err != nil {
					r.Note("honest type-%d flow (key %d, input %d) failed: %v; its part of the space is missing", t, k, in, err)
					r.NotExhaustive("an honest issuance needed to build the space failed")
					continue
				}
				hs = append(hs, h)
			}
		}
	}
	otherOf := func(i int) honest { // same type and key, other input (falls back to itself)
		for j, o := range hs {
			if j != i && o.T == hs[i].T && o.K == hs[i].K {
				return o
			}
		}
		return hs[i]
	}

	vs := map[int][]variant{1: variants(48), 5: variants(64)}
	var specs []spec
	for hi, h := range hs {
		for bit := 0; bit < 8*len(h.Wire); bit++ {
			specs = append(specs, spec{h: hi, it: h.T, ik: h.K, kind: 0, arg: bit})
		}
		for arg := 0; arg < 6; arg++ {
			specs = append(specs, spec{h: hi, it: h.T, ik: h.K, kind: 3, arg: arg})
		}
		for _, it := range types {
			for _, ik := range keys {
				specs = append(specs, spec{h: hi, it: it, ik: ik, kind: 1})
				for vi := range vs[h.T] {
					specs = append(specs, spec{h: hi, it: it, ik: ik, kind: 2, arg: vi})
				}
			}
		}
	}

	materialise := func(s spec) P {
		h := hs[s.h]
		p := P{IssuerType: s.it, IssuerKey: s.ik, Relation: relation(h, s.it, s.ik)}
		switch s.kind {
		case 0:
			w := append([]byte{}, h.Wire...)
			w[s.arg/8] ^= 0x80 >> (s.arg % 8)
			p.Wire, p.Decoder = hx(w), s.it
			p.Class = "bitflip:" + fieldOfBit(s.arg)
			p.Label = fmt.Sprintf("%s bit %d (byte %d, %s) flipped -> issuer t%d k%d", h.name(), s.arg, s.arg/8, fieldOfBit(s.arg), s.it, s.ik)
		case 1:
			p.Wire, p.Decoder = hx(h.Wire), s.it
			p.Class = "wire:as-issued"
			p.Label = fmt.Sprintf("%s wire bytes -> decoder and issuer t%d k%d", h.name(), s.it, s.ik)
		case 3:
			flipb := func(b []byte) *string {
				o := append([]byte{}, b...)
				o[len(o)/2] ^= 0x04
				return hx(o)
			}
			p.Wire, p.Decoder = hx(h.Wire), s.it
			ov := &TokJ{}
			name := ""
			switch s.arg {
			case 0:
				ov.Nonce, name = flipb(h.N), "nonce"
			case 1:
				ov.Context, name = flipb(h.C), "context"
			case 2:
				ov.KeyID, name = flipb(h.ID), "key-id"
			case 3:
				ov.Type, name = uint16(h.T)^0x0004, "type"
				p.OverType = true
			case 4:
				ov.Auth, name = flipb(h.A), "authenticator"
			case 5:
				ov.Nonce, name = hx(append([]byte{}, h.N...)), "nonce (same bytes, new slice)"
			}
			p.Override = ov
			p.Class = "decoded-then-field-assigned:" + name
			p.Label = fmt.Sprintf("%s decoded from its wire bytes, then %s assigned -> issuer t%d k%d", h.name(), name, s.it, s.ik)
		case 2:
			v := vs[h.T][s.arg]
			p.Tok = tokJ(v.build(h, otherOf(s.h), s.it, s.ik, r.Seed))
			p.Class = v.class
			p.Label = fmt.Sprintf("%s struct %s -> issuer t%d k%d", h.name(), v.name, s.it, s.ik)
		}
		return p
	}

	r.SetRule("honest tokens (type x key x input, each from a full wire issuance) crossed with: every single-bit flip of the marshalled token presented to the issuing key through the real decoder; the wire bytes presented to every issuer (both types, all keys) through that issuer's decoder; a fixed list of hand-built tokens.Token structs (moved field boundaries, empty/nil fields, key id 31/33 bytes, authenticator nil/shortened/extended/every proper prefix/of another token, foreign token types, 64 KiB context, authenticator recomputed by the reference for the target key) presented to every issuer; every sequence up to the depth over an 11-letter menu of presentations (as issued, tampered twins with the same nonce, other token, other key, valid token with a new nonce) on ONE issuer object per type; every case is a distinct (token, issuer) pair or sequence; non-trivial = the token reached Verify (was not already refused by the decoder)")
	r.Assume("keys come from a fixed alphabet (derived keys and the scalars 1 and N-1), nonces/challenges from fixed fillers; nothing is claimed for all 2^384 keys",
		"reference VOPRF = RFC 9497 Evaluate recomposed from circl group primitives (hash-to-group, scalar multiplication, SHA-384/512 finalisation): it shares circl's group arithmetic with the implementation but not the oprf package's control flow or the token input construction",
		"authenticator inputs longer than 65535 bytes are outside the VOPRF's domain and are not presented")
	r.Set("dimensions", map[string]any{"types": types, "keys_per_type": keys, "inputs_per_key": inputs, "honest_tokens": len(hs),
		"bit_positions": map[string]int{"type1": 146 * 8, "type5": 162 * 8}, "struct_variants": map[string]int{"type1": len(vs[1]), "type5": len(vs[5])}, "issuers": len(types) * len(keys)})

	// every sequence of presentations up to the depth on one issuer object
	{
		depth := mc.Pick(r, 3, 4)
		var seqs []SeqP
		for _, it := range types {
			for _, ik := range []int{keys[0]} {
				var rec func(cur []int)
				rec = func(cur []int) {
					if len(cur) > 0 {
						seqs = append(seqs, SeqP{IssuerType: it, IssuerKey: ik, Steps: append([]int{}, cur...)})
					}
					if len(cur) == depth {
						return
					}
					for m := range seqMenuNames {
						rec(append(cur, m))
					}
				}
				rec(nil)
			}
		}
		r.Par(len(seqs), func(i int) {
			if r.OutOfTime() {
				r.NotExhaustive("time budget")
				return
			}
			out, v := evalSeq(r.Seed, seqs[i])
			if v != nil {
				r.Violation("sequence", seqs[i], v)
			}
			r.Case(fmt.Sprintf("seq-t%d-%v", seqs[i].IssuerType, seqs[i].Steps), len(seqs[i].Steps) > 1, fmt.Sprintf("t%d sequence of %d: %s", seqs[i].IssuerType, len(seqs[i].Steps), strings.SplitN(out, ":", 2)[0]))
		})
		r.Set("presentation_sequences", map[string]any{"menu": seqMenuNames, "depth": depth, "sequences": len(seqs)})
	}

	r.Par(len(specs), func(i int) {
		if r.OutOfTime() {
			r.NotExhaustive("time budget")
			return
		}
		p := materialise(specs[i])
		out, reached, v := eval(p)
		if v != nil {
			r.Violation("verify", p, v)
		}
		cls := p.Class
		if j := strings.Index(cls, ":"); j > 0 && specs[i].kind == 2 {
			cls = "struct"
		}
		r.Case(p.Label, reached, fmt.Sprintf("t%d %s %s: %s", p.IssuerType, cls, p.Relation, out))
		if i%1733 == 0 {
			r.Sample(map[string]any{"case": p.Label, "outcome": out})
		}
	})
	r.Finish()
}
