package main

import (
	"bytes"
	"fmt"

	"github.com/cloudflare/pat-go/tokens"
	"github.com/cloudflare/pat-go/tokens/type1"
	"github.com/cloudflare/pat-go/tokens/type2"
	"github.com/cloudflare/pat-go/tokens/type3"
	"github.com/cloudflare/pat-go/tokens/type5"

	"verif/mc"
	"verif/px"
)

type hop struct {
	Op string `json:"op"`
}

type snap struct {
	name string
	want []byte
	live func() []byte
}

// adapter of one token type for the history search
type hstate struct {
	typ        int
	snaps      []snap
	fields     func() map[string][]byte // live exported request fields (and client key for type 3)
	marshal    func() []byte            // Request().Marshal()
	unmarshal  func(b []byte) bool      // Request().Unmarshal(b)
	otherEnc   []byte                   // a valid encoding of another request of the same type
	handEnc    []byte                   // encoding of the request as created, assembled by hand from its fields at creation
	finalize   func(resp []byte) ([]tokens.Token, error)
	evaluate   func() ([]byte, error) // issuer evaluates the live request object
	verify     func(t tokens.Token) error
	validResp  []byte
	lastToken  *tokens.Token
	returned   [][]byte // byte slices of tokens returned to the caller so far
	holdsOther bool     // the request object currently holds the other request (after decode-other-request)
}

func (s *hstate) record(name string, live func() []byte) {
	s.snaps = append(s.snaps, snap{name: name, want: append([]byte{}, live()...), live: live})
}

func (s *hstate) checkSnaps(after string) *mc.Viol {
	for i := range s.snaps {
		sn := &s.snaps[i]
		if got := sn.live(); !bytes.Equal(got, sn.want) {
			defer func(g []byte) { sn.want = append([]byte{}, g...) }(got) // report a change once per path
			pos := 0
			for pos < len(got) && pos < len(sn.want) && got[pos] == sn.want[pos] {
				pos++
			}
			return &mc.Viol{Sig: fmt.Sprintf("type%d: %s handed out earlier changes during %s", s.typ, sn.name, after), What: fmt.Sprintf("first difference at byte %d (length %d -> %d)", pos, len(sn.want), len(got))}
		}
	}
	return nil
}

func u16(n int) []byte { return []byte{byte(n >> 8), byte(n)} }

func initState(typ int) *hstate {
	s := &hstate{typ: typ}
	nonce := mc.Fill(seedv, fmt.Sprintf("c16h-nonce-%d", typ), 32)
	chal := mc.Fill(seedv, "c16h-chal", 40)
	mc.Entropy(fmt.Sprintf("c16h-%d", typ))
	switch typ {
	case 1:
		w := px.NewW1(0)
		st, err := w.Create(chal, nonce, nil)
		if err != nil {
			panic(err)
		}
		r := st.Request()
		s.handEnc = append([]byte{0, 1, r.TokenKeyID}, r.BlindedReq...)
		s.fields = func() map[string][]byte { return map[string][]byte{"Request().BlindedReq": st.Request().BlindedReq} }
		s.marshal = func() []byte { return st.Request().Marshal() }
		s.unmarshal = func(b []byte) bool { return st.Request().Unmarshal(b) }
		if o, err := w.Create(chal, mc.Fill(seedv, "c16h-other-nonce", 32), nil); err == nil {
			s.otherEnc = append([]byte{}, o.Request().Marshal()...)
		}
		s.finalize = func(resp []byte) ([]tokens.Token, error) {
			t, err := st.FinalizeToken(resp)
			return []tokens.Token{t}, err
		}
		s.evaluate = func() ([]byte, error) { return w.Issuer.Evaluate(st.Request()) }
		s.verify = func(t tokens.Token) error { return w.Issuer.Verify(t) }
		wire := new(type1.BasicPrivateTokenRequest)
		wire.Unmarshal(append([]byte{}, s.handEnc...))
		s.validResp, err = w.Issuer.Evaluate(wire)
		if err != nil {
			panic(err)
		}
	case 2:
		w := px.NewW2(0)
		st, err := w.Create(chal, nonce, nil, nil)
		if err != nil {
			panic(err)
		}
		r := st.Request()
		s.handEnc = append([]byte{0, 2, r.TokenKeyID}, r.BlindedReq...)
		s.fields = func() map[string][]byte { return map[string][]byte{"Request().BlindedReq": st.Request().BlindedReq} }
		s.marshal = func() []byte { return st.Request().Marshal() }
		s.unmarshal = func(b []byte) bool { return st.Request().Unmarshal(b) }
		if o, err := w.Create(chal, mc.Fill(seedv, "c16h-other-nonce", 32), nil, nil); err == nil {
			s.otherEnc = append([]byte{}, o.Request().Marshal()...)
		}
		s.finalize = func(resp []byte) ([]tokens.Token, error) {
			t, err := st.FinalizeToken(resp)
			return []tokens.Token{t}, err
		}
		s.evaluate = func() ([]byte, error) { return w.Issuer.Evaluate(st.Request()) }
		wire := new(type2.BasicPublicTokenRequest)
		wire.Unmarshal(append([]byte{}, s.handEnc...))
		s.validResp, err = w.Issuer.Evaluate(wire)
		if err != nil {
			panic(err)
		}
	case 5:
		w := px.NewW5(0)
		nonces := [][]byte{nonce, mc.Fill(seedv, "c16h-nonce-5b", 32), mc.Fill(seedv, "c16h-nonce-5c", 32)}
		st, err := w.Create(chal, nonces, nil)
		if err != nil {
			panic(err)
		}
		r := st.Request()
		var els []byte
		for _, e := range r.BlindedReq {
			els = append(els, e...)
		}
		s.handEnc = append([]byte{0, 5, r.TokenKeyID, 0x40, byte(len(els))}, els...)
		s.fields = func() map[string][]byte {
			m := map[string][]byte{}
			for i, e := range st.Request().BlindedReq {
				m[fmt.Sprintf("Request().BlindedReq[%d]", i)] = e
			}
			return m
		}
		s.marshal = func() []byte { return st.Request().Marshal() }
		s.unmarshal = func(b []byte) bool { return st.Request().Unmarshal(b) }
		if o, err := w.Create(chal, [][]byte{mc.Fill(seedv, "c16h-other-nonce", 32), mc.Fill(seedv, "c16h-other-nonce2", 32)}, nil); err == nil {
			s.otherEnc = append([]byte{}, o.Request().Marshal()...)
		}
		s.finalize = func(resp []byte) ([]tokens.Token, error) { return st.FinalizeTokens(resp) }
		s.evaluate = func() ([]byte, error) { return w.Issuer.Evaluate(st.Request()) }
		s.verify = func(t tokens.Token) error { return w.Issuer.Verify(t) }
		wire := new(type5.BatchedPrivateTokenRequest)
		if !wire.Unmarshal(append([]byte{}, s.handEnc...)) {
			panic("type5 hand encoding rejected")
		}
		s.validResp, err = w.Issuer.Evaluate(wire)
		if err != nil {
			panic(err)
		}
	case 3:
		w := px.NewW3(0)
		w.Issuer.AddOrigin("origin.example")
		a := px.T3Args{Secret: mc.Fill(seedv, "c16h-secret", 48), Blind: mc.Fill(seedv, "c16h-blind", 48), Challenge: chal, Nonce: nonce, Origin: "origin.example"}
		st, err := w.Create(a)
		if err != nil {
			panic(err)
		}
		r := st.Request()
		s.handEnc = append([]byte{0, 3}, r.RequestKey...)
		s.handEnc = append(s.handEnc, r.NameKeyID...)
		s.handEnc = append(s.handEnc, u16(len(r.EncryptedTokenRequest))...)
		s.handEnc = append(s.handEnc, r.EncryptedTokenRequest...)
		s.handEnc = append(s.handEnc, r.Signature...)
		s.fields = func() map[string][]byte {
			q := st.Request()
			return map[string][]byte{"Request().RequestKey": q.RequestKey, "Request().NameKeyID": q.NameKeyID, "Request().EncryptedTokenRequest": q.EncryptedTokenRequest, "Request().Signature": q.Signature, "ClientKey()": st.ClientKey()}
		}
		s.marshal = func() []byte { return st.Request().Marshal() }
		s.unmarshal = func(b []byte) bool { return st.Request().Unmarshal(b) }
		a2 := a
		a2.Nonce, a2.Origin = mc.Fill(seedv, "c16h-other-nonce", 32), "origin.example"
		if o, err := w.Create(a2); err == nil {
			s.otherEnc = append([]byte{}, o.Request().Marshal()...)
		}
		s.finalize = func(resp []byte) ([]tokens.Token, error) {
			t, err := st.FinalizeToken(resp)
			return []tokens.Token{t}, err
		}
		s.evaluate = func() ([]byte, error) {
			resp, _, err := w.Issuer.Evaluate(st.Request().Marshal())
			return resp, err
		}
		s.validResp, _, err = w.Issuer.Evaluate(append([]byte{}, s.handEnc...))
		if err != nil {
			panic(err)
		}
		_ = type3.RateLimitedTokenType
	}
	return s
}

var histOps = []string{"snap-fields", "snap-marshal", "marshal", "finalize-valid", "finalize-invalid", "evaluate", "verify-token", "decode-other-request", "decode-own-request", "caller-overwrites-returned-tokens"}

func applyHist(s *hstate, op hop) (string, *mc.Viol) {
	out := op.Op
	var v *mc.Viol
	pan := mc.Catch(func() {
		switch op.Op {
		case "snap-fields":
			// the hand-out is the slice the caller received at this moment (captured), not whatever
			// the field points to later
			for name, v := range s.fields() {
				v := v
				s.record(name, func() []byte { return v })
			}
		case "snap-marshal":
			m := s.marshal()
			s.record("the encoding returned by Request().Marshal()", func() []byte { return m })
		case "marshal":
			m := s.marshal()
			if s.holdsOther {
				if !bytes.Equal(m, s.otherEnc) {
					v = &mc.Viol{Sig: fmt.Sprintf("type%d: Request().Marshal() does not encode the request that was decoded into the object", s.typ), What: fmt.Sprintf("got %x… want %x…", m[:min(len(m), 24)], s.otherEnc[:min(len(s.otherEnc), 24)])}
				}
				return
			}
			if !bytes.Equal(m, s.handEnc) {
				v = &mc.Viol{Sig: fmt.Sprintf("type%d: Request().Marshal() no longer encodes the request that was created", s.typ), What: fmt.Sprintf("got %x… want %x…", m[:min(len(m), 24)], s.handEnc[:min(len(s.handEnc), 24)])}
			}
		case "finalize-valid", "finalize-invalid":
			resp := append([]byte{}, s.validResp...)
			if op.Op == "finalize-invalid" {
				resp[len(resp)/2] ^= 0x40
			}
			arg, buf := place(resp, 24, 0xAA)
			before := append([]byte{}, buf...)
			toks, err := s.finalize(arg)
			if d := describeDiff(before, buf, len(resp)); d != "" {
				v = &mc.Viol{Sig: fmt.Sprintf("type%d: finalization writes to the response it was given", s.typ), What: d}
				return
			}
			if op.Op == "finalize-valid" && err == nil && s.verify != nil {
				for _, t := range toks {
					if verr := s.verify(t); verr != nil {
						out = "finalize-valid:invalid-token"
						v = &mc.Viol{Sig: fmt.Sprintf("type%d: finalization of the honest response yields an invalid token after earlier calls on the same state", s.typ), What: verr.Error()}
						return
					}
				}
			}
			if op.Op == "finalize-valid" {
				if err != nil {
					out = "finalize-valid:error"
					v = &mc.Viol{Sig: fmt.Sprintf("type%d: finalization of the honest response fails after earlier calls on the same state", s.typ), What: err.Error()}
					return
				}
				for i := range toks {
					t := toks[i]
					s.returned = append(s.returned, t.Nonce, t.Context, t.KeyID, t.Authenticator)
					s.lastToken = &t
					s.record(fmt.Sprintf("token %d nonce", i), func() []byte { return t.Nonce })
					s.record(fmt.Sprintf("token %d context", i), func() []byte { return t.Context })
					s.record(fmt.Sprintf("token %d key id", i), func() []byte { return t.KeyID })
					s.record(fmt.Sprintf("token %d authenticator", i), func() []byte { return t.Authenticator })
				}
			} else if err == nil {
				out = "finalize-invalid:accepted"
			}
		case "evaluate":
			resp, err := s.evaluate()
			if err != nil {
				out = "evaluate:error"
				v = &mc.Viol{Sig: fmt.Sprintf("type%d: issuer no longer evaluates the request after earlier calls on the same objects", s.typ), What: err.Error()}
				return
			}
			s.record("an issuer response", func() []byte { return resp })
		case "decode-other-request", "decode-own-request":
			// the request object is reused as a decoder (issuer-side reuse, retransmission buffers):
			// values handed out before must keep their bytes, and Marshal must afterwards encode
			// the value the object now holds
			enc, holds := s.otherEnc, "other"
			if op.Op == "decode-own-request" {
				enc, holds = s.handEnc, "own"
			}
			if !s.unmarshal(append([]byte{}, enc...)) {
				v = &mc.Viol{Sig: fmt.Sprintf("type%d: request object rejects a valid encoding when reused", s.typ), What: holds}
				return
			}
			s.holdsOther = holds == "other"
		case "caller-overwrites-returned-tokens":
			// what an operation returned belongs to the caller: it wipes the tokens (and responses)
			// it was given; the objects must not have kept references into them
			if len(s.returned) == 0 {
				out = "caller-overwrites:none"
				return
			}
			for _, b := range s.returned {
				for i := range b {
					b[i] = 0xDD
				}
			}
			s.returned = nil
			s.lastToken = nil
			s.snaps = nil // the wiped values are no longer expected to keep their contents
		case "verify-token":
			if s.lastToken == nil || s.verify == nil {
				out = "verify-token:none"
				return
			}
			if err := s.verify(*s.lastToken); err != nil {
				v = &mc.Viol{Sig: fmt.Sprintf("type%d: a token handed out earlier no longer verifies", s.typ), What: err.Error()}
			}
		}
	})
	if pan != "" {
		return out + ":panic", &mc.Viol{Sig: fmt.Sprintf("type%d: %s panics in a call history", s.typ, op.Op), What: pan}
	}
	if v != nil {
		return out + ":violation", v
	}
	if sv := s.checkSnaps(op.Op); sv != nil {
		return out + ":hand-out-changed", sv
	}
	return out, nil
}

func histories() []*mc.Seq[*hstate, hop] {
	var hs []*mc.Seq[*hstate, hop]
	for _, t := range []int{1, 2, 3, 5} {
		t := t
		hs = append(hs, &mc.Seq[*hstate, hop]{
			Kind: fmt.Sprintf("history-type%d", t),
			Init: func() *hstate { return initState(t) },
			Ops: func(s *hstate, d int) []hop {
				var ops []hop
				for _, o := range histOps {
					ops = append(ops, hop{o})
				}
				return ops
			},
			Apply: applyHist,
			Label: func(o hop) string { return fmt.Sprintf("t%d:%s", t, o.Op) },
		})
	}
	return hs
}
