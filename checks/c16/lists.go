package main

// (D) Arguments that are slices of values rather than of bytes: the caller's own list of
// requests handed to the batch client, and the blinds / nonces lists of the type-5 client. The
// list (its elements' identity and their encodings) must be what the caller put there after any
// later call on the object that was built from it.

import (
	"bytes"
	"fmt"

	"github.com/cloudflare/circl/oprf"
	"github.com/cloudflare/pat-go/tokens"
	"github.com/cloudflare/pat-go/tokens/batched"
	"github.com/cloudflare/pat-go/tokens/type5"

	"verif/bx"
	"verif/mc"
	"verif/px"
)

type listCase struct {
	Op string `json:"op"`
}

var listOps = []string{"batched.CreateTokenRequest then Unmarshal into the built object", "batched.CreateTokenRequest then Marshal", "type5.CreateTokenRequestWithBlinds then finalize",
	"batched.EvaluateBatch: the response handed out earlier keeps its bytes across later batches"}

func runList(c listCase) (string, *mc.Viol) {
	mc.Entropy("c16-list-" + c.Op)
	w1, w2 := px.NewW1(0), px.NewW2(0)
	mkList := func(tag string, n int) []tokens.TokenRequestWithDetails {
		var l []tokens.TokenRequestWithDetails
		for i := 0; i < n; i++ {
			chal, nonce := mc.Fill(seedv, fmt.Sprintf("c16-list-chal-%s-%d", tag, i), 32), mc.Fill(seedv, fmt.Sprintf("c16-list-nonce-%s-%d", tag, i), 32)
			if i%2 == 0 {
				st, err := w1.Create(chal, nonce, nil)
				if err != nil {
					panic(err)
				}
				l = append(l, st.Request())
			} else {
				st, err := w2.Create(chal, nonce, nil, nil)
				if err != nil {
					panic(err)
				}
				l = append(l, st.Request())
			}
		}
		return l
	}
	bad := func(site, what string) (string, *mc.Viol) {
		return "list-changed", &mc.Viol{Sig: c.Op + ": " + site, What: what}
	}
	switch c.Op {
	case listOps[0], listOps[1]:
		l := mkList("a", 3)
		l = l[:3:3]
		ids := append([]tokens.TokenRequestWithDetails{}, l...)
		var encs [][]byte
		for _, e := range l {
			encs = append(encs, append([]byte{}, e.Marshal()...))
		}
		breq, err := batched.NewBasicClient().CreateTokenRequest(l)
		if err != nil {
			return "harness", nil
		}
		if c.Op == listOps[0] {
			other, err := batched.NewBasicClient().CreateTokenRequest(mkList("b", 2))
			if err != nil {
				return "harness", nil
			}
			if !breq.Unmarshal(append([]byte{}, other.Marshal()...)) {
				return "harness", nil
			}
			_ = breq.Marshal()
		} else {
			_ = breq.Marshal()
			_ = breq.Marshal()
		}
		for i := range l {
			if l[i] != ids[i] {
				return bad("element of the caller's request list replaced", fmt.Sprintf("position %d", i))
			}
			if !bytes.Equal(l[i].Marshal(), encs[i]) {
				return bad("element of the caller's request list changed", fmt.Sprintf("position %d", i))
			}
		}
	case listOps[3]:
		bi := batched.NewBasicBatchedIssuer(bx.Issuer1{I: w1.Issuer}, bx.Issuer2{I: w2.Issuer})
		eval := func(tag string, n int) []byte {
			breq, err := batched.NewBasicClient().CreateTokenRequest(mkList(tag, n))
			if err != nil {
				panic(err)
			}
			dec := new(batched.BatchedTokenRequest)
			if !dec.Unmarshal(append([]byte{}, breq.Marshal()...)) {
				panic("batch does not decode")
			}
			resp, err := bi.EvaluateBatch(dec)
			if err != nil {
				panic(err)
			}
			return resp
		}
		first := eval("first", 2)
		keep := append([]byte{}, first...)
		for i, n := range []int{1, 3, 2} {
			_ = eval(fmt.Sprintf("later-%d", i), n)
			if !bytes.Equal(first, keep) {
				return bad("the response of an earlier EvaluateBatch changed when a later batch was evaluated", fmt.Sprintf("after %d later batches", i+1))
			}
		}
	case listOps[2]:
		w5 := px.NewW5(0)
		n := 3
		nonces, blinds := make([][]byte, n), make([][]byte, n)
		for i := range nonces {
			nonces[i] = mc.Fill(seedv, fmt.Sprintf("c16-list-n5-%d", i), 32)
			b := px.OPRFKeyBytes(oprf.SuiteRistretto255, 6+i)
			blinds[i] = b
		}
		copyOf := func(l [][]byte) [][]byte {
			var o [][]byte
			for _, e := range l {
				o = append(o, append([]byte{}, e...))
			}
			return o
		}
		n0, b0 := copyOf(nonces), copyOf(blinds)
		st, err := type5.NewBatchedPrivateClient().CreateTokenRequestWithBlinds(mc.Fill(seedv, "c16-list-chal5", 32), nonces, w5.KeyID, w5.ClientPub(), blinds)
		if err != nil {
			return "harness", nil
		}
		resp, err := w5.Issuer.Evaluate(st.Request())
		if err != nil {
			return "harness", nil
		}
		if _, err := st.FinalizeTokens(resp); err != nil {
			return "harness", nil
		}
		for i := range nonces {
			if !bytes.Equal(nonces[i], n0[i]) || !bytes.Equal(blinds[i], b0[i]) {
				return bad("the caller's nonce or blind list changed", fmt.Sprintf("position %d", i))
			}
		}
	}
	return "unchanged", nil
}
