// C16: operations have no hidden side effects on caller-visible memory.
//
// (A) Argument placement: every exported operation that takes byte slices is called
// with each slice argument placed inside a guarded buffer with spare capacity
// {0,1,16,64,512} filled with {00,AA,FF}: the whole buffer (argument, spare capacity,
// guard bytes) must be unchanged after the call and the result must not depend on the
// spare capacity or its contents.
// (B) Histories: explicit-state enumeration of call sequences on one request state /
// issuer per token type; every value handed out earlier (request fields, encodings,
// responses, tokens) is deep-copied at hand-out and compared with the live value after
// every later call.
package main

import (
	"bytes"
	"crypto/sha256"
	"encoding/hex"
	"encoding/json"
	"fmt"

	"verif/mc"
)

var seedv int64

type argCase struct {
	Op    string `json:"op"`
	Arg   int    `json:"arg"`
	Spare int    `json:"spare"`
	Fill  int    `json:"fill"`
}

const guardLen = 32

// place puts b into a guarded buffer and returns (slice with len(b) and the given spare capacity, whole buffer).
func place(b []byte, spare int, fill byte) ([]byte, []byte) {
	buf := make([]byte, guardLen+len(b)+spare+guardLen)
	for i := range buf {
		buf[i] = 0xC3
	}
	copy(buf[guardLen:], b)
	for i := 0; i < spare; i++ {
		buf[guardLen+len(b)+i] = fill
	}
	return buf[guardLen : guardLen+len(b) : guardLen+len(b)+spare], buf
}

func exact(b []byte) []byte {
	o := make([]byte, len(b))
	copy(o, b)
	return o[:len(b):len(b)]
}

var fills = []byte{0x00, 0xAA, 0xFF}
var spares = []int{0, 1, 16, 64, 512}

func describeDiff(before, after []byte, argLen int) string {
	for i := range before {
		if before[i] != after[i] {
			pos := i - guardLen
			switch {
			case pos < 0:
				return fmt.Sprintf("guard byte %d before the argument changed", i)
			case pos < argLen:
				return fmt.Sprintf("byte %d of the argument changed (%02x -> %02x)", pos, before[i], after[i])
			case i >= len(before)-guardLen:
				return "guard byte behind the capacity changed"
			default:
				return fmt.Sprintf("spare capacity byte %d behind the argument changed (%02x -> %02x)", pos-argLen, before[i], after[i])
			}
		}
	}
	return ""
}

func runArg(c argCase) (string, *mc.Viol) {
	op := opByName(c.Op)
	if op == nil {
		return "unknown-op", nil
	}
	call := func(spare int, fill byte) (res string, buf, before []byte, n int, pan string) {
		args := op.Args()
		for i := range args {
			if i == c.Arg {
				n = len(args[i])
				args[i], buf = place(args[i], spare, fill)
				before = append([]byte{}, buf...)
			} else {
				args[i] = exact(args[i])
			}
		}
		mc.Entropy("c16-" + c.Op)
		pan = mc.Catch(func() { res = op.Call(args) })
		return
	}
	base, _, _, _, pan0 := call(0, 0)
	if pan0 != "" {
		return "baseline-panic", nil // panics are C03's subject
	}
	res, buf, before, n, pan := call(c.Spare, fills[c.Fill])
	if pan != "" {
		return "panic", &mc.Viol{Sig: c.Op + ": panics only when the argument has spare capacity", What: pan}
	}
	if d := describeDiff(before, buf, n); d != "" {
		where := "argument"
		if bytes.Equal(before[guardLen:guardLen+n], buf[guardLen:guardLen+n]) {
			where = "spare capacity"
		}
		return "wrote-to-" + where, &mc.Viol{Sig: fmt.Sprintf("%s writes to the %s of argument %d (%s)", c.Op, where, c.Arg, op.ArgNames[c.Arg]), What: fmt.Sprintf("spare %d fill %02x: %s", c.Spare, fills[c.Fill], d)}
	}
	if res != base {
		return "result-depends-on-capacity", &mc.Viol{Sig: fmt.Sprintf("%s: result depends on the spare capacity of argument %d (%s)", c.Op, c.Arg, op.ArgNames[c.Arg]), What: fmt.Sprintf("spare %d fill %02x: result digest %s, with exact capacity %s", c.Spare, fills[c.Fill], res, base)}
	}
	return "unchanged", nil
}

// ---- truncated messages whose missing tail sits in the spare capacity ----
//
// For every single-argument operation on a peer message: the message is cut at every
// position k and handed over as buf[:k] while buf[k:] (the genuine continuation) lies right
// behind it in the same backing array. The result must be the one for the k-byte message
// with exact capacity: an operation that reads behind len(arg) would see the tail.

type tailCase struct {
	Op  string `json:"op"`
	Cut int    `json:"cut"`
}

func runTail(c tailCase) (string, *mc.Viol) {
	op := opByName(c.Op)
	if op == nil || len(op.ArgNames) != 1 {
		return "unknown-op", nil
	}
	full := op.Args()[0]
	if c.Cut > len(full) {
		return "harness", nil
	}
	var base, got string
	mc.Entropy("c16-" + c.Op)
	p0 := mc.Catch(func() { base = op.Call([][]byte{exact(full[:c.Cut])}) })
	buf := append([]byte{}, full...)
	before := append([]byte{}, buf...)
	mc.Entropy("c16-" + c.Op)
	p1 := mc.Catch(func() { got = op.Call([][]byte{buf[:c.Cut]}) })
	if !bytes.Equal(buf, before) {
		return "wrote-behind-truncated-message", &mc.Viol{Sig: c.Op + " writes to the caller's buffer (truncated message, genuine tail behind it)", What: fmt.Sprintf("cut %d of %d", c.Cut, len(full))}
	}
	if (p0 == "") != (p1 == "") || got != base {
		return "result-depends-on-tail", &mc.Viol{Sig: c.Op + ": result for a truncated message depends on what lies behind it in the buffer", What: fmt.Sprintf("cut %d of %d: with exact capacity %s (panic %q), with the genuine tail behind it %s (panic %q)", c.Cut, len(full), base, p0, got, p1)}
	}
	return "same-as-exact-capacity", nil
}

func digest(parts ...[]byte) string {
	h := sha256.New()
	for _, p := range parts {
		h.Write([]byte{byte(len(p) >> 8), byte(len(p))})
		h.Write(p)
	}
	return hex.EncodeToString(h.Sum(nil)[:12])
}

func main() {
	r := mc.Start("C16", "model_checking")
	seedv = r.Seed
	mc.InstallDRBG(r.Seed)
	buildOps()
	r.RegisterReplay("arg", func(pj json.RawMessage) *mc.Viol {
		var c argCase
		json.Unmarshal(pj, &c)
		_, v := runArg(c)
		return v
	})
	r.RegisterReplay("tail", func(pj json.RawMessage) *mc.Viol {
		var c tailCase
		json.Unmarshal(pj, &c)
		_, v := runTail(c)
		return v
	})
	r.RegisterReplay("list", func(pj json.RawMessage) *mc.Viol {
		var c listCase
		json.Unmarshal(pj, &c)
		var v *mc.Viol
		if pn := mc.CatchStack(func() { _, v = runList(c) }); pn != "" {
			return &mc.Viol{Sig: c.Op + ": panics", What: pn}
		}
		return v
	})
	r.RegisterReplay("bigarg", func(pj json.RawMessage) *mc.Viol {
		var c bigCase
		json.Unmarshal(pj, &c)
		_, v := runBig(c)
		return v
	})
	hs := histories()
	for _, h := range hs {
		h.Register(r)
	}
	if r.IsReplay() {
		r.DoReplay()
	}

	// (A)
	var cases []argCase
	for _, op := range allOps {
		for a := range op.ArgNames {
			for _, sp := range spares {
				for f := range fills {
					if sp == 0 && f > 0 {
						continue
					}
					cases = append(cases, argCase{Op: op.Name, Arg: a, Spare: sp, Fill: f})
				}
			}
		}
	}
	r.Par(len(cases), func(i int) {
		out, v := runArg(cases[i])
		if v != nil {
			r.Violation("arg", cases[i], v)
		}
		r.Case(fmt.Sprintf("%+v", cases[i]), cases[i].Spare > 0, "arg:"+out)
	})
	r.Set("operations", len(allOps))
	r.Set("argument_placements", len(cases))
	r.Sample(argCase{Op: "ed25519.BlindPublicKeyWithContext", Arg: 1, Spare: 16, Fill: 1})

	// (A2) truncated messages with the genuine tail behind them
	var tails []tailCase
	for _, op := range allOps {
		if len(op.ArgNames) != 1 {
			continue
		}
		n := len(op.Args()[0])
		step := 1
		if n > 400 && !r.Thorough() {
			step = 3
		}
		for k := 0; k < n; k += step {
			tails = append(tails, tailCase{Op: op.Name, Cut: k})
		}
	}
	r.Par(len(tails), func(i int) {
		out, v := runTail(tails[i])
		if v != nil {
			r.Violation("tail", tails[i], v)
		}
		r.Case(fmt.Sprintf("tail-%+v", tails[i]), true, "tail:"+out)
	})
	r.Set("truncations_with_tail_in_spare_capacity", len(tails))

	// (C) big integers and key objects of the ecdsa package
	var bigs []bigCase
	for _, op := range bigOps {
		for _, cn := range bigCurveNames {
			bigs = append(bigs, bigCase{Op: op, Curve: cn})
			if op == "BlindPublicKeyWithContext" || op == "UnblindPublicKeyWithContext" || op == "BlindKeySignWithContext" {
				bigs = append(bigs, bigCase{Op: op, Curve: cn, BigBlind: true})
			}
		}
	}
	r.Par(len(bigs), func(i int) {
		out, v := runBig(bigs[i])
		if v != nil {
			r.Violation("bigarg", bigs[i], v)
		}
		r.Case(fmt.Sprintf("big-%+v", bigs[i]), true, "bigarg:"+out)
	})
	r.Set("big_integer_argument_cases", len(bigs))

	// (D) the caller's lists
	for _, op := range listOps {
		c := listCase{Op: op}
		var out string
		var v *mc.Viol
		if pn := mc.CatchStack(func() { out, v = runList(c) }); pn != "" {
			out, v = "panic", &mc.Viol{Sig: op + ": panics", What: pn}
		}
		if v != nil {
			r.Violation("list", c, v)
		}
		r.Case("list-"+op, true, "list:"+out)
	}

	// (B)
	depth := mc.Pick(r, 3, 4)
	for _, h := range hs {
		h.Depth = depth
	}
	r.Par(len(hs), func(i int) { hs[i].Run(r) })
	r.Set("history_depth", depth)
	r.SetRule("(A) every operation x every byte-slice argument x spare capacity {0,1,16,64,512} x fill {00,AA,FF} inside a guarded buffer; non-trivial = spare capacity > 0. (C) every ecdsa operation taking *big.Int values or key objects x 4 curves: all big integers of the arguments compared before/after, call repeated on the same objects. (D) the caller's own request list (batch client) and nonce / blind lists (type-5 client) compared after later calls on the object built from them. (B) every sequence up to the depth over the per-type operation menu (snapshot request fields, snapshot encoding, finalize valid/invalid, evaluate, marshal again, verify) on one request state / issuer; every hand-out is compared after every later step")
	r.Assume("results are compared through a digest of everything the operation returns, under a per-case deterministic entropy stream, so also randomised operations must give identical results across capacities",
		"quicwire.Append* are excluded: writing behind len(dst) is their contract (C19 checks it)",
		"only the goroutine-local view is checked here; concurrent sharing is C17")
	r.Finish()
}
