package main

// (C) Arguments that are not byte slices: the *big.Int values and key objects taken by the
// ecdsa package. Every operation is run on every curve; all big integers reachable from its
// arguments are snapshotted (sign, words) before the call and compared afterwards, and the
// call is repeated on the same argument objects: the second result must equal the first.

import (
	"bytes"
	stdecdsa "crypto/ecdsa"
	"crypto/elliptic"
	"crypto/sha256"
	"fmt"
	"math/big"

	"github.com/cloudflare/pat-go/ecdsa"

	"verif/mc"
)

type bigCase struct {
	Op       string `json:"op"`
	Curve    string `json:"curve"`
	BigBlind bool   `json:"blinding_key_above_the_group_order,omitempty"`
}

var bigCurves = map[string]elliptic.Curve{"P-224": elliptic.P224(), "P-256": elliptic.P256(), "P-384": elliptic.P384(), "P-521": elliptic.P521()}
var bigCurveNames = []string{"P-224", "P-256", "P-384", "P-521"}
var bigOps = []string{"Verify", "VerifyASN1", "Sign", "PrivateKey.Sign", "BlindPublicKeyWithContext", "UnblindPublicKeyWithContext", "BlindKeySignWithContext", "PublicKey.Equal", "PrivateKey.Equal", "PrivateKey.Public"}

type bigSnap struct {
	name string
	p    *big.Int
	sign int
	w    []big.Word
}

func snapOf(name string, x *big.Int) bigSnap {
	return bigSnap{name, x, x.Sign(), append([]big.Word{}, x.Bits()...)}
}

func (s bigSnap) changed() string {
	if s.p.Sign() != s.sign || len(s.p.Bits()) != len(s.w) {
		return fmt.Sprintf("%s changed (now %s)", s.name, s.p.String())
	}
	for i, w := range s.p.Bits() {
		if w != s.w[i] {
			return fmt.Sprintf("%s changed (now %s)", s.name, s.p.String())
		}
	}
	return ""
}

func runBig(c bigCase) (string, *mc.Viol) {
	curve := bigCurves[c.Curve]
	if curve == nil {
		return "harness", nil
	}
	N := curve.Params().N
	mkD := func(label string) *big.Int {
		d := new(big.Int).SetBytes(mc.Fill(seedv, "c16-big-"+label+c.Curve, 80))
		d.Mod(d, new(big.Int).Sub(N, big.NewInt(1)))
		return d.Add(d, big.NewInt(1))
	}
	mkKey := func(label string) *ecdsa.PrivateKey {
		d := mkD(label)
		x, y := curve.ScalarBaseMult(d.Bytes())
		return &ecdsa.PrivateKey{PublicKey: ecdsa.PublicKey{Curve: curve, X: x, Y: y}, D: d}
	}
	priv, bk := mkKey("sk"), mkKey("bk")
	if c.BigBlind {
		// a blinding key made from raw bytes above the group order (CreateKey does not reduce it)
		raw := bytes.Repeat([]byte{0xff}, (N.BitLen()+7)/8)
		x, y := curve.ScalarBaseMult(raw)
		bk = &ecdsa.PrivateKey{PublicKey: ecdsa.PublicKey{Curve: curve, X: x, Y: y}, D: new(big.Int).SetBytes(raw)}
	}
	pub := &ecdsa.PublicKey{Curve: curve, X: new(big.Int).Set(priv.X), Y: new(big.Int).Set(priv.Y)}
	hash := sha256.Sum256([]byte("c16 big " + c.Curve))
	std := &stdecdsa.PrivateKey{PublicKey: stdecdsa.PublicKey{Curve: curve, X: new(big.Int).Set(priv.X), Y: new(big.Int).Set(priv.Y)}, D: new(big.Int).Set(priv.D)}
	r, s, err := stdecdsa.Sign(mc.NewStream(seedv, "c16-big-sign"+c.Curve), std, hash[:])
	if err != nil {
		return "harness", nil
	}
	der, _ := stdecdsa.SignASN1(mc.NewStream(seedv, "c16-big-sign-asn1"+c.Curve), std, hash[:])
	bkCopy := &ecdsa.PrivateKey{PublicKey: ecdsa.PublicKey{Curve: curve, X: new(big.Int).Set(bk.X), Y: new(big.Int).Set(bk.Y)}, D: new(big.Int).Set(bk.D)}
	blinded, err := ecdsa.BlindPublicKeyWithContext(curve, &ecdsa.PublicKey{Curve: curve, X: new(big.Int).Set(priv.X), Y: new(big.Int).Set(priv.Y)}, bkCopy, []byte("ctx"))
	if err != nil {
		return "harness", nil
	}
	ctx := []byte("ctx")
	snaps := []bigSnap{snapOf("private key D", priv.D), snapOf("private key X", priv.X), snapOf("private key Y", priv.Y), snapOf("public key X", pub.X), snapOf("public key Y", pub.Y),
		snapOf("blinding key D", bk.D), snapOf("blinding key X", bk.X), snapOf("blinding key Y", bk.Y), snapOf("signature r", r), snapOf("signature s", s), snapOf("blinded key X", blinded.X), snapOf("blinded key Y", blinded.Y)}
	call := func(n int) string {
		lbl := fmt.Sprintf("c16-big-call-%s-%s", c.Op, c.Curve) // the same entropy for both runs
		switch c.Op {
		case "Verify":
			return fmt.Sprint(ecdsa.Verify(pub, hash[:], r, s))
		case "VerifyASN1":
			return fmt.Sprint(ecdsa.VerifyASN1(pub, hash[:], der))
		case "Sign":
			rr, ss, e := ecdsa.Sign(mc.NewStream(seedv, lbl), priv, hash[:])
			if e != nil {
				return "error " + e.Error()
			}
			out := fmt.Sprint(stdecdsa.Verify(&std.PublicKey, hash[:], rr, ss))
			rr.SetInt64(7) // results belong to the caller
			ss.SetInt64(7)
			return out
		case "PrivateKey.Sign":
			sig, e := priv.Sign(mc.NewStream(seedv, lbl), hash[:], nil)
			if e != nil {
				return "error " + e.Error()
			}
			return fmt.Sprint(stdecdsa.VerifyASN1(&std.PublicKey, hash[:], sig))
		case "BlindPublicKeyWithContext":
			p, e := ecdsa.BlindPublicKeyWithContext(curve, pub, bk, ctx)
			if e != nil {
				return "error " + e.Error()
			}
			out := p.X.String() + "," + p.Y.String()
			p.X.SetInt64(7) // results belong to the caller
			p.Y.SetInt64(7)
			return out
		case "UnblindPublicKeyWithContext":
			p, e := ecdsa.UnblindPublicKeyWithContext(curve, blinded, bk, ctx)
			if e != nil {
				return "error " + e.Error()
			}
			out := p.X.String() + "," + p.Y.String()
			p.X.SetInt64(7)
			p.Y.SetInt64(7)
			return out
		case "BlindKeySignWithContext":
			rr, ss, e := ecdsa.BlindKeySignWithContext(mc.NewStream(seedv, lbl), priv, bk, hash[:], ctx)
			if e != nil {
				return "error " + e.Error()
			}
			return fmt.Sprint(stdecdsa.Verify(&stdecdsa.PublicKey{Curve: curve, X: blinded.X, Y: blinded.Y}, hash[:], rr, ss))
		case "PublicKey.Equal":
			return fmt.Sprint(pub.Equal(&priv.PublicKey), pub.Equal(&bk.PublicKey))
		case "PrivateKey.Equal":
			return fmt.Sprint(priv.Equal(priv), priv.Equal(bk))
		case "PrivateKey.Public":
			p, ok := priv.Public().(*ecdsa.PublicKey)
			if !ok {
				return "not a public key"
			}
			// the caller may do what it likes with the returned value
			out := p.X.String()
			if n == 0 && p.X != priv.X {
				p.X.SetInt64(7)
			}
			return out
		}
		return "unknown-op"
	}
	var first, second string
	if pn := mc.Catch(func() { first = call(0) }); pn != "" {
		return "panic", &mc.Viol{Sig: "ecdsa." + c.Op + " panics on honest arguments", What: c.Curve + ": " + pn}
	}
	for _, sn := range snaps {
		if d := sn.changed(); d != "" {
			return "argument-changed", &mc.Viol{Sig: "ecdsa." + c.Op + " changes a big integer of its arguments: " + sn.name, What: c.Curve + ": " + d}
		}
	}
	if pn := mc.Catch(func() { second = call(1) }); pn != "" {
		return "panic", &mc.Viol{Sig: "ecdsa." + c.Op + " panics when called again with the same argument objects", What: c.Curve + ": " + pn}
	}
	if first != second {
		return "second-call-differs", &mc.Viol{Sig: "ecdsa." + c.Op + ": a second call with the same argument objects gives another result", What: fmt.Sprintf("%s: first %s, second %s", c.Curve, first, second)}
	}
	for _, sn := range snaps {
		if d := sn.changed(); d != "" {
			return "argument-changed", &mc.Viol{Sig: "ecdsa." + c.Op + " changes a big integer of its arguments: " + sn.name, What: c.Curve + ": " + d}
		}
	}
	if first == "false" || len(first) > 5 && first[:5] == "error" {
		return "unexpected-result", &mc.Viol{Sig: "ecdsa." + c.Op + " fails on honest arguments", What: c.Curve + ": " + first}
	}
	return "unchanged", nil
}
