package main

import (
	"crypto/elliptic"
	"math/big"
	"sync"

	"github.com/cloudflare/circl/oprf"
	"github.com/cloudflare/pat-go/ecdsa"
	"github.com/cloudflare/pat-go/ed25519"
	"github.com/cloudflare/pat-go/quicwire"
	"github.com/cloudflare/pat-go/tokens"
	"github.com/cloudflare/pat-go/tokens/batched"
	"github.com/cloudflare/pat-go/tokens/type1"
	"github.com/cloudflare/pat-go/tokens/type2"
	"github.com/cloudflare/pat-go/tokens/type3"
	"github.com/cloudflare/pat-go/tokens/type5"
	"github.com/cloudflare/pat-go/util"

	"verif/bx"
	"verif/mc"
	"verif/px"
)

type opT struct {
	Name     string
	ArgNames []string
	Args     func() [][]byte         // fresh copies of the honest argument values
	Call     func(a [][]byte) string // performs the operation, returns a digest of everything it returned
}

var allOps []*opT // the list built for the main goroutine (names / argument lists)

// every goroutine works on its own world of objects: (A) is about caller-visible memory
// of single calls, not about sharing objects between goroutines (C17)
var perG sync.Map // goid -> []*opT

func opByName(n string) *opT {
	id := mc.Goid()
	v, ok := perG.Load(id)
	if !ok {
		v = buildOpsFor()
		perG.Store(id, v)
	}
	for _, o := range v.([]*opT) {
		if o.Name == n {
			return o
		}
	}
	return nil
}

func buildOps() {
	allOps = buildOpsFor()
	perG.Store(mc.Goid(), allOps)
}

func cp(b []byte) []byte { return append([]byte{}, b...) }

func errs(e error) []byte {
	if e == nil {
		return []byte("ok")
	}
	return []byte("err")
}

func tokBytes(t tokens.Token, e error) string {
	if e != nil {
		return digest([]byte("err"))
	}
	return digest(t.Marshal())
}

func buildOpsFor() []*opT {
	w := bx.BuildWorld(seedv)
	var ops []*opT
	add := func(name string, argNames []string, args func() [][]byte, call func(a [][]byte) string) {
		ops = append(ops, &opT{Name: name, ArgNames: argNames, Args: args, Call: call})
	}
	one := func(name string, argName string, val []byte, call func(b []byte) string) {
		add(name, []string{argName}, func() [][]byte { return [][]byte{cp(val)} }, func(a [][]byte) string { return call(a[0]) })
	}
	nonce := mc.Fill(seedv, "c16-nonce", 32)
	chal := w.Challenge

	// ---- decoders ----
	one("tokens.UnmarshalTokenChallenge", "data", w.Challenge, func(b []byte) string {
		c, e := tokens.UnmarshalTokenChallenge(b)
		if e != nil {
			return digest(errs(e))
		}
		return digest(c.Marshal())
	})
	one("type1.UnmarshalPrivateToken", "data", w.O1.Tokens[0], func(b []byte) string { return tokBytes(type1.UnmarshalPrivateToken(b)) })
	one("type2.UnmarshalToken", "data", w.O2.Tokens[0], func(b []byte) string { return tokBytes(type2.UnmarshalToken(b)) })
	one("type3.UnmarshalToken", "data", w.O3.Tokens[0], func(b []byte) string { return tokBytes(type3.UnmarshalToken(b)) })
	one("type5.UnmarshalBatchedPrivateToken", "data", w.O5.Tokens[0], func(b []byte) string { return tokBytes(type5.UnmarshalBatchedPrivateToken(b)) })
	one("type1.TokenRequest.Unmarshal", "data", w.O1.Request, func(b []byte) string {
		r := new(type1.BasicPrivateTokenRequest)
		ok := r.Unmarshal(b)
		return digest([]byte{b2(ok)}, r.Marshal())
	})
	one("type2.TokenRequest.Unmarshal", "data", w.O2.Request, func(b []byte) string {
		r := new(type2.BasicPublicTokenRequest)
		ok := r.Unmarshal(b)
		return digest([]byte{b2(ok)}, r.Marshal())
	})
	one("type3.TokenRequest.Unmarshal", "data", w.O3.Request, func(b []byte) string {
		r := new(type3.RateLimitedTokenRequest)
		ok := r.Unmarshal(b)
		return digest([]byte{b2(ok)}, r.Marshal())
	})
	one("type5.TokenRequest.Unmarshal", "data", w.O5.Request, func(b []byte) string {
		r := new(type5.BatchedPrivateTokenRequest)
		ok := r.Unmarshal(b)
		return digest([]byte{b2(ok)}, r.Marshal())
	})
	one("type3.InnerTokenRequest.Unmarshal", "data", w.Inner, func(b []byte) string {
		r := new(type3.InnerTokenRequest)
		ok := r.Unmarshal(b)
		return digest([]byte{b2(ok)}, r.Marshal())
	})
	one("type3.UnmarshalEncapKey", "data", w.W3.NameKeyWire, func(b []byte) string {
		k, e := type3.UnmarshalEncapKey(b)
		if e != nil {
			return digest(errs(e))
		}
		return digest(k.Marshal())
	})
	one("batched.TokenRequest.Unmarshal", "data", w.BatchReq, func(b []byte) string {
		r := new(batched.BatchedTokenRequest)
		ok := r.Unmarshal(b)
		if !ok {
			return digest([]byte{0})
		}
		return digest([]byte{1}, r.Marshal())
	})
	one("batched.UnmarshalBatchedTokenResponses", "data", w.BatchResp, func(b []byte) string {
		es, e := batched.UnmarshalBatchedTokenResponses(b)
		if e != nil {
			return digest(errs(e))
		}
		return digest(es...)
	})
	one("util.UnmarshalTokenKey", "data", w.SPKI, func(b []byte) string {
		k, e := util.UnmarshalTokenKey(b)
		if e != nil {
			return digest(errs(e))
		}
		return digest(k.N.Bytes(), big.NewInt(int64(k.E)).Bytes())
	})
	one("quicwire.Consume*", "b", quicwire.AppendVarintBytes(nil, w.Challenge), func(b []byte) string {
		v, n1 := quicwire.ConsumeVarint(b)
		x, n2 := quicwire.ConsumeVarintBytes(b)
		y, n3 := quicwire.ConsumeUint8Bytes(b)
		return digest(big.NewInt(int64(v)).Bytes(), []byte{byte(n1), byte(n2), byte(n3)}, x, y)
	})

	// ---- token helpers ----
	add("tokens.Token.Marshal", []string{"nonce", "context", "keyID", "authenticator"}, func() [][]byte {
		t, _ := type1.UnmarshalPrivateToken(w.O1.Tokens[0])
		return [][]byte{cp(t.Nonce), cp(t.Context), cp(t.KeyID), cp(t.Authenticator)}
	}, func(a [][]byte) string {
		t := tokens.Token{TokenType: 1, Nonce: a[0], Context: a[1], KeyID: a[2], Authenticator: a[3]}
		return digest(t.AuthenticatorInput(), t.Marshal())
	})
	add("type1.Issuer.Verify", []string{"nonce", "context", "keyID", "authenticator"}, func() [][]byte {
		t, _ := type1.UnmarshalPrivateToken(w.O1.Tokens[0])
		return [][]byte{cp(t.Nonce), cp(t.Context), cp(t.KeyID), cp(t.Authenticator)}
	}, func(a [][]byte) string {
		return digest(errs(w.W1.Issuer.Verify(tokens.Token{TokenType: 1, Nonce: a[0], Context: a[1], KeyID: a[2], Authenticator: a[3]})))
	})
	add("type5.Issuer.Verify", []string{"nonce", "context", "keyID", "authenticator"}, func() [][]byte {
		t, _ := type5.UnmarshalBatchedPrivateToken(w.O5.Tokens[0])
		return [][]byte{cp(t.Nonce), cp(t.Context), cp(t.KeyID), cp(t.Authenticator)}
	}, func(a [][]byte) string {
		return digest(errs(w.W5.Issuer.Verify(tokens.Token{TokenType: 5, Nonce: a[0], Context: a[1], KeyID: a[2], Authenticator: a[3]})))
	})

	// single-argument forms (the other fields honest), so that every truncation of the field with its
	// genuine tail lying behind it is tried (A2)
	{
		t1, _ := type1.UnmarshalPrivateToken(w.O1.Tokens[0])
		t5, _ := type5.UnmarshalBatchedPrivateToken(w.O5.Tokens[0])
		one("type1.Issuer.Verify(authenticator)", "authenticator", t1.Authenticator, func(b []byte) string {
			return digest(errs(w.W1.Issuer.Verify(tokens.Token{TokenType: 1, Nonce: cp(t1.Nonce), Context: cp(t1.Context), KeyID: cp(t1.KeyID), Authenticator: b})))
		})
		one("type5.Issuer.Verify(authenticator)", "authenticator", t5.Authenticator, func(b []byte) string {
			return digest(errs(w.W5.Issuer.Verify(tokens.Token{TokenType: 5, Nonce: cp(t5.Nonce), Context: cp(t5.Context), KeyID: cp(t5.KeyID), Authenticator: b})))
		})
		one("type1.Issuer.Verify(key id)", "keyID", t1.KeyID, func(b []byte) string {
			return digest(errs(w.W1.Issuer.Verify(tokens.Token{TokenType: 1, Nonce: cp(t1.Nonce), Context: cp(t1.Context), KeyID: b, Authenticator: cp(t1.Authenticator)})))
		})
		one("type5.Issuer.Verify(nonce)", "nonce", t5.Nonce, func(b []byte) string {
			return digest(errs(w.W5.Issuer.Verify(tokens.Token{TokenType: 5, Nonce: b, Context: cp(t5.Context), KeyID: cp(t5.KeyID), Authenticator: cp(t5.Authenticator)})))
		})
	}

	// ---- request creation ----
	p384blind := make([]byte, 48)
	copy(p384blind[1:], mc.Fill(seedv, "c16-blind", 47))
	add("type1.CreateTokenRequest", []string{"challenge", "nonce", "tokenKeyID"}, func() [][]byte { return [][]byte{cp(chal), cp(nonce), cp(w.W1.KeyID)} }, func(a [][]byte) string {
		st, e := type1.NewBasicPrivateClient().CreateTokenRequest(a[0], a[1], a[2], w.W1.ClientPub())
		if e != nil {
			return digest(errs(e))
		}
		return digest(st.Request().Marshal())
	})
	add("type1.CreateTokenRequestWithBlind", []string{"challenge", "nonce", "tokenKeyID", "blind"}, func() [][]byte { return [][]byte{cp(chal), cp(nonce), cp(w.W1.KeyID), cp(p384blind)} }, func(a [][]byte) string {
		st, e := type1.NewBasicPrivateClient().CreateTokenRequestWithBlind(a[0], a[1], a[2], w.W1.ClientPub(), a[3])
		if e != nil {
			return digest(errs(e))
		}
		return digest(st.Request().Marshal())
	})
	add("type2.CreateTokenRequest", []string{"challenge", "nonce", "tokenKeyID"}, func() [][]byte { return [][]byte{cp(chal), cp(nonce), cp(w.W2.KeyID)} }, func(a [][]byte) string {
		st, e := type2.NewBasicPublicClient().CreateTokenRequest(a[0], a[1], a[2], w.W2.ClientPub())
		if e != nil {
			return digest(errs(e))
		}
		return digest(st.Request().Marshal())
	})
	add("type2.CreateTokenRequestWithBlind", []string{"challenge", "nonce", "tokenKeyID", "blind", "salt"}, func() [][]byte {
		return [][]byte{cp(chal), cp(nonce), cp(w.W2.KeyID), mc.Fill(seedv, "c16-rsablind", 255), mc.Fill(seedv, "c16-salt", 48)}
	}, func(a [][]byte) string {
		st, e := type2.NewBasicPublicClient().CreateTokenRequestWithBlind(a[0], a[1], a[2], w.W2.ClientPub(), a[3], a[4])
		if e != nil {
			return digest(errs(e))
		}
		tok, e2 := st.FinalizeToken(mustEval2(w, st))
		return digest(st.Request().Marshal(), []byte(tokBytes(tok, e2)))
	})
	rb := func(i int) []byte {
		s := w.W5.Issuer // any ristretto scalar: derive from DRBG through the group
		_ = s
		b, _ := oprf.SuiteRistretto255.Group().HashToScalar(mc.Fill(seedv, "c16-rb", 16+i), []byte("c16")).MarshalBinary()
		return b
	}
	add("type5.CreateTokenRequest", []string{"challenge", "nonce[0]", "nonce[1]", "tokenKeyID"}, func() [][]byte {
		return [][]byte{cp(chal), cp(nonce), mc.Fill(seedv, "c16-nonce2", 32), cp(w.W5.KeyID)}
	}, func(a [][]byte) string {
		st, e := type5.NewBatchedPrivateClient().CreateTokenRequest(a[0], [][]byte{a[1], a[2]}, a[3], w.W5.ClientPub())
		if e != nil {
			return digest(errs(e))
		}
		return digest(st.Request().Marshal())
	})
	add("type5.CreateTokenRequestWithBlinds", []string{"challenge", "nonce[0]", "nonce[1]", "tokenKeyID", "blind[0]", "blind[1]"}, func() [][]byte {
		return [][]byte{cp(chal), cp(nonce), mc.Fill(seedv, "c16-nonce2", 32), cp(w.W5.KeyID), rb(0), rb(1)}
	}, func(a [][]byte) string {
		st, e := type5.NewBatchedPrivateClient().CreateTokenRequestWithBlinds(a[0], [][]byte{a[1], a[2]}, a[3], w.W5.ClientPub(), [][]byte{a[4], a[5]})
		if e != nil {
			return digest(errs(e))
		}
		return digest(st.Request().Marshal())
	})
	nk, _ := w.W3.ClientNameKey()
	add("type3.NewClient+CreateTokenRequest", []string{"secret", "challenge", "nonce", "blindKeyEnc", "tokenKeyID"}, func() [][]byte {
		return [][]byte{cp(w.A3.Secret), cp(chal), cp(nonce), cp(w.A3.Blind), cp(w.W3.KeyID)}
	}, func(a [][]byte) string {
		c := type3.NewRateLimitedClientFromSecret(a[0])
		st, e := c.CreateTokenRequest(a[1], a[2], a[3], a[4], w.W3.ClientPub(), "origin.example", nk)
		if e != nil {
			return digest(errs(e))
		}
		return digest(st.Request().Marshal(), st.ClientKey())
	})
	one("type3.CreatePrivateEncapKeyFromSeed", "seed", mc.Fill(seedv, "c16-seed", 32), func(b []byte) string {
		k, e := type3.CreatePrivateEncapKeyFromSeed(b)
		if e != nil {
			return digest(errs(e))
		}
		return digest(k.Public().Marshal())
	})

	// ---- finalization ----
	one("type1.FinalizeToken", "response", mustResp1(w), func(b []byte) string { return tokBytes(w.St1.FinalizeToken(b)) })
	one("type2.FinalizeToken", "response", mustEval2(w, w.St2), func(b []byte) string { return tokBytes(w.St2.FinalizeToken(b)) })
	one("type3.FinalizeToken", "response", mustResp3(w), func(b []byte) string { return tokBytes(w.St3.FinalizeToken(b)) })
	one("type5.FinalizeTokens", "response", mustResp5(w), func(b []byte) string {
		ts, e := w.St5.FinalizeTokens(b)
		if e != nil {
			return digest(errs(e))
		}
		var parts [][]byte
		for _, t := range ts {
			parts = append(parts, t.Marshal())
		}
		return digest(parts...)
	})

	// ---- issuers ----
	add("type1.Issuer.Evaluate", []string{"request.BlindedReq"}, func() [][]byte { return [][]byte{cp(w.O1.Request[3:])} }, func(a [][]byte) string {
		out, e := w.W1.Issuer.Evaluate(&type1.BasicPrivateTokenRequest{TokenKeyID: w.O1.Request[2], BlindedReq: a[0]})
		return digest(out, errs(e))
	})
	add("type2.Issuer.Evaluate", []string{"request.BlindedReq"}, func() [][]byte { return [][]byte{cp(w.O2.Request[3:])} }, func(a [][]byte) string {
		out, e := w.W2.Issuer.Evaluate(&type2.BasicPublicTokenRequest{TokenKeyID: w.O2.Request[2], BlindedReq: a[0]})
		return digest(out, errs(e))
	})
	add("type5.Issuer.Evaluate", []string{"request.BlindedReq[0]", "request.BlindedReq[1]"}, func() [][]byte {
		r := new(type5.BatchedPrivateTokenRequest)
		r.Unmarshal(w.O5.Request)
		return [][]byte{cp(r.BlindedReq[0]), cp(r.BlindedReq[1])}
	}, func(a [][]byte) string {
		out, e := w.W5.Issuer.Evaluate(&type5.BatchedPrivateTokenRequest{TokenKeyID: w.O5.Request[2], BlindedReq: [][]byte{a[0], a[1]}})
		return digest(out, errs(e))
	})
	one("type3.Issuer.Evaluate", "encodedRequest", w.O3.Request, func(b []byte) string {
		resp, k, e := w.W3.Issuer.Evaluate(b)
		return digest(resp, k, errs(e))
	})

	// ---- attester ----
	add("type3.Attester.VerifyRequest", []string{"request.RequestKey", "request.NameKeyID", "request.EncryptedTokenRequest", "request.Signature", "blindKeyEnc", "clientKeyEnc", "anonymousOrigin"}, func() [][]byte {
		return [][]byte{cp(w.Req3.RequestKey), cp(w.Req3.NameKeyID), cp(w.Req3.EncryptedTokenRequest), cp(w.Req3.Signature), cp(w.A3.Blind), cp(w.O3.ClientKey), cp(w.A3.AnonOrigin)}
	}, func(a [][]byte) string {
		att := type3.NewRateLimitedAttester(px.NewMemCache())
		e := att.VerifyRequest(type3.RateLimitedTokenRequest{RequestKey: a[0], NameKeyID: a[1], EncryptedTokenRequest: a[2], Signature: a[3]}, a[4], a[5], a[6])
		return digest(errs(e))
	})
	add("type3.Attester.FinalizeIndex", []string{"clientKey", "blindEnc", "blindedRequestKeyEnc", "anonOriginId"}, func() [][]byte {
		return [][]byte{cp(w.O3.ClientKey), cp(w.A3.Blind), cp(w.O3.BlindedReqKey), cp(w.A3.AnonOrigin)}
	}, func(a [][]byte) string {
		att := type3.NewRateLimitedAttester(px.NewMemCache())
		att.VerifyRequest(w.Req3, w.A3.Blind, w.O3.ClientKey, w.A3.AnonOrigin)
		idx, e := att.FinalizeIndex(a[0], a[1], a[2], a[3])
		return digest(idx, errs(e))
	})

	// ---- ecdsa ----
	curve := elliptic.P384()
	hash := w.EcDigest
	add("ecdsa.CreateKey+Sign+Verify", []string{"privateKeyBytes", "hash"}, func() [][]byte { return [][]byte{mc.Fill(seedv, "c16-eck", 48), cp(hash)} }, func(a [][]byte) string {
		k, e := ecdsa.CreateKey(curve, a[0])
		if e != nil {
			return digest(errs(e))
		}
		r, s, e := ecdsa.Sign(mc.NewStream(seedv, "c16-sign"), k, a[1])
		if e != nil {
			return digest(errs(e))
		}
		ok := ecdsa.Verify(&k.PublicKey, a[1], r, s)
		return digest(r.Bytes(), s.Bytes(), []byte{b2(ok)})
	})
	add("ecdsa.SignASN1+VerifyASN1", []string{"hash"}, func() [][]byte { return [][]byte{cp(hash)} }, func(a [][]byte) string {
		sig, e := ecdsa.SignASN1(mc.NewStream(seedv, "c16-sign2"), w.EcKey, a[0])
		if e != nil {
			return digest(errs(e))
		}
		return digest(sig, []byte{b2(ecdsa.VerifyASN1(&w.EcKey.PublicKey, a[0], sig))})
	})
	add("ecdsa.VerifyASN1", []string{"hash", "sig"}, func() [][]byte { return [][]byte{cp(hash), cp(w.EcSig)} }, func(a [][]byte) string {
		return digest([]byte{b2(ecdsa.VerifyASN1(&w.EcKey.PublicKey, a[0], a[1]))})
	})
	add("ecdsa.BlindPublicKeyWithContext+Unblind", []string{"blindKeyBytes", "context"}, func() [][]byte { return [][]byte{cp(w.A3.Blind), []byte("a context")} }, func(a [][]byte) string {
		bk, _ := ecdsa.CreateKey(curve, a[0])
		p, e := ecdsa.BlindPublicKeyWithContext(curve, &w.EcKey.PublicKey, bk, a[1])
		if e != nil {
			return digest(errs(e))
		}
		u, e := ecdsa.UnblindPublicKeyWithContext(curve, p, bk, a[1])
		if e != nil {
			return digest(errs(e))
		}
		return digest(p.X.Bytes(), p.Y.Bytes(), u.X.Bytes())
	})
	add("ecdsa.BlindKeySignWithContext", []string{"blindKeyBytes", "hash", "context"}, func() [][]byte { return [][]byte{cp(w.A3.Blind), cp(hash), []byte("a context")} }, func(a [][]byte) string {
		bk, _ := ecdsa.CreateKey(curve, a[0])
		r, s, e := ecdsa.BlindKeySignWithContext(mc.NewStream(seedv, "c16-bks"), w.EcKey, bk, a[1], a[2])
		if e != nil {
			return digest(errs(e))
		}
		return digest(r.Bytes(), s.Bytes())
	})

	// ---- ed25519 ----
	edSeed := mc.Fill(seedv, "edseed", 32)
	edPriv := ed25519.NewKeyFromSeed(edSeed)
	blind32 := mc.Fill(seedv, "c16-edblind", 32)
	one("ed25519.NewKeyFromSeed", "seed", edSeed, func(b []byte) string { return digest(ed25519.NewKeyFromSeed(b)) })
	add("ed25519.Sign", []string{"privateKey", "message"}, func() [][]byte { return [][]byte{cp(edPriv), cp(w.EdMsg)} }, func(a [][]byte) string {
		return digest(ed25519.Sign(ed25519.PrivateKey(a[0]), a[1]))
	})
	add("ed25519.Verify", []string{"publicKey", "message", "sig"}, func() [][]byte { return [][]byte{cp(w.EdPub), cp(w.EdMsg), cp(w.EdSig)} }, func(a [][]byte) string {
		return digest([]byte{b2(ed25519.Verify(ed25519.PublicKey(a[0]), a[1], a[2]))})
	})
	add("ed25519.BlindPublicKeyWithContext", []string{"publicKey", "blind", "context"}, func() [][]byte { return [][]byte{cp(w.EdPub), cp(blind32), []byte("ctx")} }, func(a [][]byte) string {
		k, e := ed25519.BlindPublicKeyWithContext(ed25519.PublicKey(a[0]), a[1], a[2])
		return digest(k, errs(e))
	})
	add("ed25519.BlindPublicKey", []string{"publicKey", "blind"}, func() [][]byte { return [][]byte{cp(w.EdPub), cp(blind32)} }, func(a [][]byte) string {
		k, e := ed25519.BlindPublicKey(ed25519.PublicKey(a[0]), a[1])
		return digest(k, errs(e))
	})
	add("ed25519.UnblindPublicKeyWithContext", []string{"publicKey", "blind", "context"}, func() [][]byte {
		bk, _ := ed25519.BlindPublicKeyWithContext(w.EdPub, exact(blind32), []byte("ctx"))
		return [][]byte{cp(bk), cp(blind32), []byte("ctx")}
	}, func(a [][]byte) string {
		k, e := ed25519.UnblindPublicKeyWithContext(ed25519.PublicKey(a[0]), a[1], a[2])
		return digest(k, errs(e))
	})
	add("ed25519.UnblindPublicKey", []string{"publicKey", "blind"}, func() [][]byte {
		bk, _ := ed25519.BlindPublicKey(w.EdPub, exact(blind32))
		return [][]byte{cp(bk), cp(blind32)}
	}, func(a [][]byte) string {
		k, e := ed25519.UnblindPublicKey(ed25519.PublicKey(a[0]), a[1])
		return digest(k, errs(e))
	})
	add("ed25519.BlindKeySignWithContext", []string{"privateKey", "message", "blind", "context"}, func() [][]byte { return [][]byte{cp(edPriv), cp(w.EdMsg), cp(blind32), []byte("ctx")} }, func(a [][]byte) string {
		return digest(ed25519.BlindKeySignWithContext(ed25519.PrivateKey(a[0]), a[1], a[2], a[3]))
	})
	add("ed25519.BlindKeySign", []string{"privateKey", "message", "blind"}, func() [][]byte { return [][]byte{cp(edPriv), cp(w.EdMsg), cp(blind32)} }, func(a [][]byte) string {
		return digest(ed25519.BlindKeySign(ed25519.PrivateKey(a[0]), a[1], a[2]))
	})
	return ops
}

func b2(b bool) byte {
	if b {
		return 1
	}
	return 0
}

// honest responses for the live states of the world (the states were created for finalize targets)
func mustResp1(w *bx.World) []byte {
	mc.Entropy("c16-resp1")
	r, se := w.W1.EvaluateWire(w.St1.Request().Marshal())
	if se != nil {
		panic(se)
	}
	return r
}
func mustEval2(w *bx.World, st type2.BasicPublicTokenRequestState) []byte {
	r, se := w.W2.EvaluateWire(st.Request().Marshal())
	if se != nil {
		panic(se)
	}
	return r
}
func mustResp3(w *bx.World) []byte {
	mc.Entropy("c16-resp3")
	r, _, err := w.W3.Issuer.Evaluate(cp(w.St3.Request().Marshal()))
	if err != nil {
		panic(err)
	}
	return r
}
func mustResp5(w *bx.World) []byte {
	mc.Entropy("c16-resp5")
	r, se := w.W5.EvaluateWire(w.St5.Request().Marshal())
	if se != nil {
		panic(se)
	}
	return r
}
