// C09: attester origin bookkeeping stays one-to-one over every request history.
//
// Breadth-first search to a fix-point (mc.Seq with Canon + Clone) over the REAL
// RateLimitedAttester on a px.MemCache whose ClientState values are deep-copied with the
// verif hook VerifClone. Alphabet: clients {A,B} (quick {A}) plus a never-verified client U;
// origins {o1,o2,o3} where o1 and o2 share an index key (they collide on the anonymous issuer
// origin ID) and o3 has its own; anonymous origin IDs {x,y}. Events: Verify(c) honest,
// VerifyBadSig(c) (corrupted signature), VerifyWrongBlind(c) (blind that does not match the
// request key), Finalize(c,o,a). All byte arguments are precomputed once; a transition is one
// attester call. The model (registered?, issuer-ID -> anon-ID per client) is stepped alongside.
package main

import (
	"bytes"
	stdecdsa "crypto/ecdsa"
	"crypto/elliptic"
	"crypto/sha512"
	"encoding/hex"
	"encoding/json"
	"fmt"
	"math/big"
	"sort"
	"strings"
	"sync"

	"github.com/cloudflare/pat-go/ecdsa"
	"github.com/cloudflare/pat-go/tokens/type3"

	"verif/mc"
	"verif/px"
)

const (
	cA = 0
	cB = 1
	cU = 2
)

var (
	clientName = []string{"A", "B", "U"}
	anonName   = []string{"x", "y", "empty"}
	seedBase   int64
)

type Op struct {
	K string `json:"op"` // verify | verify-bad-sig | verify-wrong-blind | finalize
	C int    `json:"client"`
	O int    `json:"origin"`
	A int    `json:"anon"`
}

func (o Op) label() string {
	if o.K == "finalize" {
		return fmt.Sprintf("finalize(%s,o%d,%s)", clientName[o.C], o.O+1, anonName[o.A])
	}
	return fmt.Sprintf("%s(%s)", o.K, clientName[o.C])
}

// ---- fixture: every byte argument of every event, computed once ----

type clientFx struct {
	secret, pub []byte
	blind       [3][]byte
	req         [3]type3.RateLimitedTokenRequest
	brk         [3][]byte // blinded request key returned by issuer.Evaluate
	refID       [3]string // reference issuer origin ID per origin (raw bytes as string); o1 == o2 != o3
}

type fixture struct {
	cl   [3]clientFx
	anon [3][]byte // x, y and the zero-length id
	err  string
}

var (
	fxOnce sync.Once
	fx     *fixture
)

func scalarN() *big.Int    { return elliptic.P384().Params().N }
func sc(v *big.Int) []byte { return v.FillBytes(make([]byte, 48)) }
func scDRBG(l string) []byte {
	v := new(big.Int).SetBytes(mc.Fill(seedBase, "sc-"+l, 56))
	v.Mod(v, new(big.Int).Sub(scalarN(), big.NewInt(1)))
	v.Add(v, big.NewInt(1))
	return sc(v)
}
func scLeadingZero(l string) []byte {
	out := make([]byte, 48)
	copy(out[1:], mc.Fill(seedBase, "lz-"+l, 47))
	if out[1] == 0 {
		out[1] = 0x5a
	}
	return out
}

func originName(o int) string { return fmt.Sprintf("o%d.example", o+1) }

// sigValid checks the request signature with the standard library only.
func sigValid(req *type3.RateLimitedTokenRequest) bool {
	c := elliptic.P384()
	x, y := elliptic.UnmarshalCompressed(c, req.RequestKey)
	if x == nil || len(req.Signature) != 96 {
		return false
	}
	msg := []byte{0x00, 0x03}
	msg = append(msg, req.RequestKey...)
	msg = append(msg, req.NameKeyID...)
	msg = append(msg, byte(len(req.EncryptedTokenRequest)>>8), byte(len(req.EncryptedTokenRequest)))
	msg = append(msg, req.EncryptedTokenRequest...)
	d := sha512.Sum384(msg)
	return stdecdsa.Verify(&stdecdsa.PublicKey{Curve: c, X: x, Y: y}, d[:],
		new(big.Int).SetBytes(req.Signature[:48]), new(big.Int).SetBytes(req.Signature[48:]))
}

func buildFixture() *fixture {
	f := &fixture{}
	fail := func(format string, a ...any) *fixture { f.err = fmt.Sprintf(format, a...); return f }
	mc.Entropy("c09-fixture")
	w := px.NewW3(0)
	keys := [3][]byte{scDRBG("k12"), nil, scLeadingZero("k3")}
	keys[1] = keys[0]
	for o := 0; o < 3; o++ {
		k, err := ecdsa.CreateKey(elliptic.P384(), append([]byte{}, keys[o]...))
		if err != nil {
			return fail("CreateKey: %v", err)
		}
		if err := w.Issuer.AddOriginWithIndexKey(originName(o), k); err != nil {
			return fail("AddOriginWithIndexKey: %v", err)
		}
	}
	f.anon = [3][]byte{mc.Fill(seedBase, "anon-x", 32), mc.Fill(seedBase, "anon-y", 49), {}} // y is longer than an index
	// U, the client for which no request is ever verified, is -A: its public key has A's x
	// coordinate and the other sign octet (an unrelated unverified client is B in every history
	// of the two-client search that has not verified B yet)
	secA := scDRBG("client-A")
	secrets := [3][]byte{secA, scLeadingZero("client-B"), sc(new(big.Int).Sub(scalarN(), new(big.Int).SetBytes(secA)))}
	for c := 0; c < 3; c++ {
		cf := &f.cl[c]
		cf.secret = secrets[c]
		cf.pub = p384Pub(cf.secret)
		// request blinds: a random scalar, 2^384-1 (a byte string above the group order: the blind is hashed,
		// not used as a scalar) and a scalar with a leading zero byte
		cf.blind = [3][]byte{scDRBG(fmt.Sprintf("blind-%d", c)), bytes.Repeat([]byte{0xff}, 48), scLeadingZero(fmt.Sprintf("blind-%d", c))}
		for o := 0; o < 3; o++ {
			st, err := w.Create(px.T3Args{Secret: cf.secret, Blind: cf.blind[o], Challenge: mc.Fill(seedBase, "chal", 32),
				Nonce: mc.Fill(seedBase, fmt.Sprintf("nonce-%d-%d", c, o), 32), Origin: originName(o)})
			if err != nil {
				return fail("client create: %v", err)
			}
			if !bytes.Equal(st.ClientKey(), cf.pub) {
				return fail("client key of %s is not secret*G", clientName[c])
			}
			wire := append([]byte{}, st.Request().Marshal()...)
			if !cf.req[o].Unmarshal(wire) {
				return fail("request does not decode")
			}
			_, brk, err := w.Issuer.Evaluate(append([]byte{}, wire...))
			if err != nil {
				return fail("issuer evaluate: %v", err)
			}
			cf.brk[o] = append([]byte{}, brk...)
			id, _, err := refIssuerOriginID(cf.pub, new(big.Int).SetBytes(keys[o]))
			if err != nil {
				return fail("reference: %v", err)
			}
			cf.refID[o] = string(id)
			if !sigValid(&cf.req[o]) {
				return fail("honest request signature does not verify under crypto/ecdsa")
			}
		}
		if cf.refID[0] != cf.refID[1] || cf.refID[0] == cf.refID[2] {
			return fail("reference IDs do not have the designed collision pattern")
		}
		bad := badSig(cf.req[0])
		if sigValid(&bad) {
			return fail("corrupted signature still verifies")
		}
	}
	return f
}

func cloneReq(r type3.RateLimitedTokenRequest) type3.RateLimitedTokenRequest {
	return type3.RateLimitedTokenRequest{
		RequestKey:            append([]byte{}, r.RequestKey...),
		NameKeyID:             append([]byte{}, r.NameKeyID...),
		EncryptedTokenRequest: append([]byte{}, r.EncryptedTokenRequest...),
		Signature:             append([]byte{}, r.Signature...),
	}
}

func badSig(r type3.RateLimitedTokenRequest) type3.RateLimitedTokenRequest {
	b := cloneReq(r)
	b.Signature[95] ^= 0x01
	return b
}

func cp(b []byte) []byte { return append([]byte{}, b...) }

// ---- state = real cache + model ----

type model struct {
	reg  [3]bool
	key  [3]string            // cache key under which the implementation registered the client (learned)
	bind [3]map[string]string // issuer origin ID (raw) -> anonymous origin ID (raw)
}

type State struct {
	cache *px.MemCache
	m     model
	att   *type3.RateLimitedAttester // non-nil in the history search: ONE attester object lives through the whole history
}

func initState() *State {
	fxOnce.Do(func() { fx = buildFixture() })
	s := &State{cache: px.NewMemCache()}
	for c := range s.m.bind {
		s.m.bind[c] = map[string]string{}
	}
	return s
}

func cloneState(s *State) *State {
	n := &State{cache: px.NewMemCache(), m: s.m}
	n.cache.Puts = s.cache.Puts
	for k, v := range s.cache.M {
		n.cache.M[k] = v.VerifClone()
	}
	for c := range s.m.bind {
		n.m.bind[c] = make(map[string]string, len(s.m.bind[c]))
		for k, v := range s.m.bind[c] {
			n.m.bind[c][k] = v
		}
	}
	return n
}

func dumpMap(m map[string]string) string {
	ks := make([]string, 0, len(m))
	for k := range m {
		ks = append(ks, k)
	}
	sort.Strings(ks)
	var sb strings.Builder
	for _, k := range ks {
		sb.WriteString(k + ">" + m[k] + ",")
	}
	return sb.String()
}

func dumpState(st *type3.ClientState) string {
	oi, ci, oc := st.VerifDump()
	ks := make([]string, 0, len(oc))
	for k := range oc {
		ks = append(ks, k)
	}
	sort.Strings(ks)
	cnt := ""
	for _, k := range ks {
		cnt += fmt.Sprintf("%s=%d,", k, oc[k])
	}
	return "O{" + dumpMap(oi) + "}C{" + dumpMap(ci) + "}N{" + cnt + "}"
}

func canon(s *State) string {
	ks := make([]string, 0, len(s.cache.M))
	for k := range s.cache.M {
		ks = append(ks, k)
	}
	sort.Strings(ks)
	var sb strings.Builder
	sb.WriteString(fmt.Sprintf("cache[%d]", len(ks))) // never empty: mc.Seq reads "" as "do not merge"
	for _, k := range ks {
		sb.WriteString(k + ":" + dumpState(s.cache.M[k]) + ";")
	}
	return sb.String()
}

// raw undoes a hex encoding of a map key/value if there is one.
func raw(s string) string {
	if b, err := hex.DecodeString(s); err == nil && len(s) > 0 {
		return string(b)
	}
	return s
}

func short(m map[string]string) string {
	ks := make([]string, 0, len(m))
	for k := range m {
		ks = append(ks, k)
	}
	sort.Strings(ks)
	out := "{"
	for _, k := range ks {
		out += fmt.Sprintf("%.8x..->%.4x.. ", k, m[k])
	}
	return out + "}"
}

// conform compares the implementation's per-client accepted bindings with the model's.
func conform(s *State, after string) *mc.Viol {
	n := 0
	for c := 0; c < 3; c++ {
		if !s.m.reg[c] {
			continue
		}
		n++
		st, ok := s.cache.M[s.m.key[c]]
		if !ok || st == nil {
			return &mc.Viol{Sig: "state of a verified client disappeared " + after, What: "client " + clientName[c]}
		}
		_, ci, _ := st.VerifDump()
		got := map[string]string{}
		for k, v := range ci {
			got[raw(k)] = raw(v)
		}
		if dumpMap(got) != dumpMap(s.m.bind[c]) {
			return &mc.Viol{Sig: "accepted bindings (clientIndices) differ from the model " + after,
				What: fmt.Sprintf("client %s: implementation %s, model %s", clientName[c], short(got), short(s.m.bind[c]))}
		}
	}
	if len(s.cache.M) != n {
		return &mc.Viol{Sig: "cache holds state for a client that was never verified " + after,
			What: fmt.Sprintf("%d cached states, %d verified clients", len(s.cache.M), n)}
	}
	return nil
}

func apply(s *State, op Op) (obs string, v *mc.Viol) {
	pn := mc.CatchStack(func() { obs, v = applyInner(s, op) })
	if pn != "" {
		return "panic", &mc.Viol{Sig: "attester panics in " + op.K + ": " + trunc(pn, 60), What: op.label() + ": " + pn}
	}
	return obs, v
}

func applyInner(s *State, op Op) (string, *mc.Viol) {
	if fx.err != "" || op.C < 0 || op.C > 2 || op.O < 0 || op.O > 2 || op.A < 0 || op.A > 2 {
		return "harness-bad-op", nil
	}
	cf := &fx.cl[op.C]
	att := s.att
	if att == nil {
		att = type3.NewRateLimitedAttester(s.cache) // state-merging searches: the state is the cache
	}
	before := canon(s)
	putsBefore := s.cache.Puts
	keysBefore := map[string]bool{}
	for k := range s.cache.M {
		keysBefore[k] = true
	}
	switch op.K {
	case "verify":
		err := att.VerifyRequest(cloneReq(cf.req[0]), cp(cf.blind[0]), cp(cf.pub), cp(fx.anon[0]))
		if err != nil {
			return "verify:error", &mc.Viol{Sig: "honest VerifyRequest is rejected", What: op.label() + ": " + err.Error()}
		}
		obs := "verify:already-registered"
		if !s.m.reg[op.C] {
			obs = "verify:registers"
			var added []string
			for k := range s.cache.M {
				if !keysBefore[k] {
					added = append(added, k)
				}
			}
			if len(added) != 1 {
				return obs, &mc.Viol{Sig: "honest VerifyRequest does not register exactly one client state",
					What: fmt.Sprintf("%s: %d new cache entries", op.label(), len(added))}
			}
			s.m.reg[op.C], s.m.key[op.C] = true, added[0]
		}
		return obs, conform(s, "after an honest VerifyRequest")
	case "verify-bad-sig", "verify-wrong-blind":
		req, bl := badSig(cf.req[0]), cp(cf.blind[0])
		if op.K == "verify-wrong-blind" {
			req, bl = cloneReq(cf.req[0]), cp(cf.blind[1])
		}
		_ = att.VerifyRequest(req, bl, cp(cf.pub), cp(fx.anon[0])) // the verdict is property C06's business
		if s.cache.Puts != putsBefore || canon(s) != before {
			return op.K + ":registers", &mc.Viol{Sig: "VerifyRequest touches the client state cache for a request it did not verify (" + op.K + ")",
				What: fmt.Sprintf("%s: puts %d -> %d, cache before %q after %q", op.label(), putsBefore, s.cache.Puts, trunc(before, 200), trunc(canon(s), 200))}
		}
		return op.K + ":no-registration", conform(s, "after a refused VerifyRequest")
	case "finalize":
		idx, err := att.FinalizeIndex(cp(cf.pub), cp(cf.blind[op.O]), cp(cf.brk[op.O]), cp(fx.anon[op.A]))
		iid, anon := cf.refID[op.O], string(fx.anon[op.A])
		bound, isBound := s.m.bind[op.C][iid]
		var class string
		switch {
		case !s.m.reg[op.C]:
			class = "reject-unverified-client"
		case !isBound:
			class = "accept-new-binding"
		case bound == anon:
			class = "accept-repeat"
		default:
			class = "reject-second-anon-id"
		}
		want := strings.HasPrefix(class, "accept")
		obs := "finalize:" + class
		if (err == nil) != want {
			sig := map[string]string{
				"reject-unverified-client": "FinalizeIndex accepts a client for which no request was verified",
				"accept-new-binding":       "FinalizeIndex rejects a pair whose issuer origin ID is still unbound",
				"accept-repeat":            "FinalizeIndex rejects a repeat of an accepted pair",
				"reject-second-anon-id":    "FinalizeIndex accepts a second anonymous origin ID for a bound issuer origin ID",
			}[class]
			return obs + ":MISMATCH", &mc.Viol{Sig: sig, What: fmt.Sprintf("%s: implementation error=%v, model %s", op.label(), err, class)}
		}
		if want {
			s.m.bind[op.C][iid] = anon
			if string(idx) != iid {
				return obs, &mc.Viol{Sig: "FinalizeIndex returns an ID that is not the reference ID of (client, origin index key)",
					What: fmt.Sprintf("%s: got %x want %x", op.label(), idx, iid)}
			}
		}
		if len(s.cache.M) != len(keysBefore) {
			return obs, &mc.Viol{Sig: "FinalizeIndex changes the set of registered clients", What: op.label()}
		}
		if want {
			return obs, conform(s, "after an accepted FinalizeIndex")
		}
		return obs, conform(s, "after a rejected FinalizeIndex")
	}
	return "harness-bad-op", nil
}

// ---- (4) many origins: one client binds K distinct issuer origin IDs, then repeats ----
//
// The depth-bounded searches see a handful of bindings per client. Here ONE client (one attester
// object, one cache) goes through a single long history: K origins with K distinct index keys,
// each accepted once under its own anonymous id, then every pair repeated (accepted), then every
// origin offered under the next origin's anonymous id (refused), then the repeats again; the
// bindings dumped from the implementation must equal the model after every step. The blinded
// request keys are computed by the reference (f_k * request key), no issuer is involved.

type manyP struct {
	K int `json:"origins"`
}

func manyOrigins(p manyP) (int, *mc.Viol) {
	initState()
	if fx.err != "" {
		return 0, nil
	}
	cf := &fx.cl[cA]
	s := initState()
	s.att = type3.NewRateLimitedAttester(s.cache)
	if _, v := apply(s, Op{K: "verify", C: cA}); v != nil {
		return 0, v
	}
	type org struct {
		brk  []byte
		id   string
		anon []byte
	}
	os := make([]org, p.K)
	for k := range os {
		ik := new(big.Int).SetBytes(mc.Fill(seedBase, fmt.Sprintf("c09-many-indexkey-%d", k), 40))
		ik.Add(ik, big.NewInt(2))
		id, f, err := refIssuerOriginID(cf.pub, ik)
		if err != nil {
			return 0, nil
		}
		brk, err := mulCompressed(cf.req[0].RequestKey, f)
		if err != nil {
			return 0, nil
		}
		os[k] = org{brk, string(id), mc.Fill(seedBase, fmt.Sprintf("c09-many-anon-%d", k), 32)}
	}
	steps := 0
	step := func(phase string, k int, anon []byte, want bool) *mc.Viol {
		steps++
		idx, err := s.att.FinalizeIndex(cp(cf.pub), cp(cf.blind[0]), cp(os[k].brk), cp(anon))
		if (err == nil) != want {
			sig := "FinalizeIndex accepts a second anonymous origin ID for a bound issuer origin ID"
			if want {
				sig = map[string]string{"bind": "FinalizeIndex rejects a pair whose issuer origin ID is still unbound", "repeat": "FinalizeIndex rejects a repeat of an accepted pair", "repeat-again": "FinalizeIndex rejects a repeat of an accepted pair"}[phase]
			}
			return &mc.Viol{Sig: sig + " (client with many origins)", What: fmt.Sprintf("%d origins, phase %s, origin %d (step %d): error=%v", p.K, phase, k, steps, err)}
		}
		if want {
			if string(idx) != os[k].id {
				return &mc.Viol{Sig: "FinalizeIndex returns an ID that is not the reference ID of (client, origin index key)", What: fmt.Sprintf("%d origins, phase %s, origin %d", p.K, phase, k)}
			}
			s.m.bind[cA][os[k].id] = string(anon)
		}
		if v := conform(s, "in a history with many origins"); v != nil {
			v.What = fmt.Sprintf("phase %s, origin %d of %d: %s", phase, k, p.K, trunc(v.What, 300))
			return v
		}
		return nil
	}
	for k := range os {
		if v := step("bind", k, os[k].anon, true); v != nil {
			return steps, v
		}
	}
	for k := range os {
		if v := step("repeat", k, os[k].anon, true); v != nil {
			return steps, v
		}
	}
	for k := range os {
		if v := step("other-anon", k, os[(k+1)%p.K].anon, p.K == 1); v != nil {
			return steps, v
		}
	}
	for k := p.K - 1; k >= 0; k-- {
		if v := step("repeat-again", k, os[k].anon, true); v != nil {
			return steps, v
		}
	}
	return steps, nil
}

func trunc(s string, n int) string {
	if len(s) > n {
		return s[:n]
	}
	return s
}

func main() {
	r := mc.Start("C09", "model_checking")
	seedBase = r.Seed
	mc.InstallDRBG(r.Seed)

	// two searches: (1) one verified-capable client, anonymous ids {x, y, empty}; (2) two clients
	// (state of one must never leak into decisions about the other), ids {x, y}; quick restricts
	// (2) to origins o1 (shared key with o2) and o3
	build := func(clients []int, origins []int, anons []int) []Op {
		var menu []Op
		for _, c := range clients {
			if c != cU {
				menu = append(menu, Op{K: "verify", C: c})
			}
			menu = append(menu, Op{K: "verify-bad-sig", C: c}, Op{K: "verify-wrong-blind", C: c})
			for _, o := range origins {
				for _, a := range anons {
					menu = append(menu, Op{K: "finalize", C: c, O: o, A: a})
				}
			}
		}
		return menu
	}
	clients := []int{cA, cB, cU}
	menu := build([]int{cA, cU}, []int{0, 1, 2}, []int{0, 1, 2})
	menu2 := build(clients, mc.Pick(r, []int{0, 2}, []int{0, 1, 2}), []int{0, 1})
	q := &mc.Seq[*State, Op]{
		Init:  initState,
		Ops:   func(*State, int) []Op { return menu },
		Apply: apply,
		Canon: canon,
		Clone: cloneState,
		Depth: 0,
		Kind:  "history",
		Label: func(o Op) string { return o.label() },
	}
	q.Register(r)
	q2 := &mc.Seq[*State, Op]{Init: initState, Ops: func(*State, int) []Op { return menu2 }, Apply: apply, Canon: canon, Clone: cloneState, Depth: 0, Kind: "history",
		Label: func(o Op) string { return o.label() }}
	// (3) no state merging, one attester OBJECT kept alive through every history (whatever the
	// attester remembers outside the cache is part of the state): every history up to the depth
	var menu3 []Op
	for _, c := range clients[:2] {
		menu3 = append(menu3, Op{K: "verify", C: c})
		for _, o := range []int{0, 2} {
			for _, a := range []int{0, 1} {
				menu3 = append(menu3, Op{K: "finalize", C: c, O: o, A: a})
			}
		}
	}
	menu3 = append(menu3, Op{K: "verify-wrong-blind", C: cB}, Op{K: "finalize", C: cU, O: 0, A: 0})
	q3 := &mc.Seq[*State, Op]{
		Init: func() *State {
			s := initState()
			s.att = type3.NewRateLimitedAttester(s.cache)
			return s
		},
		Ops: func(*State, int) []Op { return menu3 }, Apply: apply, Depth: mc.Pick(r, 4, 5), Kind: "object-history",
		Label: func(o Op) string { return o.label() }}
	q3.Register(r)
	r.RegisterReplay("many-origins", func(pj json.RawMessage) *mc.Viol {
		var p manyP
		json.Unmarshal(pj, &p)
		var v *mc.Viol
		if pn := mc.CatchStack(func() { _, v = manyOrigins(p) }); pn != "" {
			return &mc.Viol{Sig: "attester panics in a history with many origins", What: pn}
		}
		return v
	})
	if r.IsReplay() {
		r.DoReplay()
	}
	initState()
	if fx.err != "" {
		r.Note("fixture could not be built: %s", fx.err)
		r.NotExhaustive("fixture could not be built (honest type-3 flow broken; see C01/C08): %s", fx.err)
		r.Finish()
	}

	r.SetRule("breadth-first search to a fix-point over the real attester: every event of the menu is applied in every reachable cache state (canonical form = sorted complete dump of originIndices, clientIndices, originCounts of every cached client); a case is the shortest history reaching a state plus one event; all are non-trivial (one real attester call each, model stepped alongside)")
	r.Assume("alphabet: clients "+fmt.Sprint(len(clients)-1)+" verified-capable + never-verified U; origins o1,o2 (shared index key) and o3; anonymous origin IDs x,y; one fixed honest request per (client, origin)",
		"soundness of state merging: the attester's decisions read nothing but the cached ClientState maps and the call arguments (the attester object holds only the cache pointer)",
		"the verdict of VerifyRequest on a corrupted signature is not judged here (property C06); only whether client state gets registered",
		"originIndices is dumped into the canonical state but, as the property only speaks about accepted bindings, it is not compared with the model",
		"reference ID per (client, origin index key) from own RFC 9380 hash_to_field + crypto/elliptic + x/crypto/hkdf")
	r.Set("dimensions", map[string]any{"search1": "clients A+U, origins o1 o2 o3, anonymous ids x y empty", "search2_events": len(menu2), "search1_events": len(menu)})
	r.Set("events", func() []string {
		var l []string
		for _, o := range menu {
			l = append(l, o.label())
		}
		return l
	}())
	r.Par(2, func(i int) {
		switch i {
		case 0:
			q.Run(r)
		case 1:
			q2.Run(r)
		}
	})
	// (3): every sequence of exactly depth3 events (shorter histories are their prefixes; the
	// invariants are checked after every step), each on a fresh attester object
	depth3 := q3.Depth
	total := 1
	for i := 0; i < depth3; i++ {
		total *= len(menu3)
	}
	r.Par(total, func(idx int) {
		ops := make([]Op, depth3)
		x := idx
		for i := depth3 - 1; i >= 0; i-- {
			ops[i] = menu3[x%len(menu3)]
			x /= len(menu3)
		}
		s := q3.Init()
		obs := ""
		for i, op := range ops {
			var v *mc.Viol
			obs, v = apply(s, op)
			r.AddTransitions(1)
			r.AddTraces(1)
			if v != nil {
				r.Violation("object-history", ops[:i+1], v)
				break
			}
		}
		r.AddStates(1)
		r.Case(fmt.Sprintf("objhist-%d", idx), true, "object-history:"+obs)
	})
	r.Set("object_histories", map[string]any{"events": len(menu3), "depth": depth3, "sequences": total})
	// (4) many origins per client
	ks := mc.Pick(r, []int{2, 17, 63, 64, 65, 130}, []int{2, 17, 63, 64, 65, 127, 128, 129, 255, 256, 257, 600})
	r.Par(len(ks), func(i int) {
		p := manyP{K: ks[i]}
		var v *mc.Viol
		var n int
		if pn := mc.CatchStack(func() { n, v = manyOrigins(p) }); pn != "" {
			v = &mc.Viol{Sig: "attester panics in a history with many origins", What: pn}
		}
		if v != nil {
			r.Violation("many-origins", p, v)
		}
		r.AddTransitions(int64(n))
		r.AddTraces(1)
		r.Case(fmt.Sprintf("many-%d", p.K), true, "many-origins:conforms")
	})
	r.Set("many_origins_histories", ks)
	r.Finish()
}
