// C19: QUIC varints and length-prefixed byte strings are exact and bounds-safe.
//
// Bounded exhaustive enumeration on the real quicwire package against an
// arithmetic reference written from RFC 9000 section 16.
package main

import (
	"bytes"
	"encoding/hex"
	"encoding/json"
	"fmt"
	"unsafe"

	"github.com/cloudflare/pat-go/quicwire"

	"verif/mc"
)

// ---- reference (RFC 9000 §16, by arithmetic on the value) ----

func refSize(v uint64) int {
	switch {
	case v < 1<<6:
		return 1
	case v < 1<<14:
		return 2
	case v < 1<<30:
		return 4
	case v < 1<<62:
		return 8
	}
	return -1
}

func refEnc(v uint64) []byte {
	n := refSize(v)
	out := make([]byte, n)
	x := v
	for i := n - 1; i >= 0; i-- {
		out[i] = byte(x % 256)
		x /= 256
	}
	pfx := map[int]byte{1: 0x00, 2: 0x40, 4: 0x80, 8: 0xc0}[n]
	out[0] += pfx
	return out
}

// refDec returns value and length announced by the first byte, or n=-1 when
// fewer bytes are available.
func refDec(b []byte) (uint64, int) {
	if len(b) == 0 {
		return 0, -1
	}
	n := 1 << (b[0] / 64)
	if len(b) < n {
		return 0, -1
	}
	v := uint64(b[0] % 64)
	for i := 1; i < n; i++ {
		v = v*256 + uint64(b[i])
	}
	return v, n
}

// ---- cases ----

type encCase struct {
	V      uint64 `json:"v"`
	Prefix int    `json:"prefix_len"`
	Spare  int    `json:"spare"`
}

func checkEnc(c encCase) *mc.Viol {
	// destination: prefix bytes, then spare capacity pre-filled with 0xA5, inside a guarded buffer
	buf := make([]byte, c.Prefix+c.Spare+16)
	for i := range buf {
		buf[i] = 0xA5
	}
	for i := 0; i < c.Prefix; i++ {
		buf[i] = byte(0x11 * (i + 1))
	}
	dst := buf[: c.Prefix : c.Prefix+c.Spare]
	want := refEnc(c.V)
	var got []byte
	if p := mc.Catch(func() { got = quicwire.AppendVarint(dst, c.V) }); p != "" {
		return &mc.Viol{Sig: "AppendVarint panics", What: fmt.Sprintf("AppendVarint(prefix %d bytes, %d) panicked: %s", c.Prefix, c.V, p)}
	}
	if len(got) != c.Prefix+len(want) || !bytes.Equal(got[c.Prefix:], want) {
		return &mc.Viol{Sig: fmt.Sprintf("AppendVarint wrong form class=%d", len(want)), What: fmt.Sprintf("AppendVarint(%d)=%x want prefix||%x", c.V, got, want)}
	}
	for i := 0; i < c.Prefix; i++ {
		if got[i] != byte(0x11*(i+1)) {
			return &mc.Viol{Sig: "AppendVarint changes destination prefix", What: fmt.Sprintf("v=%d prefix byte %d", c.V, i)}
		}
	}
	var sz int
	if p := mc.Catch(func() { sz = quicwire.SizeVarint(c.V) }); p != "" || sz != len(want) {
		return &mc.Viol{Sig: fmt.Sprintf("SizeVarint wrong class=%d", len(want)), What: fmt.Sprintf("SizeVarint(%d)=%d (panic %q) want %d", c.V, sz, p, len(want))}
	}
	return checkDec(want, c.V, len(want))
}

// checkDec: decoder on b and on b followed by junk must return (v,n); every
// proper prefix shorter than n must fail.
func checkDec(b []byte, v uint64, n int) *mc.Viol {
	gv, gn := quicwire.ConsumeVarint(b)
	if gv != v || gn != n {
		return &mc.Viol{Sig: fmt.Sprintf("ConsumeVarint wrong result class=%d", n), What: fmt.Sprintf("ConsumeVarint(%x)=(%d,%d) want (%d,%d)", b, gv, gn, v, n)}
	}
	iv, in := quicwire.ConsumeVarintInt64(b)
	if uint64(iv) != v || in != n {
		return &mc.Viol{Sig: fmt.Sprintf("ConsumeVarintInt64 wrong result class=%d", n), What: fmt.Sprintf("ConsumeVarintInt64(%x)=(%d,%d)", b, iv, in)}
	}
	return nil
}

type decCase struct {
	B string `json:"bytes_hex"`
}

func checkDecBytes(b []byte) *mc.Viol {
	wv, wn := refDec(b)
	var gv uint64
	var gn int
	if p := mc.Catch(func() { gv, gn = quicwire.ConsumeVarint(b[:len(b):len(b)]) }); p != "" {
		return &mc.Viol{Sig: "ConsumeVarint panics", What: fmt.Sprintf("ConsumeVarint(%x): %s", b, p)}
	}
	if wn < 0 {
		if gn >= 0 {
			return &mc.Viol{Sig: fmt.Sprintf("ConsumeVarint accepts short input class=%d", 1<<(firstOr0(b)>>6)), What: fmt.Sprintf("ConsumeVarint(%x)=(%d,%d), fewer bytes than announced", b, gv, gn)}
		}
		return nil
	}
	if gn != wn || gv != wv {
		return &mc.Viol{Sig: fmt.Sprintf("ConsumeVarint wrong result class=%d", wn), What: fmt.Sprintf("ConsumeVarint(%x)=(%d,%d) want (%d,%d)", b, gv, gn, wv, wn)}
	}
	return nil
}

func firstOr0(b []byte) byte {
	if len(b) == 0 {
		return 0
	}
	return b[0]
}

type lpCase struct {
	Fn       string `json:"fn"` // varint | uint8
	Class    int    `json:"class"`
	Declared uint64 `json:"declared"`
	Remain   int    `json:"remaining"`
	Spare    int    `json:"spare"`
}

func encInClass(v uint64, class int) []byte {
	out := make([]byte, class)
	x := v
	for i := class - 1; i >= 0; i-- {
		out[i] = byte(x)
		x >>= 8
	}
	out[0] = out[0]&0x3f | map[int]byte{1: 0x00, 2: 0x40, 4: 0x80, 8: 0xc0}[class]
	return out
}

func checkLP(c lpCase) *mc.Viol {
	var hdr []byte
	if c.Fn == "uint8" {
		hdr = []byte{byte(c.Declared)}
	} else {
		hdr = encInClass(c.Declared, c.Class)
	}
	total := len(hdr) + c.Remain
	buf := make([]byte, total+c.Spare)
	copy(buf, hdr)
	for i := len(hdr); i < len(buf); i++ {
		buf[i] = byte(i*7 + 1)
	}
	in := buf[:total]
	var got []byte
	var n int
	p := mc.Catch(func() {
		if c.Fn == "uint8" {
			got, n = quicwire.ConsumeUint8Bytes(in)
		} else {
			got, n = quicwire.ConsumeVarintBytes(in)
		}
	})
	name := "Consume" + map[string]string{"uint8": "Uint8", "varint": "Varint"}[c.Fn] + "Bytes"
	if p != "" {
		return &mc.Viol{Sig: name + " panics", What: fmt.Sprintf("%s declared=%d remaining=%d: %s", name, c.Declared, c.Remain, p)}
	}
	if c.Declared > uint64(c.Remain) {
		if n >= 0 || got != nil {
			return &mc.Viol{Sig: name + " accepts declared length beyond input", What: fmt.Sprintf("%s declared=%d remaining=%d returned n=%d len=%d", name, c.Declared, c.Remain, n, len(got))}
		}
		return nil
	}
	if n != len(hdr)+int(c.Declared) || len(got) != int(c.Declared) {
		return &mc.Viol{Sig: name + " wrong length", What: fmt.Sprintf("%s declared=%d remaining=%d returned n=%d len=%d", name, c.Declared, c.Remain, n, len(got))}
	}
	if c.Declared > 0 && unsafe.SliceData(got) != unsafe.SliceData(buf[len(hdr):]) {
		return &mc.Viol{Sig: name + " result is not the announced sub-slice", What: fmt.Sprintf("declared=%d", c.Declared)}
	}
	if !bytes.Equal(got, buf[len(hdr):len(hdr)+int(c.Declared)]) {
		return &mc.Viol{Sig: name + " wrong bytes", What: fmt.Sprintf("declared=%d", c.Declared)}
	}
	return nil
}

// ---- the encoders write the appended bytes and nothing else; overlapping arguments ----
//
// dstCase: the destination is a slice of a larger buffer (prefix, spare capacity behind it, guard
// bytes). After the call only the bytes [len(dst), len(result)) of the buffer may differ; all
// other bytes of the buffer - the rest of the spare capacity included - keep their contents.
// With Alias >= 0 the byte string to append is itself a part of the same buffer, lying in the
// destination's spare capacity at offset Alias behind the place where its prefix ends (in-place
// framing, moving a record to the front of its own buffer): the result must be prefix || length
// || the string's original contents.

type dstCase struct {
	Fn     string `json:"fn"` // varint | varintbytes | uint8bytes
	Value  uint64 `json:"value,omitempty"`
	Len    int    `json:"len,omitempty"`
	Prefix int    `json:"prefix_len"`
	Spare  int    `json:"spare_capacity"`
	Alias  int    `json:"alias_offset"` // -1: the string has its own memory
}

func checkDst(c dstCase) *mc.Viol {
	const guard = 16
	hdr := 0
	switch c.Fn {
	case "varint":
		hdr = len(refEnc(c.Value))
	case "varintbytes":
		hdr = len(refEnc(uint64(c.Len)))
	case "uint8bytes":
		hdr = 1
	}
	need := hdr + c.Len
	total := c.Prefix + c.Spare
	if c.Alias >= 0 && c.Prefix+hdr+c.Alias+c.Len > total {
		return nil // the string would not lie inside the spare capacity
	}
	buf := make([]byte, guard+total+guard)
	for i := range buf {
		buf[i] = byte(0xA0 + i%23)
	}
	dst := buf[guard : guard+c.Prefix : guard+total]
	var v []byte
	if c.Fn != "varint" {
		if c.Alias >= 0 {
			o := guard + c.Prefix + hdr + c.Alias
			v = buf[o : o+c.Len : o+c.Len]
		} else {
			v = make([]byte, c.Len)
		}
		for i := range v {
			v[i] = byte(i*13 + 5)
		}
	}
	before := append([]byte{}, buf...)
	orig := append([]byte{}, v...)
	var out []byte
	if p := mc.Catch(func() {
		switch c.Fn {
		case "varint":
			out = quicwire.AppendVarint(dst, c.Value)
		case "varintbytes":
			out = quicwire.AppendVarintBytes(dst, v)
		case "uint8bytes":
			out = quicwire.AppendUint8Bytes(dst, v)
		}
	}); p != "" {
		return &mc.Viol{Sig: "Append (" + c.Fn + ") panics", What: fmt.Sprintf("%+v: %s", c, p)}
	}
	if c.Fn == "varint" && c.Alias < 0 {
		// the result belongs to the caller: overwriting it must not change what a later call returns
		// (into a destination without room the encoder must hand out fresh memory)
		saved := append([]byte{}, out...)
		var again []byte
		if c.Spare == 0 {
			for i := c.Prefix; i < len(out); i++ {
				out[i] ^= 0xff
			}
			again = append([]byte{}, quicwire.AppendVarint(buf[guard:guard+c.Prefix:guard+c.Prefix], c.Value)...)
			for i := c.Prefix; i < len(out); i++ {
				out[i] ^= 0xff
			}
		} else {
			again = saved
		}
		if !bytes.Equal(again, saved) {
			return &mc.Viol{Sig: "AppendVarint: a later call returns what the caller wrote into an earlier result", What: fmt.Sprintf("%+v: first %x, after the caller flipped it: %x", c, saved, again)}
		}
	}
	var want []byte
	want = append(want, before[guard:guard+c.Prefix]...)
	switch c.Fn {
	case "varint":
		want = append(want, refEnc(c.Value)...)
	case "varintbytes":
		want = append(append(want, refEnc(uint64(c.Len))...), orig...)
	case "uint8bytes":
		want = append(append(want, byte(c.Len)), orig...)
	}
	if !bytes.Equal(out, want) {
		site := "wrong result into a destination with spare capacity"
		if c.Alias >= 0 {
			site = "wrong result when the string lies in the destination's spare capacity"
		}
		return &mc.Viol{Sig: "Append (" + c.Fn + "): " + site, What: fmt.Sprintf("%+v: got %x… want %x…", c, out[:min(len(out), 24)], want[:min(len(want), 24)])}
	}
	// what may have changed in the caller's buffer: the appended region, if the result lives there
	lo, hi := guard+c.Prefix, guard+c.Prefix
	if need <= c.Spare {
		hi = lo + need
	} else if c.Alias < 0 {
		// reallocation: nothing of the buffer needs to change; writing the head into the old capacity
		// before growing is tolerated (append does that)
		hi = lo + min(need, c.Spare)
	}
	for i := range buf {
		if i >= lo && i < hi {
			continue
		}
		if c.Alias >= 0 && need > c.Spare {
			continue // overlapping and reallocating: contents of the old buffer are unspecified behind the prefix
		}
		if buf[i] != before[i] {
			where := "spare capacity behind the appended bytes"
			if i < guard+c.Prefix {
				where = "destination prefix (or the bytes in front of it)"
			} else if i >= guard+total {
				where = "memory behind the destination's capacity"
			}
			return &mc.Viol{Sig: "Append (" + c.Fn + ") writes outside the appended bytes: " + where, What: fmt.Sprintf("%+v: byte %d of the buffer changed %02x -> %02x (appended region is [%d,%d))", c, i-guard, before[i], buf[i], lo-guard, hi-guard)}
		}
	}
	return nil
}

type rtCase struct {
	Fn     string `json:"fn"`
	Len    int    `json:"len"`
	Prefix int    `json:"prefix_len"`
}

func checkRT(c rtCase) *mc.Viol {
	if c.Len == 0 {
		// the empty string as a nil slice: still a string of length zero
		for _, fn := range []string{"uint8", "varint"} {
			if fn != c.Fn {
				continue
			}
			pre := bytes.Repeat([]byte{0xEE}, c.Prefix)
			dst := append(make([]byte, 0, c.Prefix+3), pre...)
			var enc []byte
			if p := mc.Catch(func() {
				if fn == "uint8" {
					enc = quicwire.AppendUint8Bytes(dst, nil)
				} else {
					enc = quicwire.AppendVarintBytes(dst, nil)
				}
			}); p != "" {
				return &mc.Viol{Sig: "Append" + fn + "Bytes panics on a nil string", What: p}
			}
			if !bytes.Equal(enc, append(pre, 0x00)) {
				return &mc.Viol{Sig: "Append" + fn + "Bytes: the empty string given as nil is not encoded as a zero length", What: fmt.Sprintf("prefix %d: got %x", c.Prefix, enc)}
			}
		}
	}
	v := make([]byte, c.Len)
	for i := range v {
		v[i] = byte(i*13 + 5)
	}
	pre := bytes.Repeat([]byte{0xEE}, c.Prefix)
	dst := append(make([]byte, 0, c.Prefix+3), pre...)
	var enc []byte
	p := mc.Catch(func() {
		if c.Fn == "uint8" {
			enc = quicwire.AppendUint8Bytes(dst, v)
		} else {
			enc = quicwire.AppendVarintBytes(dst, v)
		}
	})
	if c.Fn == "uint8" && c.Len > 255 {
		if p == "" {
			return &mc.Viol{Sig: "AppendUint8Bytes accepts >255 bytes", What: fmt.Sprintf("len=%d silently encoded as %x…", c.Len, enc[:c.Prefix+1])}
		}
		return nil
	}
	if p != "" {
		return &mc.Viol{Sig: "Append" + c.Fn + "Bytes panics", What: p}
	}
	if !bytes.Equal(enc[:c.Prefix], pre) {
		return &mc.Viol{Sig: "Append" + c.Fn + "Bytes changes destination prefix", What: ""}
	}
	var want []byte
	if c.Fn == "uint8" {
		want = append([]byte{byte(c.Len)}, v...)
	} else {
		want = append(refEnc(uint64(c.Len)), v...)
	}
	if !bytes.Equal(enc[c.Prefix:], want) {
		return &mc.Viol{Sig: "Append" + c.Fn + "Bytes wrong encoding", What: fmt.Sprintf("len=%d got header %x", c.Len, enc[c.Prefix:c.Prefix+min(9, len(enc)-c.Prefix)])}
	}
	var got []byte
	var n int
	if c.Fn == "uint8" {
		got, n = quicwire.ConsumeUint8Bytes(enc[c.Prefix:])
	} else {
		got, n = quicwire.ConsumeVarintBytes(enc[c.Prefix:])
	}
	if n != len(want) || !bytes.Equal(got, v) {
		return &mc.Viol{Sig: c.Fn + " length-prefixed round trip fails", What: fmt.Sprintf("len=%d n=%d", c.Len, n)}
	}
	return nil
}

type fixCase struct {
	Width int `json:"width"`
	Len   int `json:"len"`
}

func checkFix(c fixCase) *mc.Viol {
	b := make([]byte, c.Len)
	for i := range b {
		b[i] = byte(0x80 + i)
	}
	var v uint64
	var n int
	p := mc.Catch(func() {
		if c.Width == 4 {
			var x uint32
			x, n = quicwire.ConsumeUint32(b)
			v = uint64(x)
		} else {
			v, n = quicwire.ConsumeUint64(b)
		}
	})
	if p != "" {
		return &mc.Viol{Sig: fmt.Sprintf("ConsumeUint%d panics", c.Width*8), What: p}
	}
	if c.Len < c.Width {
		if n >= 0 {
			return &mc.Viol{Sig: fmt.Sprintf("ConsumeUint%d accepts short input", c.Width*8), What: fmt.Sprintf("len=%d n=%d", c.Len, n)}
		}
		return nil
	}
	var want uint64
	for i := 0; i < c.Width; i++ {
		want = want<<8 | uint64(b[i])
	}
	if n != c.Width || v != want {
		return &mc.Viol{Sig: fmt.Sprintf("ConsumeUint%d wrong result", c.Width*8), What: fmt.Sprintf("got (%d,%d) want (%d,%d)", v, n, want, c.Width)}
	}
	return nil
}

func main() {
	r := mc.Start("C19", "exploration")
	r.RegisterReplay("enc", func(p json.RawMessage) *mc.Viol { var c encCase; json.Unmarshal(p, &c); return checkEnc(c) })
	r.RegisterReplay("dec", func(p json.RawMessage) *mc.Viol {
		var c decCase
		json.Unmarshal(p, &c)
		b, _ := hex.DecodeString(c.B)
		return checkDecBytes(b)
	})
	r.RegisterReplay("lp", func(p json.RawMessage) *mc.Viol { var c lpCase; json.Unmarshal(p, &c); return checkLP(c) })
	r.RegisterReplay("rt", func(p json.RawMessage) *mc.Viol { var c rtCase; json.Unmarshal(p, &c); return checkRT(c) })
	r.RegisterReplay("fix", func(p json.RawMessage) *mc.Viol { var c fixCase; json.Unmarshal(p, &c); return checkFix(c) })
	r.RegisterReplay("dst", func(pj json.RawMessage) *mc.Viol {
		var c dstCase
		json.Unmarshal(pj, &c)
		return checkDst(c)
	})
	r.RegisterArch386()
	if r.IsReplay() {
		r.DoReplay()
	}
	r.SetRule("encoder: every value below the tier limit plus 2^k, 2^k±1 (k<=62) and every 8-byte form over {00,01,7f,80,ff}, each with 3 destination prefixes; decoder: every byte string of length<=3 and every first byte x length 0..9 x 4 tails; length-prefixed consumers: class x declared-length boundary set x remaining 0..70. Cases are distinct by construction (enumeration without repetition); non-trivial = value not in the 1-byte class / decoder input of length>=2 / declared length != 0")
	r.Assume("reference is RFC 9000 section 16 arithmetic written independently of quicwire",
		"reads past len(b) are impossible in safe Go without re-slicing to cap; the check therefore varies the spare capacity and demands identical results and no panic",
		"values at or above the tier limit are covered only through the boundary alphabet")

	// ---- encoder/decoder over the full low range ----
	// quick: every value below 2^22; thorough: every value below 2^30 (the 1-, 2- and 4-byte classes
	// completely) plus the first 2^26 values of the 8-byte class
	limitBits := mc.Pick(r, 22, 30)
	limit := uint64(1) << limitBits
	const chunk = 1 << 16
	nchunks := int(limit / chunk)
	if r.Thorough() {
		nchunks += (1 << 26) / chunk
	}
	r.Par(nchunks, func(ci int) {
		if r.OutOfTime() {
			r.NotExhaustive("budget hit in value sweep")
			return
		}
		lo := uint64(ci) * chunk
		var nd int64
		for v := lo; v < lo+chunk; v++ {
			pl := int(v % 3)
			c := encCase{V: v, Prefix: []int{0, 1, 7}[pl], Spare: []int{0, 8, 3}[pl]}
			if viol := checkEnc(c); viol != nil {
				r.Violation("enc", c, viol)
			}
			if v >= 64 {
				nd++
			}
		}
		r.Bulk(chunk, nd, "enc-dec-agree")
	})
	r.Set("values_below", uint64(nchunks)*chunk)
	r.Sample(map[string]any{"kind": "enc", "v": 16384, "ref": hex.EncodeToString(refEnc(16384))})

	// ---- boundary values ----
	var bvals []uint64
	seen := map[uint64]bool{}
	add := func(v uint64) {
		if v < 1<<62 && !seen[v] {
			seen[v] = true
			bvals = append(bvals, v)
		}
	}
	for k := 0; k <= 62; k++ {
		add(uint64(1) << k)
		add(uint64(1)<<k - 1)
		add(uint64(1)<<k + 1)
		add(uint64(1)<<k - 2)
	}
	add(1<<62 - 1)
	for _, v := range bvals {
		for _, pl := range [][2]int{{0, 0}, {1, 8}, {7, 3}} {
			c := encCase{V: v, Prefix: pl[0], Spare: pl[1]}
			if viol := checkEnc(c); viol != nil {
				r.Violation("enc", c, viol)
			}
		}
		nt := int64(0)
		if v >= limit {
			nt = 3
		}
		r.Bulk(3, nt, "enc-dec-agree")
	}
	r.Set("boundary_values", len(bvals))
	// encoder must refuse (panic) values above 2^62-1 rather than emit a wrong form
	for _, v := range []uint64{1 << 62, 1<<62 + 1, 1<<63 - 1, 1 << 63, ^uint64(0)} {
		var out []byte
		p := mc.Catch(func() { out = quicwire.AppendVarint(nil, v) })
		_ = out
		r.Case(fmt.Sprint("too-large-", v), true, map[bool]string{true: "enc-refuses-too-large", false: "enc-emits-too-large"}[p != ""])
	}

	// ---- every 8-byte form over the byte alphabet ----
	alpha := []byte{0x00, 0x01, 0x7f, 0x80, 0xff}
	n8 := 1
	for i := 0; i < 8; i++ {
		n8 *= len(alpha)
	}
	r.Par(len(alpha), func(top int) {
		var cnt int64
		for idx := top; idx < n8; idx += len(alpha) {
			var b [8]byte
			x := idx
			for i := 0; i < 8; i++ {
				b[i] = alpha[x%len(alpha)]
				x /= len(alpha)
			}
			if viol := checkDecBytes(b[:]); viol != nil {
				r.Violation("dec", decCase{hex.EncodeToString(b[:])}, viol)
			}
			// the decoded value must re-encode to its shortest form and decode back
			v, n := refDec(b[:])
			if n > 0 {
				c := encCase{V: v, Prefix: 1, Spare: 2}
				if viol := checkEnc(c); viol != nil {
					r.Violation("enc", c, viol)
				}
			}
			cnt++
		}
		r.Bulk(cnt, cnt, "dec-agree")
	})
	r.Set("eight_byte_forms", n8)

	// ---- decoder: every byte string of length <= 3 ----
	r.Par(256, func(b0 int) {
		var cnt int64
		one := []byte{byte(b0)}
		if viol := checkDecBytes(one); viol != nil {
			r.Violation("dec", decCase{hex.EncodeToString(one)}, viol)
		}
		cnt++
		buf := make([]byte, 3)
		buf[0] = byte(b0)
		for b1 := 0; b1 < 256; b1++ {
			buf[1] = byte(b1)
			if viol := checkDecBytes(buf[:2]); viol != nil {
				r.Violation("dec", decCase{hex.EncodeToString(buf[:2])}, viol)
			}
			cnt++
			for b2 := 0; b2 < 256; b2++ {
				buf[2] = byte(b2)
				if viol := checkDecBytes(buf[:3]); viol != nil {
					r.Violation("dec", decCase{hex.EncodeToString(buf[:3])}, viol)
				}
				cnt++
			}
		}
		r.Bulk(cnt, cnt-1, "dec-agree")
	})
	if viol := checkDecBytes(nil); viol != nil {
		r.Violation("dec", decCase{""}, viol)
	}
	r.Bulk(1, 0, "dec-agree")
	// every first byte x total length 0..9 x tails; also with spare capacity behind the slice
	for b0 := 0; b0 < 256; b0++ {
		for l := 1; l <= 9; l++ {
			for t := 0; t < 4; t++ {
				tail := mc.Fill(r.Seed, fmt.Sprintf("tail-%d", t), 16)
				if t == 0 {
					tail = make([]byte, 16)
				}
				if t == 1 {
					tail = bytes.Repeat([]byte{0xff}, 16)
				}
				full := append([]byte{byte(b0)}, tail...)
				in := full[:l]
				if viol := checkDecBytes(in); viol != nil {
					r.Violation("dec", decCase{hex.EncodeToString(in)}, viol)
				}
				// same input with different bytes behind len must give the same answer
				v1, n1 := quicwire.ConsumeVarint(full[:l])
				alt := append([]byte{}, full...)
				for i := l; i < len(alt); i++ {
					alt[i] ^= 0xff
				}
				v2, n2 := quicwire.ConsumeVarint(alt[:l])
				if v1 != v2 || n1 != n2 {
					r.Violation("dec", decCase{hex.EncodeToString(in)}, &mc.Viol{Sig: "ConsumeVarint depends on bytes behind the input", What: fmt.Sprintf("%x", in)})
				}
				r.Case(fmt.Sprintf("dec-%02x-%d-%d", b0, l, t), l >= 2, "dec-agree")
			}
		}
	}
	r.Sample(map[string]any{"kind": "dec", "bytes": "c0000000000000", "want_n": -1})

	// ---- length-prefixed consumers ----
	declared := []uint64{0, 1, 2, 31, 32, 33, 62, 63, 64, 65, 69, 70, 71, 255, 256, 16383, 16384, 65535, 1<<30 - 1, 1 << 30, 1<<31 - 1, 1 << 31, 1<<31 + 5, 1<<32 - 1, 1 << 32, 1<<32 + 5, 3<<32 + 32, 1<<33 + 1, 1<<40 + 69,
		1<<48 - 1, 1 << 48, 1<<48 + 7, 1<<62 - 2, 1<<62 - 1}
	for _, class := range []int{1, 2, 4, 8} {
		max := map[int]uint64{1: 1<<6 - 1, 2: 1<<14 - 1, 4: 1<<30 - 1, 8: 1<<62 - 1}[class]
		// largest declared lengths first: a consumer that allocates what is declared fails fast on
		// 2^62-1 (recoverable) before it gets the chance to take the process down with a mid-sized
		// request; once a huge length has misbehaved the remaining huge ones are skipped
		hugeBroken := false
		for di := len(declared) - 1; di >= 0; di-- {
			d := declared[di]
			if d > max {
				continue
			}
			if hugeBroken && d >= 1<<31 {
				r.NotExhaustive("declared lengths >= 2^31 skipped after a violation with a larger one")
				continue
			}
			for rem := 0; rem <= 70; rem++ {
				for _, spare := range []int{0, 5} {
					c := lpCase{Fn: "varint", Class: class, Declared: d, Remain: rem, Spare: spare}
					if viol := checkLP(c); viol != nil {
						r.Violation("lp", c, viol)
						if d >= 1<<31 {
							hugeBroken = true
						}
					}
					r.Case(fmt.Sprintf("lpv-%d-%d-%d-%d", class, d, rem, spare), d != 0, map[bool]string{true: "lp-reject", false: "lp-accept"}[d > uint64(rem)])
				}
			}
		}
		// truncated header
		for cut := 0; cut < class; cut++ {
			h := encInClass(5, class)[:cut]
			got, n := quicwire.ConsumeVarintBytes(h)
			if n >= 0 || got != nil {
				r.Violation("dec", decCase{hex.EncodeToString(h)}, &mc.Viol{Sig: "ConsumeVarintBytes accepts truncated header", What: fmt.Sprintf("%x", h)})
			}
			r.Case(fmt.Sprintf("lpv-trunc-%d-%d", class, cut), true, "lp-reject")
		}
	}
	for d := 0; d < 256; d++ {
		for rem := 0; rem <= 70; rem++ {
			c := lpCase{Fn: "uint8", Declared: uint64(d), Remain: rem, Spare: 3}
			if viol := checkLP(c); viol != nil {
				r.Violation("lp", c, viol)
			}
			r.Case(fmt.Sprintf("lp8-%d-%d", d, rem), d != 0, map[bool]string{true: "lp-reject", false: "lp-accept"}[d > rem])
		}
		for _, rem := range []int{254, 255, 256, 300} {
			c := lpCase{Fn: "uint8", Declared: uint64(d), Remain: rem, Spare: 0}
			if viol := checkLP(c); viol != nil {
				r.Violation("lp", c, viol)
			}
			r.Case(fmt.Sprintf("lp8-%d-%d", d, rem), d != 0, map[bool]string{true: "lp-reject", false: "lp-accept"}[d > rem])
		}
	}
	if got, n := quicwire.ConsumeUint8Bytes(nil); n >= 0 || got != nil {
		r.Violation("lp", lpCase{Fn: "uint8"}, &mc.Viol{Sig: "ConsumeUint8Bytes accepts empty input", What: ""})
	}
	r.Sample(lpCase{Fn: "varint", Class: 8, Declared: 1<<62 - 1, Remain: 70})

	// ---- round trips of the byte-string encoders ----
	for _, fn := range []string{"uint8", "varint"} {
		lens := []int{0, 1, 2, 62, 63, 64, 65, 254, 255, 256, 257, 16383, 16384, 16385, 70000}
		for _, l := range lens {
			for _, pl := range []int{0, 1, 7} {
				c := rtCase{Fn: fn, Len: l, Prefix: pl}
				if viol := checkRT(c); viol != nil {
					r.Violation("rt", c, viol)
				}
				r.Case(fmt.Sprintf("rt-%s-%d-%d", fn, l, pl), l > 0, "rt")
			}
		}
	}
	// ---- destinations with spare capacity, strings inside that capacity ----
	{
		var ds []dstCase
		spares := []int{0, 1, 2, 3, 4, 7, 8, 9, 15, 16, 17, 64, 300}
		for _, pl := range []int{0, 1, 5} {
			for _, sp := range spares {
				for _, val := range []uint64{0, 1, 63, 64, 16383, 16384, 1<<30 - 1, 1 << 30, 1<<62 - 1} {
					ds = append(ds, dstCase{Fn: "varint", Value: val, Prefix: pl, Spare: sp, Alias: -1})
				}
				if sp == 0 {
					for val := uint64(2); val < 300; val++ {
						ds = append(ds, dstCase{Fn: "varint", Value: val, Prefix: pl, Spare: 0, Alias: -1})
					}
				}
				for _, l := range []int{0, 1, 2, 7, 8, 63, 64, 255, 256, 280} {
					for _, fn := range []string{"varintbytes", "uint8bytes"} {
						if fn == "uint8bytes" && l > 255 {
							continue
						}
						ds = append(ds, dstCase{Fn: fn, Len: l, Prefix: pl, Spare: sp, Alias: -1})
						for _, al := range []int{0, 1, 2, 8, 20} {
							ds = append(ds, dstCase{Fn: fn, Len: l, Prefix: pl, Spare: sp + l + al + 2, Alias: al})
						}
					}
				}
			}
		}
		for _, c := range ds {
			if viol := checkDst(c); viol != nil {
				r.Violation("dst", c, viol)
			}
			r.Case(fmt.Sprintf("dst-%+v", c), c.Spare > 0, "dst-only-appended-bytes-written")
		}
		r.Set("destination_capacity_cases", len(ds))
	}
	r.RunArch386()
	for _, w := range []int{4, 8} {
		for l := 0; l <= 9; l++ {
			c := fixCase{w, l}
			if viol := checkFix(c); viol != nil {
				r.Violation("fix", c, viol)
			}
			r.Case(fmt.Sprintf("fix-%d-%d", w, l), true, map[bool]string{true: "fix-reject", false: "fix-accept"}[l < w])
		}
	}
	r.Finish()
}

