package main

import (
	"encoding/binary"
	"encoding/hex"
	"fmt"
	"strings"

	"github.com/cloudflare/pat-go/tokens"
	"github.com/cloudflare/pat-go/tokens/batched"
	"github.com/cloudflare/pat-go/tokens/type1"
	"github.com/cloudflare/pat-go/tokens/type2"
	"github.com/cloudflare/pat-go/tokens/type3"
	"github.com/cloudflare/pat-go/tokens/type5"

	"verif/bx"
)

// obj is a live decoder object of the implementation: Unmarshal into it, Marshal from it.
type obj interface {
	Unmarshal(b []byte) bool
	Marshal() []byte
	Fields() string // complete dump of the decoded value
	Hand() []byte   // independent encoding of the decoded value, written from the wire-format definition
}

type codec struct {
	Name  string
	New   func() obj // fresh object
	Seeds []bx.Seed
	// for request decoders: the type tag this decoder carries (0 = not a typed request decoder)
	Tag uint16
}

func hx(b []byte) string { return hex.EncodeToString(b) }

func u16(v int) []byte { return []byte{byte(v >> 8), byte(v)} }

func varint(v uint64) []byte {
	switch {
	case v < 1<<6:
		return []byte{byte(v)}
	case v < 1<<14:
		return []byte{0x40 | byte(v>>8), byte(v)}
	case v < 1<<30:
		return []byte{0x80 | byte(v>>24), byte(v >> 16), byte(v >> 8), byte(v)}
	}
	b := make([]byte, 8)
	binary.BigEndian.PutUint64(b, v)
	b[0] |= 0xc0
	return b
}

func cat(parts ...[]byte) []byte {
	var out []byte
	for _, p := range parts {
		out = append(out, p...)
	}
	return out
}

// ---- typed requests ----

type o1 struct {
	r *type1.BasicPrivateTokenRequest
}

func (o o1) Unmarshal(b []byte) bool { return o.r.Unmarshal(b) }
func (o o1) Marshal() []byte         { return o.r.Marshal() }
func (o o1) Fields() string {
	return fmt.Sprintf("t1 kid=%02x req=%s", o.r.TokenKeyID, hx(o.r.BlindedReq))
}
func (o o1) Hand() []byte { return cat(u16(1), []byte{o.r.TokenKeyID}, o.r.BlindedReq) }

type o2 struct {
	r *type2.BasicPublicTokenRequest
}

func (o o2) Unmarshal(b []byte) bool { return o.r.Unmarshal(b) }
func (o o2) Marshal() []byte         { return o.r.Marshal() }
func (o o2) Fields() string {
	return fmt.Sprintf("t2 kid=%02x req=%s", o.r.TokenKeyID, hx(o.r.BlindedReq))
}
func (o o2) Hand() []byte { return cat(u16(2), []byte{o.r.TokenKeyID}, o.r.BlindedReq) }

type o5 struct {
	r *type5.BatchedPrivateTokenRequest
}

func (o o5) Unmarshal(b []byte) bool { return o.r.Unmarshal(b) }
func (o o5) Marshal() []byte         { return o.r.Marshal() }
func (o o5) Fields() string {
	var sb strings.Builder
	fmt.Fprintf(&sb, "t5 kid=%02x n=%d", o.r.TokenKeyID, len(o.r.BlindedReq))
	for _, e := range o.r.BlindedReq {
		sb.WriteString(" " + hx(e))
	}
	return sb.String()
}
func (o o5) Hand() []byte {
	var el []byte
	for _, e := range o.r.BlindedReq {
		el = append(el, e...)
	}
	return cat(u16(5), []byte{o.r.TokenKeyID}, varint(uint64(len(el))), el)
}

type o3 struct {
	r *type3.RateLimitedTokenRequest
}

func (o o3) Unmarshal(b []byte) bool { return o.r.Unmarshal(b) }
func (o o3) Marshal() []byte         { return o.r.Marshal() }
func (o o3) Fields() string {
	return fmt.Sprintf("t3 key=%s nk=%s enc=%s sig=%s", hx(o.r.RequestKey), hx(o.r.NameKeyID), hx(o.r.EncryptedTokenRequest), hx(o.r.Signature))
}
func (o o3) Hand() []byte {
	return cat(u16(3), o.r.RequestKey, o.r.NameKeyID, u16(len(o.r.EncryptedTokenRequest)), o.r.EncryptedTokenRequest, o.r.Signature)
}

type oInner struct{ r *type3.InnerTokenRequest }

func (o oInner) Unmarshal(b []byte) bool { return o.r.Unmarshal(b) }
func (o oInner) Marshal() []byte         { return o.r.Marshal() }
func (o oInner) Fields() string {
	k, m, p := o.r.VerifFields()
	return fmt.Sprintf("inner kid=%02x msg=%s pad=%s", k, hx(m), hx(p))
}
func (o oInner) Hand() []byte {
	k, m, p := o.r.VerifFields()
	return cat([]byte{k}, m, u16(len(p)), p)
}

// ---- value decoders wrapped as objects ----

type oChallenge struct {
	v  *tokens.TokenChallenge
	ok *bool
}

func (o oChallenge) Unmarshal(b []byte) bool {
	c, err := tokens.UnmarshalTokenChallenge(b)
	*o.v = c
	*o.ok = err == nil
	return err == nil
}
func (o oChallenge) Marshal() []byte { return o.v.Marshal() }
func (o oChallenge) Fields() string {
	// the origin list element by element: "a,b" as one name and as two names are different values
	return fmt.Sprintf("chal type=%04x issuer=%q nonce=%s origins[%d]=%q", o.v.TokenType, o.v.IssuerName, hx(o.v.RedemptionNonce), len(o.v.OriginInfo), o.v.OriginInfo)
}
func (o oChallenge) Hand() []byte {
	oi := strings.Join(o.v.OriginInfo, ",")
	return cat(u16(int(o.v.TokenType)), u16(len(o.v.IssuerName)), []byte(o.v.IssuerName), []byte{byte(len(o.v.RedemptionNonce))}, o.v.RedemptionNonce, u16(len(oi)), []byte(oi))
}

type oToken struct {
	v   *tokens.Token
	dec func([]byte) (tokens.Token, error)
}

func (o oToken) Unmarshal(b []byte) bool {
	t, err := o.dec(b)
	*o.v = t
	return err == nil
}
func (o oToken) Marshal() []byte { return o.v.Marshal() }
func (o oToken) Fields() string {
	return fmt.Sprintf("token type=%04x n=%s c=%s k=%s a=%s", o.v.TokenType, hx(o.v.Nonce), hx(o.v.Context), hx(o.v.KeyID), hx(o.v.Authenticator))
}
func (o oToken) Hand() []byte {
	return cat(u16(int(o.v.TokenType)), o.v.Nonce, o.v.Context, o.v.KeyID, o.v.Authenticator)
}

type oEncap struct{ v *type3.EncapKey }

func (o oEncap) Unmarshal(b []byte) bool {
	k, err := type3.UnmarshalEncapKey(b)
	*o.v = k
	return err == nil
}
func (o oEncap) Marshal() []byte { return o.v.Marshal() }
func (o oEncap) Fields() string {
	id, suite, pk := o.v.VerifParts()
	return fmt.Sprintf("encap id=%02x kem=%04x kdf=%04x aead=%04x pk=%s", id, uint16(suite.KEM.ID()), uint16(suite.KDF.ID()), uint16(suite.AEAD.ID()), hx(suite.KEM.SerializePublicKey(pk)))
}
func (o oEncap) Hand() []byte {
	id, suite, pk := o.v.VerifParts()
	return cat([]byte{id}, u16(int(suite.KEM.ID())), suite.KEM.SerializePublicKey(pk), u16(int(suite.KDF.ID())), u16(int(suite.AEAD.ID())))
}

// generic batch request list
type oBatchReq struct{ r *batched.BatchedTokenRequest }

func (o oBatchReq) Unmarshal(b []byte) bool { return o.r.Unmarshal(b) }
func (o oBatchReq) Marshal() []byte         { return o.r.Marshal() }

// elems lists the decoded element requests through the verif hook: each element is
// dumped from its own exported fields, not from the batch object's Marshal.
func (o oBatchReq) elems() [][]byte {
	var out [][]byte
	for _, e := range o.r.VerifRequests() {
		switch t := e.(type) {
		case *type1.BasicPrivateTokenRequest:
			out = append(out, cat(u16(1), []byte{t.TokenKeyID}, t.BlindedReq))
		case *type2.BasicPublicTokenRequest:
			out = append(out, cat(u16(2), []byte{t.TokenKeyID}, t.BlindedReq))
		default:
			out = append(out, []byte(fmt.Sprintf("unexpected element type %T", e)))
		}
	}
	return out
}
func (o oBatchReq) Fields() string {
	var sb strings.Builder
	sb.WriteString("batchreq")
	for _, e := range o.elems() {
		sb.WriteString(" " + hx(e))
	}
	return sb.String()
}
func (o oBatchReq) Hand() []byte {
	var body []byte
	for _, e := range o.elems() {
		body = append(body, e...)
	}
	return cat(varint(uint64(len(body))), body)
}

// generic batch response list (decoder only in the repository; the encoder is the issuer)
type oBatchResp struct{ v *[][]byte }

func (o oBatchResp) Unmarshal(b []byte) bool {
	r, err := batched.UnmarshalBatchedTokenResponses(b)
	*o.v = r
	return err == nil
}
func (o oBatchResp) Marshal() []byte { return o.Hand() }
func (o oBatchResp) Fields() string {
	var sb strings.Builder
	fmt.Fprintf(&sb, "batchresp n=%d", len(*o.v))
	for _, e := range *o.v {
		sb.WriteString(" [" + hx(e) + "]")
	}
	return sb.String()
}
func (o oBatchResp) Hand() []byte {
	var body []byte
	for _, e := range *o.v {
		switch len(e) {
		case 0:
			body = append(body, 0)
		case 145:
			body = append(body, cat([]byte{1}, u16(1), e)...)
		case 256:
			body = append(body, cat([]byte{1}, u16(2), e)...)
		default:
			body = append(body, cat([]byte{1, 0xff, 0xff}, e)...) // not encodable: forces a mismatch
		}
	}
	return cat(varint(uint64(len(body))), body)
}

func codecs(w *bx.World) []codec {
	bw := bx.VarintWidth(w.BatchReq)
	rw := bx.VarintWidth(w.BatchResp)
	return []codec{
		{Name: "type1.TokenRequest", Tag: 1, New: func() obj { return o1{new(type1.BasicPrivateTokenRequest)} },
			Seeds: []bx.Seed{{Name: "request1", Msg: w.O1.Request, Fields: []bx.Field{{0, 2}, {2, 1}}}}},
		{Name: "type2.TokenRequest", Tag: 2, New: func() obj { return o2{new(type2.BasicPublicTokenRequest)} },
			Seeds: []bx.Seed{{Name: "request2", Msg: w.O2.Request, Fields: []bx.Field{{0, 2}, {2, 1}}}}},
		{Name: "type3.TokenRequest", Tag: 3, New: func() obj { return o3{new(type3.RateLimitedTokenRequest)} },
			Seeds: []bx.Seed{{Name: "request3", Msg: w.O3.Request, Fields: []bx.Field{{0, 2}, {83, 2}}}}},
		{Name: "type5.TokenRequest", Tag: 5, New: func() obj { return o5{new(type5.BatchedPrivateTokenRequest)} },
			Seeds: []bx.Seed{{Name: "request5", Msg: w.O5.Request, Fields: []bx.Field{{0, 2}, {2, 1}, {3, bx.VarintWidth(w.O5.Request[3:])}}}}},
		{Name: "type3.InnerTokenRequest", New: func() obj { return oInner{new(type3.InnerTokenRequest)} },
			Seeds: []bx.Seed{{Name: "inner", Msg: w.Inner, Fields: []bx.Field{{0, 1}, {257, 2}}}}},
		{Name: "tokens.TokenChallenge", New: func() obj { return oChallenge{new(tokens.TokenChallenge), new(bool)} },
			Seeds: []bx.Seed{{Name: "challenge", Msg: w.Challenge, Fields: []bx.Field{{0, 2}, {2, 2}, {18, 1}, {51, 2}}}}},
		{Name: "type1.Token", New: func() obj { return oToken{new(tokens.Token), type1.UnmarshalPrivateToken} },
			Seeds: []bx.Seed{{Name: "token1", Msg: w.O1.Tokens[0], Fields: []bx.Field{{0, 2}}}}},
		{Name: "type2.Token", New: func() obj { return oToken{new(tokens.Token), type2.UnmarshalToken} },
			Seeds: []bx.Seed{{Name: "token2", Msg: w.O2.Tokens[0], Fields: []bx.Field{{0, 2}}}}},
		{Name: "type3.Token", New: func() obj { return oToken{new(tokens.Token), type3.UnmarshalToken} },
			Seeds: []bx.Seed{{Name: "token3", Msg: w.O3.Tokens[0], Fields: []bx.Field{{0, 2}}}}},
		{Name: "type5.Token", New: func() obj { return oToken{new(tokens.Token), type5.UnmarshalBatchedPrivateToken} },
			Seeds: []bx.Seed{{Name: "token5", Msg: w.O5.Tokens[0], Fields: []bx.Field{{0, 2}}}}},
		{Name: "type3.EncapKey", New: func() obj { return oEncap{new(type3.EncapKey)} },
			Seeds: []bx.Seed{{Name: "encapkey", Msg: w.W3.NameKeyWire, Fields: []bx.Field{{0, 1}, {1, 2}, {35, 2}, {37, 2}}}}},
		{Name: "batched.TokenRequest", New: func() obj { return oBatchReq{new(batched.BatchedTokenRequest)} },
			Seeds: []bx.Seed{{Name: "batchrequest", Msg: w.BatchReq, Fields: []bx.Field{{0, bw}, {bw, 2}, {bw + 52, 2}}}}},
		{Name: "batched.TokenResponses", New: func() obj { return oBatchResp{new([][]byte)} },
			Seeds: []bx.Seed{{Name: "batchresponse", Msg: w.BatchResp, Fields: []bx.Field{{0, rw}, {rw, 1}, {rw + 1, 2}, {rw + 3 + 145, 1}, {rw + 3 + 145 + 1, 2}}}}},
	}
}
