// C04: wire codecs round-trip, re-encode stably and keep request types apart.
//
// Bounded exhaustive enumeration on the real codecs:
//
//	(a) well-formed values built from field alphabets: decode(encode(v)) == v and the
//	    encoding equals an independent hand encoding;
//	(b) every byte string of the shared generators (bx.Gen) that a decoder accepts:
//	    canonical = Marshal of the decoded value must be no longer than the input,
//	    decode to the same value, equal the hand encoding, and be what Marshal returns
//	    on an object that held another value before;
//	(c) explicit-state enumeration of operation sequences on one object
//	    (Marshal / Unmarshal(valid_i) / Unmarshal(invalid_j)) up to depth 3 / 4;
//	(d) type separation: every request decoder x all 65536 tags x bodies of all types;
//	    the generic batch decoder on lists containing type-3/5 entries;
//	(e) the shipped Rust vectors decode and re-encode byte for byte.
package main

import (
	"bytes"
	"crypto/elliptic"
	"encoding/binary"
	"encoding/hex"
	"encoding/json"
	"fmt"
	"os"
	"strings"

	"github.com/cloudflare/pat-go/tokens"
	"github.com/cloudflare/pat-go/tokens/batched"
	"github.com/cloudflare/pat-go/tokens/type1"
	"github.com/cloudflare/pat-go/tokens/type2"
	"github.com/cloudflare/pat-go/tokens/type3"
	"github.com/cloudflare/pat-go/tokens/type5"

	"verif/bx"
	"verif/mc"
)

var world *bx.World
var allCodecs []codec
var seedv int64

func codecByName(n string) *codec {
	for i := range allCodecs {
		if allCodecs[i].Name == n {
			return &allCodecs[i]
		}
	}
	return nil
}

// ---- (b) accepted strings ----

type accCase struct {
	Codec string `json:"codec"`
	In    string `json:"input_hex"`
	Gen   string `json:"generator,omitempty"`
}

// checkAccepted returns (accepted, violation).
func checkAccepted(c *codec, in []byte) (bool, *mc.Viol) {
	o := c.New()
	var ok bool
	if p := mc.Catch(func() { ok = o.Unmarshal(in) }); p != "" {
		return false, nil // panics are C03's business
	}
	if !ok {
		return false, nil
	}
	v := func(site, what string) (bool, *mc.Viol) {
		return true, &mc.Viol{Sig: c.Name + ": " + site, What: fmt.Sprintf("input %s (%d bytes): %s", trunc(hex.EncodeToString(in), 160), len(in), what)}
	}
	f1 := o.Fields()
	var canon []byte
	if p := mc.Catch(func() { canon = append([]byte{}, o.Marshal()...) }); p != "" {
		return v("Marshal of an accepted value panics", p)
	}
	if len(canon) > len(in) {
		return v("canonical encoding longer than an accepted input", fmt.Sprintf("canonical %d bytes: %s", len(canon), trunc(hex.EncodeToString(canon), 120)))
	}
	if len(canon) == len(in) && !bytes.Equal(canon, in) {
		// every field of these formats has one encoding per width: a re-encoding of the same length
		// that differs from the accepted input means the decoder changed or dropped a field value
		// (the input is the encoding of a well-formed value that decoding does not return)
		return v("decoding does not return the value that was encoded (same-length re-encoding differs from the accepted input)", fmt.Sprintf("canonical %s", trunc(hex.EncodeToString(canon), 160)))
	}
	hand := o.Hand()
	if !bytes.Equal(hand, canon) {
		return v("Marshal after Unmarshal differs from the encoding of the decoded fields", fmt.Sprintf("Marshal=%s fields-encoding=%s", trunc(hex.EncodeToString(canon), 100), trunc(hex.EncodeToString(hand), 100)))
	}
	o2 := c.New()
	if !o2.Unmarshal(canon) {
		return v("canonical encoding of an accepted value is rejected", hex.EncodeToString(canon[:min(len(canon), 60)]))
	}
	if f2 := o2.Fields(); f2 != f1 {
		return v("canonical encoding decodes to a different value", fmt.Sprintf("first %s second %s", trunc(f1, 120), trunc(f2, 120)))
	}
	if again := o.Marshal(); !bytes.Equal(again, canon) {
		return v("Marshal is not stable", "")
	}
	// object reuse: the object held another value (and had marshalled it) before
	for _, s := range c.Seeds {
		prev := s.Msg
		o3 := c.New()
		if !o3.Unmarshal(prev) {
			continue
		}
		_ = o3.Marshal()
		if !o3.Unmarshal(in) {
			return v("accepts on a fresh object but rejects on a reused one", "")
		}
		got := o3.Marshal()
		if !bytes.Equal(got, canon) {
			site := "Marshal on a reused object returns something else than the canonical encoding of the new value"
			if bytes.Equal(got, prev) {
				site = "Marshal on a reused object returns the previous value's encoding"
			}
			return v(site, fmt.Sprintf("previous %s… got %s… want %s…", trunc(hex.EncodeToString(prev), 40), trunc(hex.EncodeToString(got), 40), trunc(hex.EncodeToString(canon), 40)))
		}
		if o3.Fields() != f1 {
			return v("decoding into a reused object gives a different value than into a fresh one", fmt.Sprintf("fresh %s reused %s", trunc(f1, 100), trunc(o3.Fields(), 100)))
		}
	}
	return true, nil
}

// ---- (a) well-formed values ----

type wfCase struct {
	Kind string `json:"kind"`
	A    int    `json:"a"`
	B    int    `json:"b"`
	C    int    `json:"c"`
	D    int    `json:"d"`
}

func fill(label string, n int) []byte { return mc.Fill(seedv, label, n) }

// wellFormed builds one well-formed value, encodes it with the implementation and
// returns (codec name, encoding, expected field dump, expected hand encoding).
func wellFormed(k wfCase) (string, []byte, string, []byte) {
	lbl := fmt.Sprintf("wf-%s-%d-%d-%d-%d", k.Kind, k.A, k.B, k.C, k.D)
	switch k.Kind {
	case "t1":
		r := &type1.BasicPrivateTokenRequest{TokenKeyID: uint8(k.A), BlindedReq: fill(lbl, 49)}
		o := o1{r}
		return "type1.TokenRequest", r.Marshal(), o.Fields(), o.Hand()
	case "t2":
		r := &type2.BasicPublicTokenRequest{TokenKeyID: uint8(k.A), BlindedReq: fill(lbl, 256)}
		o := o2{r}
		return "type2.TokenRequest", r.Marshal(), o.Fields(), o.Hand()
	case "t5":
		els := make([][]byte, k.B)
		for i := range els {
			els[i] = fill(fmt.Sprintf("%s-%d", lbl, i), 32)
		}
		r := &type5.BatchedPrivateTokenRequest{TokenKeyID: uint8(k.A), BlindedReq: els}
		o := o5{r}
		return "type5.TokenRequest", r.Marshal(), o.Fields(), o.Hand()
	case "t3":
		r := &type3.RateLimitedTokenRequest{RequestKey: fill(lbl+"k", 49), NameKeyID: fill(lbl+"n", 32), EncryptedTokenRequest: fill(lbl+"e", k.B), Signature: fill(lbl+"s", 96)}
		o := o3{r}
		return "type3.TokenRequest", r.Marshal(), o.Fields(), o.Hand()
	case "inner":
		in := type3.VerifNewInner(uint8(k.A), fill(lbl+"m", 256), fill(lbl+"p", k.B))
		o := oInner{&in}
		return "type3.InnerTokenRequest", in.Marshal(), o.Fields(), o.Hand()
	case "chal":
		names := []string{"a", "issuer.example", strings.Repeat("n", 255), strings.Repeat("n", 256), strings.Repeat("x", 65535),
			"issuer.example.", ".", "i", "ISSUER.Example", " issuer.example ", "issuer.example:443", "issuer,example", "issuer\x00example", "xn--bcher-kva.example", "b\u00fccher.example"}
		many := func(n int) []string {
			l := make([]string, n)
			for i := range l {
				l[i] = fmt.Sprintf("o%d.example", i)
			}
			return l
		}
		origins := [][]string{{""}, {"a"}, {"origin.example"}, {"a.example", "b.example"}, {"a", "b", "c"}, {strings.Repeat("o", 65535)}, {strings.Repeat("o", 32767), strings.Repeat("p", 32767)},
			many(63), many(64), many(65), many(255), many(256), many(257), many(1000), {"a", "", "b"}, {"", ""}}
		c := tokens.TokenChallenge{TokenType: uint16(k.A), IssuerName: names[k.B], RedemptionNonce: fill(lbl, k.C), OriginInfo: origins[k.D]}
		o := oChallenge{&c, new(bool)}
		return "tokens.TokenChallenge", c.Marshal(), o.Fields(), o.Hand()
	case "tok":
		al := map[int]int{1: 48, 2: 256, 3: 256, 5: 64}[k.A]
		t := tokens.Token{TokenType: uint16(k.A), Nonce: fill(lbl+"n", 32), Context: fill(lbl+"c", 32), KeyID: fill(lbl+"k", 32), Authenticator: fill(lbl+"a", al)}
		if k.B == 1 {
			t.Nonce, t.Context, t.KeyID = make([]byte, 32), bytes.Repeat([]byte{0xff}, 32), make([]byte, 32)
		}
		o := oToken{v: &t}
		return fmt.Sprintf("type%d.Token", k.A), t.Marshal(), o.Fields(), o.Hand()
	case "encap":
		if k.A >= 2 {
			// name keys of the other KEMs, assembled by hand (there is no constructor for them):
			// id || kem_id || public key || kdf_id || aead_id
			kems := []struct {
				id  int
				pub func() []byte
			}{
				{0x0010, func() []byte {
					x, y := elliptic.P256().ScalarBaseMult(append([]byte{1}, fill(lbl, 30)...))
					return elliptic.Marshal(elliptic.P256(), x, y)
				}},
				{0x0012, func() []byte {
					x, y := elliptic.P521().ScalarBaseMult(append([]byte{1}, fill(lbl, 60)...))
					return elliptic.Marshal(elliptic.P521(), x, y)
				}},
				{0x0020, func() []byte { return fill(lbl, 32) }},
			}
			km := kems[(k.A-2)%len(kems)]
			pub := km.pub()
			id, kdf, aead := byte(k.B), 1+k.C%3, 1+k.D%3
			hand := cat([]byte{id}, u16(km.id), pub, u16(kdf), u16(aead))
			fields := fmt.Sprintf("encap id=%02x kem=%04x kdf=%04x aead=%04x pk=%s", id, km.id, kdf, aead, hx(pub))
			return "type3.EncapKey", hand, fields, hand
		}
		var key type3.EncapKey
		if k.A == 0 {
			key = world.W3.Issuer.NameKey()
		} else {
			pk, err := type3.CreatePrivateEncapKeyFromSeed(fill(lbl, 32))
			if err != nil {
				panic(err)
			}
			key = pk.Public()
		}
		o := oEncap{&key}
		return "type3.EncapKey", key.Marshal(), o.Fields(), o.Hand()
	case "breq":
		// every sequence over {type1, type2} of length k.B, sequence number k.A
		var list []tokens.TokenRequestWithDetails
		var hand []byte
		fields := "batchreq"
		x := k.A
		for i := 0; i < k.B; i++ {
			if x%2 == 0 {
				r := &type1.BasicPrivateTokenRequest{TokenKeyID: uint8(i * 77), BlindedReq: fill(fmt.Sprintf("%s-%d", lbl, i), 49)}
				list = append(list, r)
				hand = append(hand, o1{r}.Hand()...)
				fields += " " + hx(o1{r}.Hand())
			} else {
				r := &type2.BasicPublicTokenRequest{TokenKeyID: uint8(i*77 + 1), BlindedReq: fill(fmt.Sprintf("%s-%d", lbl, i), 256)}
				list = append(list, r)
				hand = append(hand, o2{r}.Hand()...)
				fields += " " + hx(o2{r}.Hand())
			}
			x /= 2
		}
		br, err := batched.NewBasicClient().CreateTokenRequest(list)
		if err != nil {
			panic(err)
		}
		return "batched.TokenRequest", br.Marshal(), fields, cat(varint(uint64(len(hand))), hand)
	case "bresp":
		// every sequence over {absent, present type1, present type2} of length k.B, number k.A
		var entries [][]byte
		x := k.A
		for i := 0; i < k.B; i++ {
			switch x % 3 {
			case 0:
				entries = append(entries, []byte{})
			case 1:
				entries = append(entries, fill(fmt.Sprintf("%s-%d", lbl, i), 145))
			case 2:
				entries = append(entries, fill(fmt.Sprintf("%s-%d", lbl, i), 256))
			}
			x /= 3
		}
		o := oBatchResp{&entries}
		return "batched.TokenResponses", o.Hand(), o.Fields(), o.Hand()
	}
	panic("unknown kind")
}

func checkWellFormed(k wfCase) *mc.Viol {
	var name, wantFields string
	var enc, hand []byte
	if p := mc.Catch(func() { name, enc, wantFields, hand = wellFormed(k) }); p != "" {
		return &mc.Viol{Sig: k.Kind + ": encoding a well-formed value panics", What: fmt.Sprintf("%+v: %s", k, p)}
	}
	c := codecByName(name)
	v := func(site, what string) *mc.Viol {
		return &mc.Viol{Sig: name + ": " + site, What: fmt.Sprintf("well-formed value %+v: %s", k, what)}
	}
	if !bytes.Equal(enc, hand) {
		return v("encoding of a well-formed value differs from the wire format", fmt.Sprintf("got %s want %s", trunc(hx(enc), 120), trunc(hx(hand), 120)))
	}
	o := c.New()
	var ok bool
	if p := mc.Catch(func() { ok = o.Unmarshal(enc) }); p != "" {
		return v("decoder panics on the encoding of a well-formed value", p)
	}
	if !ok {
		return v("decoder rejects the encoding of a well-formed value", trunc(hx(enc), 120))
	}
	if got := o.Fields(); got != wantFields {
		return v("decode(encode(v)) != v", fmt.Sprintf("got %s want %s", trunc(got, 160), trunc(wantFields, 160)))
	}
	return nil
}

// ---- (d) type separation ----

type sepCase struct {
	Decoder string `json:"decoder"`
	Body    string `json:"body_of"`
	Tag     int    `json:"tag"`
}

func checkSep(k sepCase) *mc.Viol {
	dec := codecByName(k.Decoder)
	body := codecByName(k.Body)
	msg := append([]byte{}, body.Seeds[0].Msg...)
	binary.BigEndian.PutUint16(msg, uint16(k.Tag))
	o := dec.New()
	ok := false
	if p := mc.Catch(func() { ok = o.Unmarshal(msg) }); p != "" {
		return nil
	}
	if ok && uint16(k.Tag) != dec.Tag {
		return &mc.Viol{Sig: k.Decoder + ": accepts a message tagged with another type", What: fmt.Sprintf("tag %04x on a %s body", k.Tag, k.Body)}
	}
	if !ok && uint16(k.Tag) == dec.Tag && k.Decoder == k.Body {
		return &mc.Viol{Sig: k.Decoder + ": rejects its own valid message", What: ""}
	}
	return nil
}

type bsepCase struct {
	Types []int `json:"types"` // element types of the list
}

func batchOf(types []int) []byte {
	var body []byte
	for _, t := range types {
		switch t {
		case 1:
			body = append(body, world.O1.Request...)
		case 2:
			body = append(body, world.O2.Request...)
		case 3:
			body = append(body, world.O3.Request...)
		case 5:
			body = append(body, world.O5.Request...)
		default:
			m := append([]byte{}, world.O1.Request...)
			binary.BigEndian.PutUint16(m, uint16(t))
			body = append(body, m...)
		}
	}
	return cat(varint(uint64(len(body))), body)
}

func checkBatchSep(k bsepCase) *mc.Viol {
	msg := batchOf(k.Types)
	r := new(batched.BatchedTokenRequest)
	ok := false
	if p := mc.Catch(func() { ok = r.Unmarshal(msg) }); p != "" {
		return nil
	}
	foreign := false
	for _, t := range k.Types {
		if t != 1 && t != 2 {
			foreign = true
		}
	}
	if ok && foreign {
		return &mc.Viol{Sig: "batched.TokenRequest: accepts a list with an element of a type it does not carry", What: fmt.Sprintf("types %v", k.Types)}
	}
	if !ok && !foreign {
		return &mc.Viol{Sig: "batched.TokenRequest: rejects a valid list", What: fmt.Sprintf("types %v", k.Types)}
	}
	if ok && len(r.VerifRequests()) != len(k.Types) {
		return &mc.Viol{Sig: "batched.TokenRequest: wrong element count", What: fmt.Sprintf("types %v decoded %d", k.Types, len(r.VerifRequests()))}
	}
	return nil
}

// ---- (c) sequences on one object ----

type seqOp struct {
	Op  string `json:"op"` // M | U
	Msg int    `json:"msg"`
}

type seqState struct {
	o      obj
	expect []byte // canonical encoding the object must marshal to; nil = undefined (never decoded, or last decode failed)
}

func seqMsgs(c *codec) [][]byte {
	base := c.Seeds[0].Msg
	var out [][]byte
	out = append(out, base)
	// three more valid encodings: change one payload byte each
	for i := 1; i <= 3; i++ {
		m := append([]byte{}, base...)
		pos := len(m) - i*3
		if c.Name == "type3.EncapKey" {
			pos = 3 + i // inside the public key
		}
		if c.Name == "tokens.TokenChallenge" {
			pos = 20 + i // inside the redemption nonce
		}
		if pos < 3 {
			pos = len(m) - 1
		}
		m[pos] ^= byte(0x11 * i)
		out = append(out, m)
	}
	// invalid: truncated, wrong leading byte(s), empty
	out = append(out, append([]byte{}, base[:len(base)-1]...))
	bad := append([]byte{}, base...)
	bad[0], bad[1] = 0xff, 0xfe
	if c.Name == "type3.InnerTokenRequest" {
		bad = bad[:100]
	}
	out = append(out, bad)
	out = append(out, []byte{})
	return out
}

func runSeq(r *mc.Run, c *codec, depth int) {
	q := buildSeq(c)
	q.Depth = depth
	q.Register(r)
	q.Run(r)
}

func buildSeq(c *codec) *mc.Seq[*seqState, seqOp] {
	msgs := seqMsgs(c)
	// reference verdict and canonical encoding per message, from fresh objects
	canon := make([][]byte, len(msgs))
	for i, m := range msgs {
		o := c.New()
		if o.Unmarshal(m) {
			canon[i] = o.Hand()
		}
	}
	q := &mc.Seq[*seqState, seqOp]{
		Kind: "seq-" + c.Name,
		Init: func() *seqState { return &seqState{o: c.New()} },
		Ops: func(s *seqState, d int) []seqOp {
			ops := []seqOp{{Op: "M"}}
			for i := range msgs {
				ops = append(ops, seqOp{Op: "U", Msg: i})
			}
			return ops
		},
		Apply: func(s *seqState, op seqOp) (string, *mc.Viol) {
			if op.Op == "M" {
				var got []byte
				if p := mc.Catch(func() { got = s.o.Marshal() }); p != "" {
					return "marshal-panic", nil
				}
				if s.expect != nil && !bytes.Equal(got, s.expect) {
					return "marshal-mismatch", &mc.Viol{Sig: c.Name + ": Marshal on a reused object returns something else than the canonical encoding of the last accepted value", What: fmt.Sprintf("got %s want %s", trunc(hx(got), 60), trunc(hx(s.expect), 60))}
				}
				if s.expect == nil {
					return "marshal-undefined", nil
				}
				return "marshal-ok", nil
			}
			ok := false
			if p := mc.Catch(func() { ok = s.o.Unmarshal(msgs[op.Msg]) }); p != "" {
				s.expect = nil
				return "unmarshal-panic", nil
			}
			if ok != (canon[op.Msg] != nil) {
				s.expect = nil
				return "verdict-differs", &mc.Viol{Sig: c.Name + ": decoder verdict depends on what the object held before", What: fmt.Sprintf("message %d accepted=%v on reused object, %v on fresh", op.Msg, ok, canon[op.Msg] != nil)}
			}
			if !ok {
				s.expect = nil // contents after a rejected decode are unspecified
				return "unmarshal-reject", nil
			}
			s.expect = canon[op.Msg]
			return "unmarshal-accept", nil
		},
	}
	return q
}

// ---- (e) Rust vectors ----

func checkVectors(r *mc.Run) {
	b, err := os.ReadFile("/repo/tokens/batched/batched-issuance-test-vectors-rust.json")
	if err != nil {
		r.Note("cannot read Rust vectors: %v", err)
		r.NotExhaustive("Rust vectors unreadable")
		return
	}
	var vs []struct {
		Issuance      []json.RawMessage `json:"issuance"`
		TokenRequest  string            `json:"token_request"`
		TokenResponse string            `json:"token_response"`
	}
	if err := json.Unmarshal(b, &vs); err != nil {
		r.Note("cannot parse Rust vectors: %v", err)
		return
	}
	for i, v := range vs {
		req, _ := hex.DecodeString(v.TokenRequest)
		resp, _ := hex.DecodeString(v.TokenResponse)
		c := codecByName("batched.TokenRequest")
		acc, viol := checkAccepted(c, req)
		if viol == nil && !acc {
			viol = &mc.Viol{Sig: "batched.TokenRequest: rejects the independent implementation's request vector", What: fmt.Sprintf("vector %d", i)}
		}
		if viol == nil {
			o := c.New()
			o.Unmarshal(req)
			if !bytes.Equal(o.Marshal(), req) {
				viol = &mc.Viol{Sig: "batched.TokenRequest: re-encoding of the independent implementation's request differs", What: fmt.Sprintf("vector %d", i)}
			} else if n := len(o.(oBatchReq).r.VerifRequests()); n != len(v.Issuance) {
				viol = &mc.Viol{Sig: "batched.TokenRequest: wrong element count for the independent implementation's request", What: fmt.Sprintf("vector %d: %d vs %d", i, n, len(v.Issuance))}
			}
		}
		r.Violation("acc", accCase{Codec: "batched.TokenRequest", In: v.TokenRequest}, viol)
		r.Case(fmt.Sprintf("rust-req-%d", i), true, "vector-request")
		entries, err := batched.UnmarshalBatchedTokenResponses(resp)
		var v2 *mc.Viol
		if err != nil || len(entries) != len(v.Issuance) {
			v2 = &mc.Viol{Sig: "batched.TokenResponses: independent implementation's response does not decode to one entry per request", What: fmt.Sprintf("vector %d: err=%v entries=%d requests=%d", i, err, len(entries), len(v.Issuance))}
		}
		r.Violation("accresp", accCase{Codec: "batched.TokenResponses", In: v.TokenResponse}, v2)
		r.Case(fmt.Sprintf("rust-resp-%d", i), true, "vector-response")
	}
}

func trunc(s string, n int) string {
	if len(s) > n {
		return s[:n] + "…"
	}
	return s
}

func main() {
	r := mc.Start("C04", "model_checking")
	seedv = r.Seed
	mc.InstallDRBG(r.Seed)
	world = bx.BuildWorld(r.Seed)
	allCodecs = codecs(world)

	r.RegisterReplay("acc", func(pj json.RawMessage) *mc.Viol {
		var c accCase
		json.Unmarshal(pj, &c)
		in, _ := hex.DecodeString(c.In)
		_, v := checkAccepted(codecByName(c.Codec), in)
		return v
	})
	r.RegisterReplay("accresp", func(pj json.RawMessage) *mc.Viol {
		var c accCase
		json.Unmarshal(pj, &c)
		in, _ := hex.DecodeString(c.In)
		if e, err := batched.UnmarshalBatchedTokenResponses(in); err != nil {
			return &mc.Viol{Sig: "batched.TokenResponses: independent implementation's response does not decode to one entry per request", What: fmt.Sprint(err, len(e))}
		}
		return nil
	})
	r.RegisterReplay("wf", func(pj json.RawMessage) *mc.Viol { var c wfCase; json.Unmarshal(pj, &c); return checkWellFormed(c) })
	r.RegisterReplay("sep", func(pj json.RawMessage) *mc.Viol { var c sepCase; json.Unmarshal(pj, &c); return checkSep(c) })
	r.RegisterReplay("bsep", func(pj json.RawMessage) *mc.Viol { var c bsepCase; json.Unmarshal(pj, &c); return checkBatchSep(c) })
	// sequence kinds are registered by runSeq; for --replay they must exist up front
	r.RegisterArch386()
	if r.IsReplay() {
		for i := range allCodecs {
			buildSeq(&allCodecs[i]).Register(r)
		}
		r.DoReplay()
	}

	// (a) well-formed values
	var wf []wfCase
	kids := []int{0, 1, 0x7f, 0x80, 0xff}
	for _, k := range kids {
		wf = append(wf, wfCase{Kind: "t1", A: k}, wfCase{Kind: "t2", A: k})
		for _, n := range []int{0, 1, 2, 3, 4, 511, 512, 513} {
			wf = append(wf, wfCase{Kind: "t5", A: k, B: n})
		}
		for _, n := range []int{0, 32, 64, 1024, 65504, 65535} {
			wf = append(wf, wfCase{Kind: "inner", A: k, B: n})
		}
	}
	for _, n := range []int{1, 2, 48, 255, 256, 65535} {
		wf = append(wf, wfCase{Kind: "t3", B: n})
	}
	for _, t := range []int{1, 2, 3, 5, 0, 0xffff} {
		for nm := 0; nm < 5; nm++ {
			for _, nl := range []int{0, 1, 31, 32} {
				for or := 0; or < 16; or++ {
					wf = append(wf, wfCase{Kind: "chal", A: t, B: nm, C: nl, D: or})
				}
			}
		}
		for nm := 5; nm < 15; nm++ { // issuer names that text processing damages
			for _, or := range []int{0, 3} {
				wf = append(wf, wfCase{Kind: "chal", A: t, B: nm, C: 32, D: or})
			}
		}
	}
	for _, t := range []int{1, 2, 3, 5} {
		wf = append(wf, wfCase{Kind: "tok", A: t, B: 0}, wfCase{Kind: "tok", A: t, B: 1})
	}
	for a := 0; a < 6; a++ {
		wf = append(wf, wfCase{Kind: "encap", A: a})
		for kem := 2; kem < 5; kem++ {
			for suite := 0; suite < 9; suite++ {
				wf = append(wf, wfCase{Kind: "encap", A: kem, B: a * 127, C: suite / 3, D: suite % 3})
			}
		}
	}
	maxList := mc.Pick(r, 4, 6)
	for n := 1; n <= maxList; n++ {
		for x := 0; x < 1<<n; x++ {
			wf = append(wf, wfCase{Kind: "breq", A: x, B: n})
		}
	}
	for n := 0; n <= maxList; n++ {
		p := 1
		for i := 0; i < n; i++ {
			p *= 3
		}
		for x := 0; x < p; x++ {
			wf = append(wf, wfCase{Kind: "bresp", A: x, B: n})
		}
	}
	r.Par(len(wf), func(i int) {
		v := checkWellFormed(wf[i])
		r.Violation("wf", wf[i], v)
		out := "roundtrip-ok"
		if v != nil {
			out = "roundtrip-violation"
		}
		r.Case(fmt.Sprintf("wf-%+v", wf[i]), true, out)
	})
	r.Set("well_formed_values", len(wf))
	r.Sample(wf[len(wf)/2])

	// (b) accepted strings
	L := mc.Pick(r, 4, 5)
	type job struct {
		c  *codec
		g  string
		in []byte
	}
	accepted := map[string]int{}
	for ci := range allCodecs {
		c := &allCodecs[ci]
		var jobs []job
		bx.Gen(c.Seeds, L, r.Thorough(), r.Thorough(), func(g string, in []byte) { jobs = append(jobs, job{c, g, in}) })
		accN := make([]int, len(jobs))
		r.Par(len(jobs), func(i int) {
			j := jobs[i]
			acc, v := checkAccepted(j.c, j.in)
			if v != nil {
				r.Violation("acc", accCase{Codec: j.c.Name, In: hex.EncodeToString(j.in), Gen: j.g}, v)
			}
			if acc {
				accN[i] = 1
				r.Case(j.c.Name+"|"+string(j.in), true, "accepted-canonical-ok")
			}
		})
		rej := 0
		for _, a := range accN {
			if a == 0 {
				rej++
			} else {
				accepted[c.Name]++
			}
		}
		r.Bulk(int64(rej), 0, "rejected")
	}
	r.Set("accepted_per_decoder", accepted)
	r.Sample(accCase{Codec: "type5.TokenRequest", In: "000500", Gen: "strings"})

	// (d) type separation
	var sepN int64
	req := []string{"type1.TokenRequest", "type2.TokenRequest", "type3.TokenRequest", "type5.TokenRequest"}
	for _, d := range req {
		for _, b := range req {
			d, b := d, b
			r.Par(16, func(sh int) {
				var n int64
				for tag := sh; tag < 65536; tag += 16 {
					k := sepCase{Decoder: d, Body: b, Tag: tag}
					if v := checkSep(k); v != nil {
						r.Violation("sep", k, v)
					}
					n++
				}
				r.Bulk(n, n, "tag-separation")
			})
			sepN += 65536
		}
	}
	r.Sample(sepCase{Decoder: "type1.TokenRequest", Body: "type2.TokenRequest", Tag: 2})
	tys := []int{1, 2, 3, 5, 0, 4, 0xffff}
	maxB := mc.Pick(r, 3, 4)
	var lists [][]int
	var build func(cur []int)
	build = func(cur []int) {
		if len(cur) > 0 {
			lists = append(lists, append([]int{}, cur...))
		}
		if len(cur) == maxB {
			return
		}
		for _, t := range tys {
			build(append(cur, t))
		}
	}
	build(nil)
	r.Par(len(lists), func(i int) {
		k := bsepCase{Types: lists[i]}
		v := checkBatchSep(k)
		r.Violation("bsep", k, v)
		foreign := "valid-list-accepted"
		for _, t := range k.Types {
			if t != 1 && t != 2 {
				foreign = "foreign-element-rejected"
			}
		}
		r.Case(fmt.Sprintf("bsep-%v", k.Types), true, foreign)
	})
	r.Set("type_separation", map[string]any{"decoder_x_body_x_tag": sepN, "batch_lists": len(lists)})

	// (c) sequences
	depth := mc.Pick(r, 3, 4)
	for i := range allCodecs {
		runSeq(r, &allCodecs[i], depth)
	}
	r.Set("sequence_depth", depth)

	// (e) vectors
	checkVectors(r)

	r.SetRule("(a) well-formed values from field alphabets per structure; (b) every generated byte string (all strings over a 12-byte alphabet up to length L, every truncation/extension/field value/byte substitution[/bit flip] of a valid message) that the decoder accepts; (c) every operation sequence Marshal/Unmarshal(4 valid, 3 invalid) up to the depth on one object; (d) 4 request decoders x 4 bodies x 65536 tags and every list over 7 element types up to length 3/4 for the batch decoder; (e) Rust vectors. distinct_nontrivial counts distinct accepted inputs, distinct well-formed values, tag cases and sequences; rejected inputs are trivial")
	r.Assume("well-formed = in the image of the format (TokenChallenge with non-empty issuer name and nonce <= 32 bytes; origin info a non-empty list of comma-free strings)",
		"the contents of an object after a rejected Unmarshal are unspecified: the sequence model resumes checking after the next accepted Unmarshal",
		"hand encoders are written from the struct comments / RFC 9578 / draft-ietf-privacypass-batched-tokens wire definitions")
	r.RunArch386() // the whole check again as a 32-bit program
	r.Finish()
}
