package refs

// Independent reference for the anonymous issuer origin ID (written from RFC 9380
// section 5 and the property statement; uses only crypto/elliptic, crypto/sha512,
// math/big and x/crypto/hkdf - nothing from pat-go or circl).

import (
	"crypto/elliptic"
	"crypto/sha512"
	"errors"
	"io"
	"math/big"

	"golang.org/x/crypto/hkdf"
)

// expandXMD384 is expand_message_xmd (RFC 9380, 5.3.1) with H = SHA-384
// (b_in_bytes = 48, s_in_bytes = 128).
func ExpandXMD384(msg, dst []byte, n int) []byte {
	const bIn, sIn = 48, 128
	ell := (n + bIn - 1) / bIn
	if ell > 255 || n > 65535 || len(dst) > 255 {
		panic("expand_message_xmd: parameters out of range")
	}
	dstPrime := append(append([]byte{}, dst...), byte(len(dst)))
	h := sha512.New384()
	h.Write(make([]byte, sIn)) // Z_pad
	h.Write(msg)
	h.Write([]byte{byte(n >> 8), byte(n)}) // l_i_b_str
	h.Write([]byte{0})
	h.Write(dstPrime)
	b0 := h.Sum(nil)

	h = sha512.New384()
	h.Write(b0)
	h.Write([]byte{1})
	h.Write(dstPrime)
	bi := h.Sum(nil)
	out := append([]byte{}, bi...)
	for i := 2; i <= ell; i++ {
		x := make([]byte, bIn)
		for j := range x {
			x[j] = b0[j] ^ bi[j]
		}
		h = sha512.New384()
		h.Write(x)
		h.Write([]byte{byte(i)})
		h.Write(dstPrime)
		bi = h.Sum(nil)
		out = append(out, bi...)
	}
	return out[:n]
}

// hashToScalarP384 is hash_to_field (RFC 9380, 5.2) with count = 1, m = 1, L = 72,
// modulus = order of P-384, DST "ECDSA Key Blind".
func HashToScalarP384(msg []byte) *big.Int {
	u := ExpandXMD384(msg, []byte("ECDSA Key Blind"), 72)
	v := new(big.Int).SetBytes(u)
	return v.Mod(v, elliptic.P384().Params().N)
}

// blindFactor is the scalar a public key is multiplied by when it is blinded with
// the blind key scalar d under context 0x0003 || label.
func BlindFactor(d *big.Int, label string) *big.Int {
	msg := append([]byte{}, d.Bytes()...) // minimal big-endian bytes
	msg = append(msg, 0x00)
	msg = append(msg, 0x00, 0x03)
	msg = append(msg, label...)
	return HashToScalarP384(msg)
}

// mulCompressed returns compressed(f * P) for a compressed P-384 point.
func MulCompressed(pt []byte, f *big.Int) ([]byte, error) {
	c := elliptic.P384()
	x, y := elliptic.UnmarshalCompressed(c, pt)
	if x == nil {
		return nil, errors.New("not a compressed P-384 point")
	}
	k := make([]byte, 48)
	new(big.Int).Mod(f, c.Params().N).FillBytes(k)
	rx, ry := c.ScalarMult(x, y, k)
	if rx.Sign() == 0 && ry.Sign() == 0 {
		return nil, errors.New("point at infinity")
	}
	return elliptic.MarshalCompressed(c, rx, ry), nil
}

// refIssuerOriginID = HKDF-SHA-384(salt = client key, ikm = compressed(f * clientPub),
// info = "IssuerOriginAlias")[:48] with f = BlindFactor(index key, "IssuerBlind").
func IssuerOriginID(clientPub []byte, indexKey *big.Int) (id []byte, f *big.Int, err error) {
	f = BlindFactor(indexKey, "IssuerBlind")
	ikm, err := MulCompressed(clientPub, f)
	if err != nil {
		return nil, nil, err
	}
	id = make([]byte, 48)
	if _, err := io.ReadFull(hkdf.New(sha512.New384, ikm, clientPub, []byte("IssuerOriginAlias")), id); err != nil {
		return nil, nil, err
	}
	return id, f, nil
}

// p384Pub is compressed(d * G).
func P384Pub(d []byte) []byte {
	c := elliptic.P384()
	k := make([]byte, 48)
	v := new(big.Int).SetBytes(d)
	v.Mod(v, c.Params().N)
	v.FillBytes(k)
	x, y := c.ScalarBaseMult(k)
	return elliptic.MarshalCompressed(c, x, y)
}
