// Package vinstr inserts scheduling points into pat-go's sources.
//
// The rewrite is purely syntactic (go/parser positions, textual insertion) so that it
// keeps working on edited sources, and it preserves line numbers exactly: the call
// `vsched.Y(N); ` is inserted in front of every statement on the statement's own line,
// the import is appended to the package clause line. Type references sync.Once /
// sync.Mutex / sync.RWMutex are replaced by the scheduler-aware shims.
package vinstr

import (
	"encoding/json"
	"fmt"
	"go/ast"
	"go/parser"
	"go/token"
	"os"
	"path/filepath"
	"sort"
	"strings"
)

type Site struct {
	ID   int    `json:"id"`
	File string `json:"file"`
	Line int    `json:"line"`
}

type mode int

const (
	modeStmt mode = iota
	modeEntry
	modeNone
)

// Coarse selects function-entry granularity for the signature forks and the small
// helper packages (their only shared state is behind sync.Once); the protocol code in
// tokens/ keeps statement granularity. Coarser modes lose interleavings, never race
// detection (which is by happens-before, not by interleaving).
var Coarse bool

// modeOf decides the granularity for a file (path relative to the repository root).
func modeOf(rel string) mode {
	if Coarse && (strings.HasPrefix(rel, "ecdsa/") || strings.HasPrefix(rel, "ed25519/") || strings.HasPrefix(rel, "util/") || strings.HasPrefix(rel, "quicwire/")) && rel != "ecdsa/randutil.go" && !strings.HasPrefix(rel, "ed25519/internal/edwards25519/field/") && rel != "ed25519/internal/edwards25519/scalar.go" && rel != "ed25519/internal/edwards25519/edwards25519.go" && rel != "ed25519/internal/edwards25519/tables.go" {
		return modeEntry
	}
	switch {
	case strings.HasPrefix(rel, "ed25519/internal/edwards25519/field/"),
		rel == "ed25519/internal/edwards25519/scalar.go",
		rel == "ed25519/internal/edwards25519/edwards25519.go",
		rel == "ed25519/internal/edwards25519/tables.go",
		rel == "ecdsa/randutil.go":
		return modeNone
	case rel == "ed25519/internal/edwards25519/scalarmult.go":
		return modeEntry
	}
	return modeStmt
}

type edit struct {
	off  int
	del  int
	text string
}

// Instrument rewrites every non-test .go file under root (optionally read through
// baseOverlay: original path -> replacement path) into outDir and returns the overlay
// map (original absolute path -> rewritten file) and the site table.
func Instrument(root, outDir string, baseOverlay map[string]string) (map[string]string, []Site, error) {
	overlay := map[string]string{}
	for k, v := range baseOverlay {
		overlay[k] = v
	}
	var sites []Site
	var files []string
	err := filepath.Walk(root, func(p string, info os.FileInfo, err error) error {
		if err != nil {
			return err
		}
		if info.IsDir() {
			if info.Name() == ".git" || info.Name() == "testdata" || info.Name() == "scripts" {
				return filepath.SkipDir
			}
			return nil
		}
		if strings.HasSuffix(p, ".go") && !strings.HasSuffix(p, "_test.go") {
			files = append(files, p)
		}
		return nil
	})
	if err != nil {
		return nil, nil, err
	}
	// files that exist only in the base overlay (added by a patch)
	for orig := range baseOverlay {
		if strings.HasPrefix(orig, root+"/") && strings.HasSuffix(orig, ".go") && !strings.HasSuffix(orig, "_test.go") {
			if _, err := os.Stat(orig); err != nil {
				files = append(files, orig)
			}
		}
	}
	sort.Strings(files)
	// package-level variables per directory: functions that mention one get statement-level
	// points even in files that are otherwise instrumented at function entries only
	pkgVars := map[string]map[string]bool{}
	for _, p := range files {
		src := p
		if r, ok := baseOverlay[p]; ok {
			src = r
		}
		b, err := os.ReadFile(src)
		if err != nil {
			continue
		}
		f, err := parser.ParseFile(token.NewFileSet(), p, b, 0)
		if err != nil {
			continue
		}
		dir := filepath.Dir(p)
		if pkgVars[dir] == nil {
			pkgVars[dir] = map[string]bool{}
		}
		for _, d := range f.Decls {
			if gd, ok := d.(*ast.GenDecl); ok && gd.Tok == token.VAR {
				for _, sp := range gd.Specs {
					for _, n := range sp.(*ast.ValueSpec).Names {
						if n.Name != "_" {
							pkgVars[dir][n.Name] = true
						}
					}
				}
			}
		}
	}
	for _, p := range files {
		rel, _ := filepath.Rel(root, p)
		src := p
		if r, ok := baseOverlay[p]; ok {
			src = r
		}
		b, err := os.ReadFile(src)
		if err != nil {
			return nil, nil, err
		}
		out, fsites, err := rewrite(rel, b, len(sites), pkgVars[filepath.Dir(p)])
		if err != nil {
			return nil, nil, fmt.Errorf("%s: %v", rel, err)
		}
		if out == nil {
			continue
		}
		sites = append(sites, fsites...)
		dst := filepath.Join(outDir, rel)
		if err := os.MkdirAll(filepath.Dir(dst), 0o755); err != nil {
			return nil, nil, err
		}
		if err := os.WriteFile(dst, out, 0o644); err != nil {
			return nil, nil, err
		}
		overlay[p] = dst
	}
	return overlay, sites, nil
}

// mentions reports whether the node references one of the names as a plain identifier.
func mentions(n ast.Node, names map[string]bool) bool {
	found := false
	ast.Inspect(n, func(x ast.Node) bool {
		if id, ok := x.(*ast.Ident); ok && names[id.Name] {
			found = true
		}
		return !found
	})
	return found
}

func rewrite(rel string, src []byte, firstID int, pkgVars map[string]bool) ([]byte, []Site, error) {
	m := modeOf(rel)
	fset := token.NewFileSet()
	f, err := parser.ParseFile(fset, rel, src, parser.ParseComments)
	if err != nil {
		return nil, nil, err
	}
	var edits []edit
	var sites []Site
	off := func(p token.Pos) int { return fset.Position(p).Offset }
	addSite := func(p token.Pos) int {
		id := firstID + len(sites)
		sites = append(sites, Site{ID: id, File: rel, Line: fset.Position(p).Line})
		return id
	}
	point := func(p token.Pos) {
		id := addSite(p)
		edits = append(edits, edit{off: off(p), text: fmt.Sprintf("vsched.Y(%d); ", id)})
	}
	instrList := func(list []ast.Stmt) {
		for _, s := range list {
			switch s.(type) {
			case *ast.EmptyStmt, *ast.CaseClause, *ast.CommClause:
				continue // clauses of a switch / select body are not statements one can precede
			}
			point(s.Pos())
		}
	}
	hot := map[token.Pos]token.Pos{} // body ranges of functions instrumented at statement level
	inHot := func(p token.Pos) bool {
		for a, b := range hot {
			if p >= a && p < b {
				return true
			}
		}
		return false
	}
	usesShim := false
	otherSync := false
	syncImported := false
	for _, im := range f.Imports {
		if im.Path.Value == `"sync"` && im.Name == nil {
			syncImported = true
		}
	}
	ast.Inspect(f, func(n ast.Node) bool {
		switch x := n.(type) {
		case *ast.SelectorExpr:
			if id, ok := x.X.(*ast.Ident); ok && id.Name == "sync" && syncImported && id.Obj == nil {
				switch x.Sel.Name {
				case "Once", "Mutex", "RWMutex":
					edits = append(edits, edit{off: off(x.X.Pos()), del: len("sync"), text: "vsched"})
					usesShim = true
				default:
					otherSync = true
				}
			}
		case *ast.FuncDecl:
			if x.Body != nil && m == modeEntry {
				if mentions(x.Body, pkgVars) {
					// the function touches package-level state: statement granularity inside it
					hot[x.Body.Pos()] = x.Body.End()
				} else {
					id := addSite(x.Body.Lbrace)
					edits = append(edits, edit{off: off(x.Body.Lbrace) + 1, text: fmt.Sprintf(" vsched.Y(%d); ", id)})
				}
			}
		case *ast.BlockStmt:
			if m == modeStmt || inHot(x.Pos()) {
				instrList(x.List)
			}
		case *ast.CaseClause:
			if m == modeStmt || inHot(x.Pos()) {
				instrList(x.Body)
			}
		case *ast.CommClause:
			if m == modeStmt || inHot(x.Pos()) {
				instrList(x.Body)
			}
		}
		return true
	})
	if len(edits) == 0 {
		return nil, nil, nil
	}
	// the import, on the package clause line (keeps line numbers and leaves build
	// constraints and directives above the package clause in place)
	endOfName := off(f.Name.End())
	edits = append(edits, edit{off: endOfName, text: `; import vsched "verif/vsched"`})
	if usesShim && !otherSync {
		for _, im := range f.Imports {
			if im.Path.Value == `"sync"` && im.Name == nil {
				edits = append(edits, edit{off: off(im.Path.Pos()), text: "_ "})
			}
		}
	}
	sort.SliceStable(edits, func(i, j int) bool { return edits[i].off < edits[j].off })
	var out []byte
	last := 0
	for _, e := range edits {
		if e.off < last {
			return nil, nil, fmt.Errorf("overlapping edits at offset %d", e.off)
		}
		out = append(out, src[last:e.off]...)
		out = append(out, e.text...)
		last = e.off + e.del
	}
	out = append(out, src[last:]...)
	// the rewritten file must still parse
	if _, err := parser.ParseFile(token.NewFileSet(), rel, out, 0); err != nil {
		return nil, nil, fmt.Errorf("rewritten source does not parse: %v", err)
	}
	return out, sites, nil
}

// WriteOverlay writes the overlay JSON file.
func WriteOverlay(path string, repl map[string]string) error {
	b, err := json.MarshalIndent(map[string]any{"Replace": repl}, "", " ")
	if err != nil {
		return err
	}
	return os.WriteFile(path, b, 0o644)
}

// ReadOverlay reads an overlay JSON file (nil map if path is empty).
func ReadOverlay(path string) (map[string]string, error) {
	if path == "" {
		return nil, nil
	}
	b, err := os.ReadFile(path)
	if err != nil {
		return nil, err
	}
	var o struct{ Replace map[string]string }
	if err := json.Unmarshal(b, &o); err != nil {
		return nil, err
	}
	return o.Replace, nil
}
